"""Entry point: python3 -m fv.main <Cxx> quick|thorough | replay <file>"""
import importlib
import os
import sys
import time


def main(argv):
    if len(argv) < 2:
        print("usage: check <Cxx> quick|thorough | check replay <file>")
        return 2
    if argv[0] == "replay":
        from . import replay
        return replay.main(argv[1])
    prop = argv[0].upper()
    tier = argv[1] if len(argv) > 1 else os.environ.get("VERIF_TIER", "quick")
    if tier not in ("quick", "thorough"):
        print("tier must be quick or thorough")
        return 2
    os.environ["VERIF_TIER"] = tier
    try:
        mod = importlib.import_module("fv.checks." + prop.lower())
    except ImportError as e:
        print("no check for %s: %s" % (prop, e))
        return 2
    from . import server
    try:
        rc = mod.run(tier)
    except server.BuildError as e:
        print("INCONCLUSIVE: build failed, nothing was checked\n" + str(e)[-3000:])
        return 3
    return rc


if __name__ == "__main__":
    sys.exit(main(sys.argv[1:]))

"""Build the hooks-on ferrous binary from the repository's current working tree
and run private child servers."""
import fcntl
import os
import shutil
import signal
import socket
import subprocess
import sys
import tempfile
import threading
import time

from . import resp

VERIF = os.path.dirname(os.path.dirname(os.path.abspath(__file__)))
REPO = os.environ.get("VERIF_REPO", "/repo")
BUILD_ROOT = os.environ.get("VERIF_BUILD_DIR", os.path.join(VERIF, ".build"))

_ENV = dict(os.environ, CARGO_NET_OFFLINE="true", RUST_BACKTRACE="1")


class BuildError(Exception):
    pass


def _run_locked(lockname, argv, env, cwd, log):
    os.makedirs(BUILD_ROOT, exist_ok=True)
    with open(os.path.join(BUILD_ROOT, lockname + ".lock"), "w") as lk:
        fcntl.flock(lk, fcntl.LOCK_EX)
        with open(log, "wb") as lf:
            p = subprocess.run(argv, cwd=cwd, env=env, stdout=lf, stderr=subprocess.STDOUT)
        if p.returncode != 0:
            tail = open(log, "rb").read()[-4000:].decode("utf8", "replace")
            raise BuildError("build failed (%s):\n%s" % (" ".join(argv), tail))


def build(profile="dev"):
    """Build /repo (current working tree) with the verif feature. Returns the
    path of the server binary. Profiles: dev (opt-level 1, overflow checks and
    debug assertions on = repository default semantics), release (release
    semantics, fast build settings), asan, tsan."""
    t0 = time.time()
    tdir = os.path.join(BUILD_ROOT, profile)
    env = dict(_ENV, CARGO_TARGET_DIR=tdir)
    log = os.path.join(BUILD_ROOT, "build-%s.log" % profile)
    os.makedirs(BUILD_ROOT, exist_ok=True)
    if profile == "dev":
        argv = ["cargo", "build", "--offline", "--features", "verif", "--bin", "ferrous",
                "--config", "profile.dev.opt-level=1", "--config", "profile.dev.debug=1"]
        out = os.path.join(tdir, "debug", "ferrous")
    elif profile == "release":
        argv = ["cargo", "build", "--offline", "--release", "--features", "verif", "--bin", "ferrous",
                "--config", "profile.release.lto=false", "--config", "profile.release.codegen-units=16",
                "--config", "profile.release.opt-level=2"]
        out = os.path.join(tdir, "release", "ferrous")
    elif profile == "asan":
        env["RUSTFLAGS"] = "-Zsanitizer=address -Cforce-frame-pointers=yes"
        argv = ["cargo", "+nightly", "build", "--offline", "--features", "verif", "--bin", "ferrous",
                "--target", "x86_64-unknown-linux-gnu",
                "--config", "profile.dev.opt-level=1", "--config", "profile.dev.debug=1"]
        out = os.path.join(tdir, "x86_64-unknown-linux-gnu", "debug", "ferrous")
    elif profile == "tsan":
        env["RUSTFLAGS"] = "-Zsanitizer=thread"
        argv = ["cargo", "+nightly", "build", "--offline", "--features", "verif", "--bin", "ferrous",
                "-Zbuild-std", "--target", "x86_64-unknown-linux-gnu",
                "--config", "profile.dev.opt-level=1", "--config", "profile.dev.debug=1"]
        out = os.path.join(tdir, "x86_64-unknown-linux-gnu", "debug", "ferrous")
    else:
        raise ValueError(profile)
    _run_locked(profile, argv, env, REPO, log)
    if not os.path.exists(out):
        raise BuildError("binary missing after build: " + out)
    return out, time.time() - t0


def free_port():
    s = socket.socket()
    s.bind(("127.0.0.1", 0))
    p = s.getsockname()[1]
    s.close()
    return p


def _copy_stream(src, path):
    try:
        with open(path, "ab") as f:
            while True:
                d = src.read1(65536) if hasattr(src, "read1") else src.read(65536)
                if not d:
                    break
                f.write(d)
                f.flush()
    except (OSError, ValueError):
        pass


def _child_listens(pid, port):
    want = "%04X" % port
    inodes = set()
    for f in ("/proc/net/tcp", "/proc/net/tcp6"):
        try:
            with open(f) as fh:
                next(fh)
                for line in fh:
                    p = line.split()
                    if p[3] == "0A" and p[1].rsplit(":", 1)[1] == want:
                        inodes.add(p[9])
        except (OSError, StopIteration):
            pass
    if not inodes:
        return False
    try:
        for fd in os.listdir("/proc/%d/fd" % pid):
            try:
                t = os.readlink("/proc/%d/fd/%s" % (pid, fd))
            except OSError:
                continue
            if t.startswith("socket:[") and t[8:-1] in inodes:
                return True
    except OSError:
        pass
    return False


_SCRATCH = None


def scratch_root():
    global _SCRATCH
    if _SCRATCH is None or not os.path.isdir(_SCRATCH) or _SCRATCH_PID != os.getpid():
        _make_scratch()
    return _SCRATCH


_SCRATCH_PID = None


def _make_scratch():
    global _SCRATCH, _SCRATCH_PID
    base = os.environ.get("VERIF_SCRATCH", tempfile.gettempdir())
    _SCRATCH = tempfile.mkdtemp(prefix="fv-%d-" % os.getpid(), dir=base)
    _SCRATCH_PID = os.getpid()
    import atexit
    pid = os.getpid()
    path = _SCRATCH

    def _rm():
        if os.getpid() == pid:
            shutil.rmtree(path, ignore_errors=True)
    atexit.register(_rm)


REGISTRY = []   # recently started servers of this process (for post-mortems of harness exceptions)


class Server:
    """One private ferrous child process."""

    def __init__(self, binary, dirpath=None, password=None, appendonly=False, config_text=None,
                 dbfilename=None, extra_env=None, wrapper=None, start_timeout=20.0, os_fault_mode=None):
        self.binary = binary
        self.own_dir = dirpath is None
        self.dir = dirpath or tempfile.mkdtemp(prefix="srv-", dir=scratch_root())
        self.password = password
        self.appendonly = appendonly
        self.config_text = config_text
        self.dbfilename = dbfilename
        self.extra_env = extra_env or {}
        self.wrapper = wrapper or []
        self.start_timeout = start_timeout
        # os_fault_mode: the child is going to run under a file-size limit (RLIMIT_FSIZE set from outside):
        # "error" = SIGXFSZ ignored, writes beyond the limit fail with EFBIG; "kill" = default action, the
        # kernel kills the child at that write. Its stderr then goes through a pipe (a pipe has no size limit;
        # a log *file* would make every eprintln! fail too and manufacture panics the limit did not cause).
        self.os_fault_mode = os_fault_mode
        self.proc = None
        self.port = None
        self.errlog = os.path.join(self.dir, "stderr.log")
        self.starts = 0

    def start(self):
        last = None
        for _ in range(5):
            self.port = free_port()
            argv = list(self.wrapper) + [self.binary]
            if self.config_text is not None:
                cfg = os.path.join(self.dir, "ferrous.conf")
                with open(cfg, "w") as f:
                    f.write(self.config_text)
                argv += [cfg]
            argv += ["--port", str(self.port), "--dir", self.dir]
            if self.dbfilename:
                argv += ["--dbfilename", self.dbfilename]
            if self.password is not None:
                argv += ["--password", self.password]
            if self.appendonly:
                argv += ["--appendonly", "yes"]
            env = dict(_ENV)
            env.update(self.extra_env)
            if self.os_fault_mode:
                pre = (lambda: signal.signal(signal.SIGXFSZ, signal.SIG_IGN)) if self.os_fault_mode == "error" else None
                self.proc = subprocess.Popen(argv, cwd=self.dir, env=env, stdin=subprocess.DEVNULL,
                                             stdout=subprocess.DEVNULL, stderr=subprocess.PIPE, preexec_fn=pre)
                threading.Thread(target=_copy_stream, args=(self.proc.stderr, self.errlog), daemon=True).start()
            else:
                ef = open(self.errlog, "ab")
                self.proc = subprocess.Popen(argv, cwd=self.dir, env=env, stdin=subprocess.DEVNULL,
                                             stdout=subprocess.DEVNULL, stderr=ef)
                ef.close()
            self.starts += 1
            t_end = time.monotonic() + self.start_timeout
            while time.monotonic() < t_end:
                if self.proc.poll() is not None:
                    last = "exited %s" % self.proc.returncode
                    break
                # The port was free a moment ago, but another worker's child may have taken
                # it since: a successful connect proves nothing. Wait until OUR child owns
                # the listening socket (its inode is among the child's descriptors).
                if _child_listens(self.proc.pid, self.port):
                    self._served = self.proc.pid
                    REGISTRY.append(self)
                    del REGISTRY[:-64]
                    return self
                time.sleep(0.005)
            else:
                last = "did not listen in time"
                self.kill()
        raise RuntimeError("server failed to start: %s\n%s" % (last, self.stderr_tail()))

    def client(self, timeout=10.0, auth=True):
        c = resp.Client(self.port, timeout=timeout)
        if auth and self.password is not None:
            r = c.cmd("AUTH", self.password)
            if r != resp.OK:
                raise RuntimeError("AUTH failed: %r" % (r,))
        return c

    def alive(self):
        return self.proc is not None and self.proc.poll() is None

    def settle(self, timeout=4.0):
        """After a connection broke: a panicking child keeps running while it prints its backtrace (a second or
        more in a debug build). Wait until it has exited or answers a connect again. Returns alive()."""
        end = time.monotonic() + timeout
        while time.monotonic() < end:
            if self.proc is None or self.proc.poll() is not None:
                return False
            try:
                s = socket.create_connection(("127.0.0.1", self.port), timeout=0.3)
                s.close()
                # it accepts: alive as far as one can tell - but a dying process may still hold the socket
                time.sleep(0.15)
                if self.proc.poll() is None and time.monotonic() + 0.5 < end:
                    end = min(end, time.monotonic() + 0.8)
            except OSError:
                pass
            time.sleep(0.05)
        return self.alive()

    def expect_exit(self):
        """The harness is about to make the child exit on purpose (abort point, SHUTDOWN)."""
        if self.proc is not None:
            self._we_killed = self.proc.pid

    def died_by_itself(self):
        """The current child exited although nobody here killed it (and it had been serving)."""
        return (self.proc is not None and self.proc.poll() is not None and
                getattr(self, "_we_killed", None) != self.proc.pid and getattr(self, "_served", None) == self.proc.pid)

    def exit_status(self):
        return None if self.proc is None else self.proc.poll()

    def kill(self, sig=signal.SIGKILL):
        if self.proc is not None and self.proc.poll() is None:
            self._we_killed = self.proc.pid
            try:
                self.proc.send_signal(sig)
            except ProcessLookupError:
                pass
            try:
                self.proc.wait(timeout=10)
            except subprocess.TimeoutExpired:
                self.proc.kill()
                self.proc.wait()

    def stop(self):
        self.kill(signal.SIGKILL)

    def restart(self):
        self.kill()
        return self.start()

    def stderr_tail(self, n=3000):
        try:
            with open(self.errlog, "rb") as f:
                d = f.read()
            return d[-n:].decode("utf8", "replace")
        except OSError:
            return ""

    def stderr_text(self):
        try:
            with open(self.errlog, "rb") as f:
                return f.read().decode("utf8", "replace")
        except OSError:
            return ""

    def cleanup(self):
        # a child that no longer accepts connections is on its way out by itself (a panic printing its backtrace):
        # let it finish, so that the exit status and the log say what happened - a post-mortem may want to know
        if self.alive() and getattr(self, "_served", None) == self.proc.pid:
            try:
                s = socket.create_connection(("127.0.0.1", self.port), timeout=0.3)
                s.close()
            except OSError:
                try:
                    self.proc.wait(timeout=4)
                except subprocess.TimeoutExpired:
                    pass
        self.kill()
        if self.own_dir:
            shutil.rmtree(self.dir, ignore_errors=True)

    def __enter__(self):
        return self.start()

    def __exit__(self, *a):
        self.cleanup()


def wait_loops(ctl, n=3, timeout=5.0):
    """Wait until the server's event loop has completed n more iterations
    (logical progress, not wall time). ctl: a Client not otherwise in use."""
    start = ctl.cmd("VERIF", "LOOPCOUNT")
    if not isinstance(start, int):
        raise RuntimeError("VERIF LOOPCOUNT unavailable: %r" % (start,))
    end = time.monotonic() + timeout
    while True:
        cur = ctl.cmd("VERIF", "LOOPCOUNT")
        if cur - start >= n:
            return cur
        if time.monotonic() > end:
            raise resp.Timeout()


def panic_signature(stderr):
    """Normalised signature of a panic / abort found in a child's stderr."""
    import re
    msg = ""
    m = re.search(r"panicked at ([^\n]*)\n([^\n]*)", stderr)
    if m:
        loc = re.sub(r":\d+:\d+:?$", "", m.group(1).strip())
        loc = loc.replace("/repo/", "")
        text = re.sub(r"\d+", "N", m.group(2).strip())[:70]
        msg = "%s:%s" % (loc.split("src/")[-1], text)
    fr = re.findall(r"\d+: (ferrous::[A-Za-z0-9_:<>]+)", stderr)
    frame = fr[0] if fr else ""
    frame = re.sub(r"::h[0-9a-f]{16}$", "", frame)
    if "stack overflow" in stderr:
        return "stack-overflow"
    if "memory allocation of" in stderr:
        return "alloc-failure"
    return (msg + "@" + frame.replace("ferrous::", "")).replace(" ", "_")[:160] or "no-panic-message"

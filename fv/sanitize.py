"""E5: sanitizer builds of the server and scanning of their reports.

A sanitizer pass re-runs a (reduced) workload of a check against a server built
from /repo's current tree with a compiler sanitizer; the deciding observation is
a report block in the child's stderr (the child's exit alone is not trusted:
reports are counted from the log). One sanitizer per build.
"""
import re

from . import server

ASAN_ENV = {
    # the server is killed with SIGKILL at the end of a run, so leak checking
    # never gets to run; switch it off explicitly to keep reports about errors
    "ASAN_OPTIONS": "detect_leaks=0:halt_on_error=1:abort_on_error=0:symbolize=1:print_summary=1:"
                    "allocator_may_return_null=1:max_allocation_size_mb=4096",
    "ASAN_SYMBOLIZER_PATH": "/usr/bin/llvm-symbolizer",
}
TSAN_ENV = {
    "TSAN_OPTIONS": "halt_on_error=0:second_deadlock_stack=1:report_signal_unsafe=0:exitcode=66",
    "TSAN_SYMBOLIZER_PATH": "/usr/bin/llvm-symbolizer",
}

_REPORT = re.compile(r"^(?:==\d+==\s*)?(?:ERROR|WARNING): (AddressSanitizer|ThreadSanitizer|LeakSanitizer|UndefinedBehaviorSanitizer): ([^\n]*)", re.M)
_FRAME = re.compile(r"#\d+ 0x[0-9a-f]+ in (\S+) (/repo/src/[^\s:]+)")
# ThreadSanitizer prints "#0 <path::to::Type<Args>>::function /repo/src/file.rs:line:col (binary+0x..)"
_TSAN_FRAME = re.compile(r"^\s*#\d+ (.+?) /repo/src/([^\s:]+):\d+", re.M)


def _short_fn(name):
    """Last path segment of a (possibly generic, possibly closure) Rust function name."""
    name = re.sub(r"::h[0-9a-f]{16}$", "", name.strip())
    name = re.sub(r"::\{closure#\d+\}", "", name)
    depth = 0
    last = 0
    for i, ch in enumerate(name):
        if ch == "<":
            depth += 1
        elif ch == ">":
            depth -= 1
        elif ch == ":" and depth == 0 and name[i - 1:i] == ":":
            last = i + 1
    return re.sub(r"[^A-Za-z0-9_]", "", name[last:])[:40] or "?"


def scan(text):
    """Returns [(tool, kind, first in-repo frame, block)] for every report block."""
    out = []
    for m in _REPORT.finditer(text):
        block = text[m.start():m.start() + 6000]
        end = block.find("\n==", 200)
        kind = re.sub(r"0x[0-9a-f]+|\d+", "N", m.group(2)).strip()
        kind = kind.split(" on ")[0].split(" (pid")[0][:60].replace(" ", "-")
        fm = _FRAME.search(block)
        frame = re.sub(r"::h[0-9a-f]{16}$", "", fm.group(1)) if fm else "?"
        # races: both stacks belong to the signature
        if m.group(1) == "ThreadSanitizer":
            frames = [re.sub(r"::h[0-9a-f]{16}$", "", f[0]) for f in _FRAME.findall(block)]
            if not frames:
                # first in-repo frame of each stack: the stacks are separated by blank lines
                for stack in re.split(r"\n\s*\n", block):
                    fm2 = _TSAN_FRAME.search(stack)
                    if fm2:
                        frames.append("%s:%s" % (fm2.group(2).split("/")[-1], _short_fn(fm2.group(1))))
            uniq = []
            for f in frames:
                if f not in uniq:
                    uniq.append(f)
            frame = "+".join(uniq[:2]) if uniq else "?"
        out.append((m.group(1), kind, frame, block[:3500]))
    return out


def record(res, prop, text, label):
    """Turn report blocks found in a child's stderr into violations."""
    reports = scan(text)
    res.count("%s_report_blocks" % label, len(reports))
    for tool, kind, frame, block in reports:
        res.violation("sanitizer/%s/%s/%s" % (tool, kind, frame),
                      "%s report from the %s build of the server:\n%s" % (tool, label, block))
    return len(reports)


def build(profile):
    """(binary, extra_env, build seconds)"""
    b, t = server.build(profile)
    return b, dict(ASAN_ENV if profile == "asan" else TSAN_ENV), t

"""Build and run the in-process Rust harness (/verif/rs, engine E4)."""
import json
import os
import shutil
import subprocess
import time

from . import server
from .util import Result

RS = os.path.join(server.VERIF, "rs")
TARGET = os.path.join(server.BUILD_ROOT, "rs")


def build():
    """cargo build of the harness against the repository's current tree."""
    t0 = time.time()
    lock_src = os.path.join(server.REPO, "Cargo.lock")
    try:
        shutil.copyfile(lock_src, os.path.join(RS, "Cargo.lock"))
    except OSError:
        pass
    env = dict(os.environ, CARGO_NET_OFFLINE="true", CARGO_TARGET_DIR=TARGET, RUST_BACKTRACE="1")
    argv = ["cargo", "build", "--offline"]
    if server.REPO != "/repo":
        # the path dependency is fixed in Cargo.toml; point it elsewhere for scratch copies
        argv += ["--config", 'patch."/repo".ferrous.path="%s"' % server.REPO]
    server._run_locked("rs", argv, env, RS, os.path.join(server.BUILD_ROOT, "build-rs.log"))
    return time.time() - t0


def run_bin(name, args, timeout):
    """Run one harness binary; returns (report dict | None, problem string | None)."""
    exe = os.path.join(TARGET, "debug", name)
    env = dict(os.environ, RUST_BACKTRACE="1")
    try:
        p = subprocess.run([exe] + [str(a) for a in args], stdout=subprocess.PIPE, stderr=subprocess.PIPE,
                           timeout=timeout, env=env)
    except subprocess.TimeoutExpired:
        return None, "harness %s timed out after %ss (inconclusive)" % (name, timeout)
    out = p.stdout.decode("utf8", "replace").strip().splitlines()
    if p.returncode != 0 or not out:
        return None, "harness %s exited %s: %s" % (name, p.returncode, p.stderr.decode("utf8", "replace")[-1500:])
    try:
        return json.loads(out[-1]), None
    except ValueError:
        return None, "harness %s: last line is not JSON: %r" % (name, out[-1][:300])


def to_result(name, report, problem, prefix=""):
    res = Result()
    if report is None:
        if "exited" in (problem or "") and "timed out" not in problem:
            # the harness process itself died: a finding (abort, stack overflow in the parent, ...)
            res.violation("%sharness-died/%s" % (prefix, name), problem)
            res.evaluations += 1
        else:
            res.inconclusive.append(problem or "no report")
        return res
    res.evaluations += int(report.get("evaluations", 0))
    for c in report.get("cells", []):
        res.cells.add(prefix + c)
    for v in report.get("violations", []):
        res.violation(prefix + v.get("sig", "?"), v.get("detail", ""), {"replay": v.get("replay"), "bin": name})
    for s in report.get("samples", [])[:3]:
        res.sample(s)
    res.inconclusive += [str(x) for x in report.get("inconclusive", [])]
    for k, v in (report.get("extra") or {}).items():
        if isinstance(v, (int, float)) and not isinstance(v, bool):
            res.extra[name + "_" + k] = v
    return res


def worker(arg, name, extra_args, timeout, prefix=""):
    seed, budget, tier = arg
    report, problem = run_bin(name, ["--seed", seed, "--budget-s", budget, "--tier", tier] + list(extra_args), timeout)
    return to_result(name, report, problem, prefix)


def miri_worker(seed, name, timeout=900):
    env = dict(os.environ, CARGO_NET_OFFLINE="true", CARGO_TARGET_DIR=os.path.join(server.BUILD_ROOT, "rs-miri"),
               MIRIFLAGS="-Zmiri-disable-isolation -Zmiri-ignore-leaks", RUST_BACKTRACE="1")
    res = Result()
    try:
        p = subprocess.run(["cargo", "+nightly", "miri", "run", "--offline", "--bin", name, "--", "--miri", "--seed", str(seed)],
                           cwd=RS, env=env, stdout=subprocess.PIPE, stderr=subprocess.PIPE, timeout=timeout)
    except subprocess.TimeoutExpired:
        res.inconclusive.append("miri %s seed %s timed out" % (name, seed))
        return res
    err = p.stderr.decode("utf8", "replace")
    out = p.stdout.decode("utf8", "replace").strip().splitlines()
    res.count("miri_runs")
    if "Undefined Behavior" in err or "error: unsupported operation" in err or "data race" in err.lower():
        kind = "undefined-behaviour" if "Undefined Behavior" in err else "miri-error"
        import re
        m = re.search(r"error: Undefined Behavior: ([^\n]*)", err)
        what = re.sub(r"0x[0-9a-f]+|alloc\d+|\d+", "N", m.group(1))[:80] if m else "see detail"
        res.violation("miri/%s/%s/%s" % (name, kind, what.replace(" ", "_")), err[-3000:], {"bin": name, "seed": seed, "miri": True})
        res.evaluations += 1
        return res
    if p.returncode != 0 or not out:
        res.inconclusive.append("miri %s seed %s exited %s: %s" % (name, seed, p.returncode, err[-800:]))
        return res
    try:
        rep = json.loads(out[-1])
    except ValueError:
        res.inconclusive.append("miri %s: no JSON" % name)
        return res
    r2 = to_result(name, rep, None, prefix="miri-")
    r2.count("miri_runs")
    r2.cell("miri", name, "clean")
    return r2

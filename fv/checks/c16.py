"""C16 — consumer groups deliver each entry once and account pending entries exactly."""
from . import modeldiff

RULE = ("seeded histories of 30-120 commands over 1-2 streams, 1-3 groups, 1-4 consumers: XGROUP CREATE ($, 0, explicit, "
        "MKSTREAM, duplicate) / DESTROY / SETID / CREATECONSUMER / DELCONSUMER, XADD / XDEL in between, XREADGROUP > with and "
        "without COUNT / NOACK, history reads with explicit IDs (own pending entries only, nothing moves), XACK (repeated, unknown, several IDs), XCLAIM (min-idle 0 or 10^9, pending / not-pending IDs, FORCE, "
        "JUSTID), XPENDING summary and extended (range, count, consumer filter), XINFO GROUPS / CONSUMERS; every reply compared "
        "with a model (cursor, pending map id->consumer, consumer set); pending-list walker (VERIF CHECK: by-id <-> by-consumer "
        "indexes, counters, bounds) every 10 commands; cell = (command, pre-state, reply class)")


def idle_clock(tier, seed):
    """What the differential histories cannot see because they run in microseconds: the idle time of a
    pending entry runs from its LAST delivery (XREADGROUP or XCLAIM), XPENDING reports it, and XCLAIM's
    min-idle-time is judged against it. Timed with generous margins (steps of 150 ms, decisions need 100 ms)."""
    import time
    from .. import server, resp
    from ..resp import Closed, Timeout
    from ..util import Result
    res = Result()
    binary, _ = server.build("dev")
    srv = server.Server(binary).start()
    try:
        c = srv.client(timeout=10)
        for rnd in range(2 if tier == "quick" else 10):
            s = b"ic:%d" % rnd
            c.cmd("XADD", s, "1-1", "f", "v")
            c.cmd("XADD", s, "1-2", "f", "v")
            c.cmd("XGROUP", "CREATE", s, "g", "0")
            t_deliver = time.monotonic()
            c.cmd("XREADGROUP", "GROUP", "g", "alice", "STREAMS", s, ">")
            t_delivered = time.monotonic()      # the delivery happened between these two
            time.sleep(0.3)

            def idle_of(i):
                t0 = time.monotonic()
                rows = c.cmd("XPENDING", s, "g", "-", "+", "10")
                t1 = time.monotonic()
                for r in rows if isinstance(rows, list) else []:
                    if r[0] == i:
                        return r[2], r[1], t0, t1
                return None, None, t0, t1
            idle, owner, t0, t1 = idle_of(b"1-1")
            res.evaluations += 1
            res.cell("idle", "after-delivery")
            lo, hi = (t0 - t_delivered) * 1000, (t1 - t_deliver) * 1000
            if idle is None or not (lo - 15 <= idle <= hi + 15):
                res.violation("idle/after-delivery", "entry delivered %.0f..%.0f ms ago: XPENDING reports idle %r (owner %r)" % (lo, hi, idle, owner))
            # too young for min-idle 1000: nothing is claimed, nothing changes
            r = c.cmd("XCLAIM", s, "g", "bob", "1000", "1-1")
            res.evaluations += 1
            res.cell("idle", "claim-refused-too-young")
            if time.monotonic() - t_deliver > 0.9:
                res.count("idle_rounds_not_judged_machine_stalled")      # the entry may really be a second old by now
                continue
            if r not in ([], None) and r is not resp.NULL_ARRAY:
                res.violation("idle/claim-too-young", "entry idle ~300 ms, XCLAIM ... bob 1000 1-1 -> %s, expected nothing" % resp.show(r))
            # old enough for min-idle 200: bob gets it, and the idle clock starts again
            t_claim0 = time.monotonic()
            r = c.cmd("XCLAIM", s, "g", "bob", "200", "1-1", "JUSTID")
            t_claim1 = time.monotonic()
            res.evaluations += 1
            res.cell("idle", "claim-accepted")
            if r != [b"1-1"]:
                res.violation("idle/claim-old-enough", "entry idle >= 300 ms, XCLAIM ... bob 200 1-1 JUSTID -> %s, expected [1-1]" % resp.show(r))
                continue
            idle, owner, t0, t1 = idle_of(b"1-1")
            res.evaluations += 1
            res.cell("idle", "after-claim")
            if owner != b"bob" or idle is None or idle > (t1 - t_claim0) * 1000 + 25:
                res.violation("idle/not-reset-by-claim", "XCLAIM by bob %.0f ms ago: XPENDING reports owner %r, idle %r (the idle time runs from the claim)" % (
                    (t1 - t_claim0) * 1000, owner, idle))
            # a second recovery worker right behind the first: the entry is fresh again and must stay with bob
            r = c.cmd("XCLAIM", s, "g", "carol", "200", "1-1", "JUSTID")
            stalled = time.monotonic() - t_claim0 > 0.15            # then the entry may really be idle for 200 ms again
            res.evaluations += 1
            res.cell("idle", "second-claim-refused")
            idle, owner, t0, t1 = idle_of(b"1-1")
            if stalled:
                res.count("idle_rounds_not_judged_machine_stalled")
            elif (r not in ([], None) and r is not resp.NULL_ARRAY) or owner != b"bob":
                res.violation("idle/stolen-after-claim", "bob claimed 1-1 (min-idle 200) a moment ago; carol's XCLAIM ... 200 1-1 -> %s, owner now %r: a freshly claimed entry "
                              "is not idle" % (resp.show(r), owner))
            # the untouched neighbour keeps its clock
            idle2, owner2, t0, t1 = idle_of(b"1-2")
            res.evaluations += 1
            if owner2 != b"alice" or idle2 is None or idle2 < (t0 - t_delivered) * 1000 - 25:
                res.violation("idle/neighbour-changed", "1-2 was not touched: owner %r idle %r, expected alice and >= %.0f ms" % (owner2, idle2, (t0 - t_delivered) * 1000))
    except (Closed, Timeout) as e:
        res.inconclusive.append("idle-clock scenario: %r" % (e,))
    finally:
        srv.cleanup()
    return res


def run(tier):
    return modeldiff.run("C16", tier, "gen:gen_group_cmd", RULE + "; plus a timed scenario for the idle clock (XPENDING idle after delivery and after XCLAIM, "
                         "min-idle-time refusing young and freshly claimed entries)", check_every=10, hist_len=(30, 120), extra_fn=idle_clock, script_prob=0.05,
                         assumptions=["reference model of consumer-group semantics (Redis command reference)",
                                      "delivery counters are not compared; claiming / re-reading deleted entries and "
                                      "XREADGROUP on a missing key are don't-cares and not generated"])

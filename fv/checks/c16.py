"""C16 — consumer groups deliver each entry once and account pending entries exactly."""
from . import modeldiff

RULE = ("seeded histories of 30-120 commands over 1-2 streams, 1-3 groups, 1-4 consumers: XGROUP CREATE ($, 0, explicit, "
        "MKSTREAM, duplicate) / DESTROY / SETID / CREATECONSUMER / DELCONSUMER, XADD / XDEL in between, XREADGROUP > with and "
        "without COUNT / NOACK, XACK (repeated, unknown, several IDs), XCLAIM (min-idle 0 or 10^9, pending / not-pending IDs, FORCE, "
        "JUSTID), XPENDING summary and extended (range, count, consumer filter), XINFO GROUPS / CONSUMERS; every reply compared "
        "with a model (cursor, pending map id->consumer, consumer set); pending-list walker (VERIF CHECK: by-id <-> by-consumer "
        "indexes, counters, bounds) every 10 commands; cell = (command, pre-state, reply class)")


def run(tier):
    return modeldiff.run("C16", tier, "gen:gen_group_cmd", RULE, check_every=10, hist_len=(30, 120),
                         assumptions=["reference model of consumer-group semantics (Redis command reference)",
                                      "idle times and delivery counters are not compared; claiming / re-reading deleted entries, "
                                      "XREADGROUP on a missing key and explicit-ID re-reads are don't-cares and not generated"])

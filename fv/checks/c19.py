"""C19 — a full SCAN iteration returns every element present throughout it.

A stable subset is never touched; between consecutive SCAN calls an adversary
adds and deletes other elements (preferring names that sort right before /
after the last returned element, and bursts larger than COUNT). Oracle: union
of pages >= stable elements passing the filters; everything returned existed at
some time during the iteration and passes the filters; bounded termination
once the adversary stops."""
import time

from .. import server, util, resp
from ..model import glob_match
from ..resp import Err, Closed, Timeout
from ..util import Result

MOVES = ["none", "add-after", "add-before", "add-burst", "delete-after", "delete-before", "delete-random", "delete-at-cursor", "other-iteration", "mixed"]
COUNTS = [None, 1, 2, 3, 7, 10, 100, 1000, 1001, 9223372036854775807]
PATTERNS = [None, None, b"*", b"k*", b"*1*", b"k?[0-9]*", b"s:*", b"v:[a-m]*", b"nomatch*", b"\\k*", b"k\xff*"]


def names(rng, n, prefix):
    out = set()
    while len(out) < n:
        r = rng.random()
        if r < 0.6:
            out.add(prefix + b"k%d" % rng.randrange(10 * n + 10))
        elif r < 0.8:
            out.add(prefix + b"k\xff" + bytes([rng.randrange(256)]) + b"%d" % rng.randrange(1000))
        else:
            out.add(prefix + bytes(rng.randrange(97, 123) for _ in range(rng.randrange(1, 6))))
    return out


def neighbours(rng, last, before, k, prefix):
    """k fresh names sorting just before / after `last` (byte order)."""
    out = set()
    base = last if last else prefix + b"m"
    for i in range(k * 3):
        if before:
            if len(base) > len(prefix) and base[-1] > 0:
                cand = base[:-1] + bytes([base[-1] - 1]) + b"~%d" % rng.randrange(1000)
            else:
                cand = base[:-1] if len(base) > len(prefix) + 1 else None
        else:
            cand = base + b"!%d" % rng.randrange(1000)
        if cand and cand.startswith(prefix):
            out.add(cand)
        if len(out) >= k:
            break
    return out


class Scan:
    """One full iteration of SCAN / HSCAN / SSCAN / ZSCAN under an adversary."""

    def __init__(self, c, adv, rng, kind, res):
        self.c, self.adv, self.rng, self.kind, self.res = c, adv, rng, kind, res

    def setup(self, n, nvol):
        rng = self.rng
        kind = self.kind
        self.prefix = b"s:" if rng.random() < 0.5 else b""
        allnames = list(names(rng, n + nvol, self.prefix))
        rng.shuffle(allnames)
        self.stable = set(allnames[:n])
        self.vol = set(allnames[n:])
        self.ever = set(allnames)
        self.values = {}        # name -> set of values it ever had (hash value / zset score)
        self.types = {}
        self.container = b"container"
        self.c.cmd("FLUSHALL")
        pipe = []
        for nm in allnames:
            pipe.append(self.add_cmd(nm))
        for i in range(0, len(pipe), 500):
            rs = self.c.pipeline(pipe[i:i + 500])
            if any(isinstance(r, Err) for r in rs):
                raise RuntimeError("setup failed: %r" % [r for r in rs if isinstance(r, Err)][:2])

    def add_cmd(self, nm):
        k = self.kind
        if k == "SCAN":
            t = self.rng.choice(["string", "string", "list", "set", "hash", "zset"])
            self.types.setdefault(nm, t)
            t = self.types[nm]
            return {"string": [b"SET", nm, b"v"], "list": [b"RPUSH", nm, b"v"], "set": [b"SADD", nm, b"v"],
                    "hash": [b"HSET", nm, b"f", b"v"], "zset": [b"ZADD", nm, b"1", b"v"]}[t]
        if k == "HSCAN":
            v = b"v%d" % self.rng.randrange(1000)
            self.values.setdefault(nm, set()).add(v)
            return [b"HSET", self.container, nm, v]
        if k == "SSCAN":
            return [b"SADD", self.container, nm]
        sc = self.rng.randrange(-50, 50)
        self.values.setdefault(nm, set()).add(float(sc))
        return [b"ZADD", self.container, b"%d" % sc, nm]

    def del_cmd(self, nm):
        k = self.kind
        if k == "SCAN":
            return [b"DEL", nm]
        return [{"HSCAN": b"HDEL", "SSCAN": b"SREM", "ZSCAN": b"ZREM"}[k], self.container, nm]

    def adversary(self, move, last, count):
        rng = self.rng
        burst = (count or 10)
        cmds = []
        if move == "mixed":
            move = rng.choice(MOVES[1:-1])
        if move == "other-iteration":
            # no writes at all: another client walks the same key space / container with its own cursor and its own
            # options (a different TYPE, MATCH, COUNT) in between - iterations must not share any state
            cur = getattr(self, "adv_cur", b"0")
            if cur == b"0":
                self.adv_opts = []
                if self.kind == "SCAN" and rng.random() < 0.8:
                    self.adv_opts += [b"TYPE", rng.choice([b"string", b"list", b"set", b"hash", b"zset"])]
                if rng.random() < 0.4:
                    self.adv_opts += [b"MATCH", rng.choice([b"*", b"k*", b"s:*", b"nomatch*"])]
                self.adv_opts += [b"COUNT", rng.choice([b"1", b"3", b"10", b"50"])]
            head = [b"SCAN"] if self.kind == "SCAN" else [self.kind.encode(), self.container]
            r = self.adv.cmd(*(head + [cur] + self.adv_opts))
            self.adv_cur = r[0] if isinstance(r, list) and len(r) == 2 else b"0"
            return 1
        if move in ("add-after", "add-before", "add-burst"):
            k = rng.randrange(1, 4) if move != "add-burst" else min(burst + rng.randrange(1, 5), 1500)
            new = neighbours(rng, last, move == "add-before", k, self.prefix) if move != "add-burst" else \
                names(rng, k, self.prefix)
            new -= self.stable
            for nm in new:
                self.vol.add(nm)
                self.ever.add(nm)
                cmds.append(self.add_cmd(nm))
        elif move == "delete-at-cursor" and getattr(self, "pos", None) and getattr(self, "last_returned", None) in self.pos:
            # aimed at whatever the cursor encodes: the element that would be visited next and / or the one returned
            # last (positions learned from a quiet iteration beforehand); only volatile elements are ever deleted, so
            # the oracle is unchanged - a cursor that is resolved by looking one of those two elements up, instead of
            # by position, skips or repeats a neighbour that was there all along
            i = self.pos[self.last_returned]
            which = rng.choice(["next", "next", "last", "both", "next-run"])
            victims = []
            if which in ("next", "both", "next-run"):
                j = i + 1
                while j < len(self.order) and self.order[j] in self.vol and (which == "next-run" or not victims):
                    victims.append(self.order[j])
                    j += 1
            if which in ("last", "both") and self.last_returned in self.vol:
                victims.append(self.last_returned)
            for nm in victims:
                self.vol.discard(nm)
                cmds.append(self.del_cmd(nm))
            self.res.count("cursor_aimed_moves")
            self.res.count("cursor_aimed_deletions_" + which.replace("-", "_"), len(victims))
        elif move in ("delete-after", "delete-before", "delete-random", "delete-at-cursor"):
            if move == "delete-at-cursor":
                move = "delete-random"          # order not learned (or the last element is new): any volatile element
            if move != "delete-random" and not last:
                cands = []
            elif move == "delete-random":
                cands = list(self.vol)
            elif move == "delete-before":
                cands = [v for v in self.vol if v < last]
            else:
                cands = [v for v in self.vol if v > last]
            rng.shuffle(cands)
            for nm in cands[:rng.choice([1, 2, 5, burst + 1])]:
                self.vol.discard(nm)
                cmds.append(self.del_cmd(nm))
        if cmds:
            for i in range(0, len(cmds), 500):
                self.adv.pipeline(cmds[i:i + 500])
        return len(cmds)

    def run(self, move, count, pattern, typ):
        kind = self.kind
        cursor = b"0"
        seen = []
        calls = 0
        total = len(self.stable) + len(self.vol)
        adversary_calls = self.rng.choice([3, 10, 40]) if move != "none" else 0
        bound = adversary_calls + (total + 2000) + 2
        last = None
        opts = []
        if count is not None:
            opts += [b"COUNT", b"%d" % count]
        if pattern is not None:
            opts += [b"MATCH", pattern]
        if typ is not None:
            opts += [b"TYPE", typ]
        trace = []
        self.order, self.pos, self.last_returned = [], {}, None
        if move in ("delete-at-cursor", "mixed") and total:
            # quiet learning pass: the order in which a plain iteration visits the elements that exist now
            lc, lcur, lcalls = (b"1" if total <= 400 else b"100"), b"0", 0
            while lcalls <= total + 50:
                r = self.c.cmd(*([kind.encode()] + ([] if kind == "SCAN" else [self.container]) + [lcur, b"COUNT", lc]))
                lcalls += 1
                if not (isinstance(r, list) and len(r) == 2 and isinstance(r[0], bytes) and isinstance(r[1], list)):
                    break
                self.order.extend(r[1][::2] if kind in ("HSCAN", "ZSCAN") else r[1])
                lcur = r[0]
                if lcur == b"0":
                    break
            self.pos = {nm: i for i, nm in enumerate(self.order)}
            if len(self.pos) != len(self.order):
                self.order, self.pos = [], {}        # repeats in a quiet pass: no usable order
        # one iteration in seven is driven from inside scripts (redis.call of the same command with the same options)
        via_script = self.rng.random() < 0.15 and (count is None or count <= 10 ** 6)
        self.via_script = via_script
        while True:
            argv = [kind.encode()] + ([] if kind == "SCAN" else [self.container]) + [cursor] + opts
            if via_script:
                r = self.c.cmd(b"EVAL", b"return redis.call(unpack(ARGV))", b"0", *argv)
            else:
                r = self.c.cmd(*argv)
            calls += 1
            self.res.evaluations += 1
            if isinstance(r, Err):
                if count is not None and count > 10 ** 6:
                    return "refused-count", None       # absurd COUNT refused: not judged
                return "error", "%s -> %r" % (resp.show(argv), r)
            if not (isinstance(r, list) and len(r) == 2 and isinstance(r[0], bytes) and isinstance(r[1], list)):
                return "shape", "%s -> %s" % (resp.show(argv), resp.show(r))
            cursor, page = r
            if len(trace) < 30:
                trace.append("%s -> cursor %s, %d items" % (resp.show(argv, 20), cursor.decode("latin1"), len(page)))
            if kind in ("HSCAN", "ZSCAN"):
                if len(page) % 2:
                    return "shape", "odd number of items in %s page" % kind
                for i in range(0, len(page), 2):
                    nm, v = page[i], page[i + 1]
                    seen.append(nm)
                    had = self.values.get(nm, set())
                    okv = (v in had) if kind == "HSCAN" else (_f(v) in had)
                    if nm in self.ever and not okv:
                        return "phantom-value", "%s returned %s=%s, values it had: %s" % (kind, resp.show(nm), resp.show(v), had)
            else:
                seen.extend(page)
            if page:
                last = max(page) if kind not in ("HSCAN", "ZSCAN") else max(page[::2])
                self.last_returned = page[-1] if kind not in ("HSCAN", "ZSCAN") else page[-2]
            if cursor == b"0":
                break
            if calls <= adversary_calls:
                self.adversary(move, last, count)
            if calls > bound:
                return "nonterminating", "no cursor 0 after %d calls (%d elements, adversary stopped after %d calls)\n%s" % (
                    calls, total, adversary_calls, "\n".join(trace[-10:]))
        self.trace = trace
        seen_set = set(seen)

        def passes(nm):
            if pattern is not None and not glob_match(pattern, nm):
                return False
            if typ is not None and kind == "SCAN" and self.types.get(nm) != typ.decode():
                return False
            return True
        for nm in seen_set:
            if nm not in self.ever:
                return "phantom", "%s returned %s which never existed" % (kind, resp.show(nm))
            if not passes(nm):
                return "unfiltered", "%s %s returned %s which fails the filter" % (kind, resp.show(opts), resp.show(nm))
        missing = [nm for nm in self.stable if passes(nm) and nm not in seen_set]
        if missing:
            return "skipped", "%s %s over %d stable + volatile elements, adversary '%s': %d stable elements never returned, e.g. %s\n%s" % (
                kind, resp.show(opts), len(self.stable), move, len(missing), resp.show(sorted(missing)[:3]), "\n".join(trace[:12]))
        return "ok", calls


def _f(b):
    try:
        return float(b)
    except (ValueError, TypeError):
        return None


def worker(wseed, binary, budget_s):
    rng = util.rng_for(wseed, "C19")
    res = Result()
    srv = server.Server(binary).start()
    try:
        c = srv.client(timeout=30)
        adv = srv.client(timeout=30)
        t_end = time.time() + budget_s
        it = 0
        while time.time() < t_end:
            it += 1
            kind = rng.choice(["SCAN", "SCAN", "HSCAN", "SSCAN", "ZSCAN"])
            n = rng.choice([0, 1, 5, 30, 30, 200, 200, 1500, 3000])
            move = rng.choice(MOVES)
            count = rng.choice(COUNTS)
            pattern = rng.choice(PATTERNS)
            typ = rng.choice([None, None, None, b"string", b"hash", b"zset"]) if kind == "SCAN" else None
            sc = Scan(c, adv, rng, kind, res)
            try:
                sc.setup(n, 0 if move == "none" else max(3, n // 2))
                out, info = sc.run(move, count, pattern, typ)
            except (Closed, Timeout) as e:
                if not srv.settle():
                    res.violation("server-died/%s" % kind, "server exited %s during %s COUNT %s\n%s" % (srv.exit_status(), kind, count, srv.stderr_tail(1500)))
                    srv.restart()
                else:
                    # the event loop is one thread: a scan that really hangs keeps every other client waiting too.
                    # If a new connection is answered, the 30 s went by in the harness or the machine (a stalled VM,
                    # seen once while a sandbox snapshot was being taken) - inconclusive, not a verdict
                    try:
                        probe = srv.client(timeout=30)
                        alive = probe.cmd("PING") == resp.Status("PONG")
                        probe.close()
                    except Exception:
                        alive = False
                    if alive:
                        res.inconclusive.append("%s COUNT %s: %r, but the server answers a new connection at once" % (kind, count, e))
                    else:
                        res.violation("hang/%s" % kind, "%s COUNT %s: %r" % (kind, count, e))
                c = srv.client(timeout=30)
                adv = srv.client(timeout=30)
                continue
            sizeclass = "n0" if n == 0 else "n<=30" if n <= 30 else "n<=200" if n <= 200 else "big"
            cclass = "default" if count is None else "c1" if count == 1 else "c<n" if count < max(n, 1) else "c>=n"
            res.cell(kind, move, sizeclass, cclass, "match" if pattern else "nomatch", "type" if typ else "notype", out)
            if getattr(sc, "via_script", False):
                res.cell(kind, "via-script", "match" if pattern else "nomatch", "type" if typ else "notype", out)
            if out not in ("ok", "refused-count"):
                res.violation("%s/%s/%s" % (out, kind, move), info, {"kind": kind, "n": n, "move": move, "count": count,
                                                                    "pattern": resp.jsonable(pattern), "seed": wseed, "iteration": it})
            elif it <= 2:
                res.sample(sc.trace[:6] if hasattr(sc, "trace") else [])
            # bad cursors are answered (error or a page), never crash
            if it % 20 == 0:
                for bad in (b"abc", b"-1", b"18446744073709551616", b"99999999", b""):
                    r = c.cmd(kind, *( [] if kind == "SCAN" else [b"container"]), bad)
                    res.evaluations += 1
                    res.cell(kind, "bad-cursor")
        res.count("iterations", it)
    finally:
        srv.cleanup()
    return res


def run(tier):
    t0 = time.time()
    seed = util.seed_from_env()
    binary, bt = server.build("dev")
    n = util.jobs()
    res = util.run_workers(worker, [seed * 1000 + i for i in range(n)],
                           dict(binary=binary, budget_s=20 if tier == "quick" else 240))
    return util.finish("C19", tier, seed, "exploration", res,
                       "full cursor iterations of SCAN/HSCAN/SSCAN/ZSCAN over 0-3000 names (shared prefixes, binary bytes), "
                       "COUNT in {default,1,2,3,7,10,100,1000,1001,2^63-1}, MATCH globs, TYPE filters; a stable subset is "
                       "never touched while an adversary (none / add before, after, burst / delete before, after, random / "
                       "delete at the cursor: the element visited next or returned last in a learned visiting order / "
                       "another iteration / mixed) modifies other elements between calls; oracle: stable elements passing the filters all "
                       "returned, nothing phantom or unfiltered, HSCAN/ZSCAN values are ones the element had, cursor 0 "
                       "within a bound once the adversary stops; cell = (command, adversary move, size, count class, "
                       "filters, outcome)", t0,
                       assumptions=["own glob matcher decides MATCH", "an error for COUNT > 10^6 is not judged"],
                       min_cells=30)

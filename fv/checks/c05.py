"""C05 — every request gets exactly one reply, in order, and errors are replies.

Pipelines of valid and invalid commands with unique ECHO sentinels, under many
segmentations of the byte stream; an independent RESP reader decodes what comes
back and aligns replies to requests by index. Model-known commands are also
compared with the reference model (the pipelining path is not reached by the
lock-step checks). Malformed frames must be answered by an error within a
progress bound measured in event-loop iterations."""
import time

from .. import server, util, resp, gen, catalogue
from ..model import Model, matches, Err, rclass
from ..resp import Closed, Timeout, NOTHING
from ..util import Result
from .c18 import gen_any

EXCLUDED = {"SUBSCRIBE", "UNSUBSCRIBE", "PSUBSCRIBE", "PUNSUBSCRIBE", "MONITOR", "QUIT", "SHUTDOWN", "SYNC", "PSYNC",
            "SLEEP", "VERIF", "REPLICAOF", "SLAVEOF", "MULTI", "EXEC", "DISCARD", "WATCH", "CLIENT",
            "AUTH", "SELECT", "SAVE", "BGSAVE", "BGREWRITEAOF", "REPLCONF", "XREAD", "XREADGROUP"}
HOSTILE = [b"\r\n", b"a\r\nb", b"\r\n+OK\r\n", b"\r\n$5\r\n", b"\x00", b"-ERR x\r\n", b"*1\r\n$4\r\nPING\r\n", b":1\r\n",
           b"x" * 65536, b"\n", b"\r"]


def other_command(rng):
    r = rng.random()
    if r < 0.25:
        name = rng.choice([b"FOO", b"", b"GETT", b"SE T", b"PING\r\nPING", b"\r\n", b"foo\r\nbar", b"\xff\xfe", b"A" * 300,
                           b"GET\x00", b"ge t"])
        return [name] + [rng.choice(gen.KEYS) for _ in range(rng.randrange(0, 3))]
    if r < 0.45:
        # hostile content inside arguments
        return rng.choice([[b"ECHO", rng.choice(HOSTILE)], [b"SET", b"hk", rng.choice(HOSTILE)], [b"GET", rng.choice(HOSTILE)],
                           [b"APPEND", rng.choice(HOSTILE), b"x"], [b"LPUSH", b"hl", rng.choice(HOSTILE)],
                           [b"HSET", b"hh", rng.choice(HOSTILE), rng.choice(HOSTILE)], [b"PING", rng.choice(HOSTILE)],
                           [b"TYPE", rng.choice(HOSTILE)], [b"KEYS", rng.choice(HOSTILE)], [rng.choice(HOSTILE)],
                           # client bytes travelling back inside errors / statuses nested in an array reply
                           [b"EVAL", b"return {{err = ARGV[1]}, {ok = ARGV[1]}, ARGV[1], {{err = ARGV[1]}}}", b"0", rng.choice(HOSTILE[:8])],
                           [b"EVAL", b"return {err = ARGV[1]}", b"0", rng.choice(HOSTILE[:8])],
                           [b"EVAL", b"return {ok = ARGV[1]}", b"0", rng.choice(HOSTILE[:8])],
                           [b"EVAL", b"return {pcall(redis.call, ARGV[1]), redis.pcall(ARGV[1], 'x')}", b"0", rng.choice(HOSTILE[:8])]])
    names = [n for n in catalogue.CATALOGUE if n not in EXCLUDED]
    name = rng.choice(names)
    a = [resp.tob(x) for x in rng.choice(catalogue.CATALOGUE[name])]
    if rng.random() < 0.2:
        a = a[:rng.randrange(1, len(a) + 1)] if rng.random() < 0.5 else a + [b"extra", b"args"]
    if name == "DEBUG":
        return [b"PING"]
    return a


NONDET = {b"SPOP", b"SRANDMEMBER", b"RANDOMKEY", b"FLUSHALL"}


def build_pipeline(rng, m, n, pure=False):
    """pure: only model-known deterministic commands + sentinels (replies are then
    also compared with the model)."""
    cmds = []
    for i in range(n):
        r = rng.random()
        if pure:
            a = gen_any(rng, m, 0) if r < 0.8 else [b"ECHO", b"tag-%d-%d" % (i, rng.randrange(10 ** 9))]
            nm = a[0].upper()
            if nm.decode("latin1") in EXCLUDED or nm in NONDET or (nm == b"XADD" and len(a) > 2 and a[2] == b"*") \
                    or (nm == b"XTRIM" and b"~" in a) or (nm == b"PING" and len(a) > 2):
                a = [b"PING"]
            cmds.append(a)
            continue
        if r < 0.55:
            a = gen_any(rng, m, 0)
            if a[0].upper().decode("latin1") in EXCLUDED or a[0].upper() in (b"FLUSHALL",):
                a = [b"PING"]
        elif r < 0.74:
            a = other_command(rng)
        elif r < 0.8:
            # a transaction block: its replies (OK, QUEUED or error per command, one EXEC reply) are
            # only counted and must be well-formed; errors of queued commands travel nested in EXEC's array
            cmds.append([b"MULTI"])
            for _ in range(rng.randrange(1, 5)):
                b = other_command(rng) if rng.random() < 0.7 else gen_any(rng, m, 0)
                nm = b[0].upper().decode("latin1") if b else ""
                if nm in EXCLUDED or nm in ("FLUSHALL", "DEBUG"):
                    b = [b"PING"]
                if nm == "ECHO":
                    b = [b"PING"] + b[1:2]
                cmds.append(b)
            a = [b"EXEC"] if rng.random() < 0.9 else [b"DISCARD"]
        else:
            a = [b"ECHO", b"tag-%d-%d" % (i, rng.randrange(10 ** 9))]
        cmds.append(a)
    # Blocking pops inside a pipeline: with a short finite timeout they answer nil (or pop at once) and the
    # commands behind them must wait for that answer. At most three per pipeline (each may take its timeout).
    nblock = 0
    for i, a in enumerate(cmds):
        if a and a[0].upper() in (b"BLPOP", b"BRPOP"):
            nblock += 1
            if nblock > 3 or len(a) < 3:
                cmds[i] = [b"PING"]
            else:
                cmds[i] = a[:-1] + [rng.choice([b"0.02", b"0.05", b"0.1"])]
    if not pure and nblock == 0 and rng.random() < 0.25 and len(cmds) >= 2:
        outside, inside = [], False
        for i, a in enumerate(cmds):
            if not inside:
                outside.append(i)
            if a and a[0].upper() == b"MULTI":
                inside = True
            elif a and a[0].upper() in (b"EXEC", b"DISCARD"):
                inside = False
        pos = rng.choice(outside)
        cmds[pos:pos] = [[rng.choice([b"BLPOP", b"BRPOP"]), rng.choice(gen.KEYS), b"0.03"], [b"ECHO", b"behind-blocking-%d" % rng.randrange(10 ** 9)]]
    cmds.append([b"ECHO", b"last-%d" % rng.randrange(10 ** 9)])
    return cmds


def send_segmented(c, data, mode, rng):
    if mode == "whole":
        c.send_raw(data)
    elif mode == "bytewise":
        for i in range(len(data)):
            c.send_raw(data[i:i + 1])
    elif mode == "crlf-cuts":
        # cut inside every CRLF
        prev = 0
        i = data.find(b"\r\n")
        while i >= 0:
            c.send_raw(data[prev:i + 1])
            prev = i + 1
            i = data.find(b"\r\n", i + 2)
        c.send_raw(data[prev:])
    elif mode == "random-cuts":
        k = rng.randrange(1, 12)
        cuts = sorted(rng.sample(range(1, len(data)), min(k, len(data) - 1))) if len(data) > 2 else []
        prev = 0
        for ct in cuts + [len(data)]:
            c.send_raw(data[prev:ct])
            prev = ct
            if rng.random() < 0.5:
                time.sleep(rng.random() * 0.002)
    elif mode == "half-close":
        # write everything, then close the sending direction at once (nc -N, batch clients that
        # write all and read to EOF): the FIN is queued right behind the request bytes
        c.send_raw(data)
        import socket as _socket
        try:
            c.sock.shutdown(_socket.SHUT_WR)
        except OSError:
            pass
    elif isinstance(mode, int):
        c.send_raw(data[:mode])
        time.sleep(0.0003)
        c.send_raw(data[mode:])
    else:
        raise ValueError(mode)


def run_pipeline(srv, rng, res, cmds, mode, m, modelcheck=True):
    """Send cmds on a fresh connection in the given segmentation; check."""
    c = srv.client(timeout=15)
    data = b"".join(resp.encode(a) for a in cmds)
    replies = []
    problem = None
    try:
        send_segmented(c, data, mode, rng)
        for i in range(len(cmds)):
            replies.append(c.recv())
    except Closed:
        problem = "closed"
    except Timeout:
        problem = "silent"
    except resp.ProtocolError as e:
        problem = "framing"
        detail_extra = str(e)
    res.evaluations += len(cmds)
    modename = mode if isinstance(mode, str) else "cut-at-offset"
    res.cell("pipeline", modename, "n<=10" if len(cmds) <= 10 else "n<=100" if len(cmds) <= 100 else "big")

    def where(i):
        lo = max(0, i - 2)
        return "requests %d..%d: %s\nreplies: %s" % (lo, i, resp.show(cmds[lo:i + 1], 60), resp.show(replies[lo:i + 1], 60))
    if problem:
        i = len(replies)
        culprit = cmds[i][0].upper().decode("latin1")[:12] if i < len(cmds) and cmds[i] else "?"
        if not srv.alive():
            res.violation("server-died/%s" % culprit, "server exited %s; %s\n%s" % (srv.exit_status(), where(min(i, len(cmds) - 1)), srv.stderr_tail(1200)))
            srv.restart()
        else:
            # which request class is unanswered?
            cls = classify(cmds[i]) if i < len(cmds) else "?"
            if problem == "framing" and i > 0:
                cls = "after-" + classify(cmds[i - 1])   # the garbled bytes follow the previous reply
            res.violation("%s/%s/%s" % (problem, modename, cls),
                          "after %d of %d replies the connection was %s (%s); %s%s" % (
                              i, len(cmds), problem, modename, where(min(i, len(cmds) - 1)),
                              ("\nundecodable: %r" % bytes(c.buf[:120])) if problem == "framing" else ""),
                          {"cmds": [[resp.jsonable(x) for x in a] for a in cmds[:i + 1]], "mode": str(mode)})
        c.close()
        return False
    # nothing may follow the last reply
    try:
        extra = c.try_recv(0.0)
    except Closed:
        extra = NOTHING          # the server closed after the last reply (half-closed client): nothing followed
    if extra is not NOTHING or c.buf:
        res.violation("count/extra-reply/%s" % modename, "more replies than requests: extra %s / %r" % (resp.show(extra), bytes(c.buf[:80])))
        c.close()
        return False
    c.close()
    for i, (a, r) in enumerate(zip(cmds, replies)):
        if a and a[0] == b"ECHO" and len(a) == 2:
            if r != a[1]:
                res.violation("order/sentinel/%s" % modename, "sentinel ECHO at index %d answered by %s; %s" % (i, resp.show(r), where(i)),
                              {"cmds": [[resp.jsonable(x) for x in a2] for a2 in cmds[:i + 1]], "mode": str(mode)})
                return False
        elif modelcheck and a and m.knows(a[0].upper().decode("latin1")):
            # the model is applied in reply order, after the fact, so that outcomes it
            # has to adopt (lenient integers) are in place for the following requests
            try:
                exp_i = m.apply(0, a)
            except Exception:
                continue
            if not matches(exp_i, r):
                key = a[1] if len(a) > 1 else None
                hist = ["%d: %s -> %s" % (j, resp.show(cmds[j], 30), resp.show(replies[j], 30)) for j in range(i)
                        if key is not None and key in cmds[j][1:]]
                res.violation("reply/pipelined/%s" % a[0].upper().decode("latin1"),
                              "pipelined (%s) %s -> %s, expected %s; earlier requests on that key:\n%s" % (
                                  modename, resp.show(a, 30), resp.show(r, 30), repr(exp_i)[:80], "\n".join(hist[-12:])),
                              {"cmds": [[resp.jsonable(x) for x in a2] for a2 in cmds[:i + 1]], "mode": str(mode)})
                return False
    return True


def classify(a):
    if not a:
        return "empty"
    n = a[0].upper()
    if any(b"\r" in x or b"\n" in x for x in a):
        return "crlf-content"
    try:
        name = n.decode("ascii")
    except UnicodeDecodeError:
        return "binary-name"
    if name in catalogue.CATALOGUE:
        return name
    return "unknown-command"


MALFORMED = [
    ("bad-type-byte", b"!3\r\nfoo\r\n"), ("bad-type-byte", b"@\r\n"), ("bad-type-byte", b"\x00\x01\x02\r\n"),
    ("array-len-nonnumeric", b"*abc\r\n"), ("array-len-nonnumeric", b"*1x\r\n$4\r\nPING\r\n"), ("array-len-empty", b"*\r\n"),
    ("array-len-negative", b"*-5\r\n"), ("bulk-len-nonnumeric", b"*1\r\n$abc\r\nPING\r\n"), ("bulk-len-negative", b"*1\r\n$-5\r\n"),
    ("bulk-missing-crlf", b"*1\r\n$4\r\nPINGXX*1\r\n$4\r\nPING\r\n"), ("bulk-too-long-declared-short", b"*1\r\n$2\r\nPING\r\n"),
    ("array-elem-not-bulk", b"*2\r\n$4\r\nECHO\r\n*1\r\n$1\r\na\r\n"), ("array-elem-integer", b"*2\r\n$4\r\nECHO\r\n:5\r\n"),
    ("array-len-float", b"*1.5\r\n"), ("array-len-plus", b"*+1\r\n$4\r\nPING\r\n"),
    ("bulk-len-space", b"*1\r\n$ 4\r\nPING\r\n"), ("nested-array-cmd", b"*1\r\n*1\r\n$4\r\nPING\r\n"),
]
# forms a lenient parser may accept; any reply (instead of silence) satisfies the statement
LENIENT_OK = {"array-elem-not-bulk", "array-elem-integer", "array-len-plus", "nested-array-cmd", "lf-only", "bulk-len-space"}
TOPLEVEL_NONARRAY = [("simple-string", b"+OK\r\n"), ("integer", b":1\r\n"), ("bulk", b"$4\r\nPING\r\n"), ("error", b"-ERR x\r\n"),
                     ("null-bulk", b"$-1\r\n")]


def malformed_cases(srv, res, rng):
    ctl = srv.client()
    for kind, frame in MALFORMED + TOPLEVEL_NONARRAY:
        for prefix in (b"", resp.encode([b"ECHO", b"before"])):
            c = srv.client(timeout=5)
            try:
                c.send_raw(prefix + frame)
                got = []
                # progress bound: 60 event-loop iterations after the bytes were handed to the kernel
                server.wait_loops(ctl, 60)
                while True:
                    try:
                        x = c.try_recv(0.01)
                    except Closed:
                        got.append("closed")
                        break
                    except resp.ProtocolError as e:
                        got.append("garbled:%r" % bytes(c.buf[:60]))
                        break
                    if x is NOTHING:
                        break
                    got.append(x)
                res.evaluations += 1
                res.cell("malformed", kind, "with-prefix" if prefix else "alone")
                want_first = [b"before"] if prefix else []
                body = got[len(want_first):]
                if got[:len(want_first)] != want_first:
                    res.violation("order/malformed/%s" % kind, "valid ECHO before a malformed frame %r: replies %s" % (frame, resp.show(got)))
                elif kind in LENIENT_OK and body and body[0] != "closed":
                    pass    # accepted leniently and answered: not silence
                elif not any(isinstance(x, Err) for x in body):
                    res.violation("silent/malformed/%s" % kind,
                                  "frame %r%s: no error reply within 60 event-loop iterations; received %s" % (
                                      frame, " (after a valid ECHO)" if prefix else "", resp.show(got)))
                elif any(isinstance(x, str) and x.startswith("garbled") for x in body):
                    res.violation("framing/malformed/%s" % kind, "frame %r: undecodable reply bytes %s" % (frame, resp.show(got)))
            finally:
                c.close()
        if not srv.alive():
            res.violation("server-died/malformed/%s" % kind, "server exited %s after %r\n%s" % (srv.exit_status(), frame, srv.stderr_tail(1000)))
            srv.restart()
            ctl = srv.client()
    ctl.close()


def directed(srv, res, rng):
    """Scenarios whose ordering relative to other replies matters."""
    # [PING, SUBSCRIBE c, PING]: replies in request order
    c = srv.client(timeout=5)
    c.send_raw(resp.encode([b"PING"]) + resp.encode([b"SUBSCRIBE", b"ch"]) + resp.encode([b"PING", b"after"]))
    got = []
    try:
        for _ in range(3):
            got.append(c.recv())
    except (Timeout, Closed):
        pass
    c.close()
    res.evaluations += 3
    res.cell("directed", "ping-subscribe-ping")
    ok = len(got) == 3 and got[0] == resp.PONG and got[1] == [b"subscribe", b"ch", 1] and \
        (got[2] == b"after" or got[2] == [b"pong", b"after"])
    if not ok:
        res.violation("order/subscribe-in-pipeline", "[PING, SUBSCRIBE ch, PING after] in one write -> %s" % resp.show(got))
    # MULTI; BLPOP empty 0; EXEC must yield a complete EXEC array and the connection stays usable
    c = srv.client(timeout=5)
    c.cmd("DEL", "nolist")
    c.send_raw(b"".join(resp.encode(a) for a in [[b"MULTI"], [b"BLPOP", b"nolist", b"0"], [b"SET", b"after-blpop", b"1"],
                                                 [b"EXEC"], [b"ECHO", b"end"]]))
    got = []
    try:
        for _ in range(5):
            got.append(c.recv())
    except (Timeout, Closed, resp.ProtocolError) as e:
        got.append(type(e).__name__)
    c.close()
    res.evaluations += 5
    res.cell("directed", "blocking-pop-inside-multi")
    ok = len(got) == 5 and got[0] == resp.OK and got[1] == resp.QUEUED and got[2] == resp.QUEUED and \
        isinstance(got[3], list) and len(got[3]) == 2 and got[3][1] == resp.OK and got[4] == b"end"
    if not ok:
        res.violation("framing/blocking-pop-inside-multi", "[MULTI, BLPOP nolist 0, SET, EXEC, ECHO end] -> %s" % resp.show(got))
    # commands pipelined behind a blocking pop are answered after it - when it times out ...
    for pop in (b"BLPOP", b"BRPOP"):
        c = srv.client(timeout=5)
        c.cmd("DEL", "bq", "bq:flag")
        c.send_raw(b"".join(resp.encode(a) for a in [[pop, b"bq", b"0.15"], [b"SET", b"bq:flag", b"1"], [b"ECHO", b"after-timeout"]]))
        got = []
        try:
            for _ in range(3):
                got.append(c.recv())
        except (Timeout, Closed, resp.ProtocolError) as e:
            got.append(type(e).__name__)
        c.close()
        res.evaluations += 3
        res.cell("directed", "behind-blocking-pop", "timeout", pop.decode())
        if got != [resp.NULL_ARRAY, resp.OK, b"after-timeout"]:
            res.violation("order/behind-blocking-pop/timeout", "[%s bq 0.15, SET, ECHO] in one write -> %s, expected [nil, OK, 'after-timeout']" % (pop.decode(), resp.show(got)))
        # ... and when another client serves it; until then the commands behind it have no effect
        c = srv.client(timeout=5)
        o = srv.client(timeout=5)
        o.cmd("DEL", "bq", "bq:flag")
        c.send_raw(b"".join(resp.encode(a) for a in [[pop, b"bq", b"0"], [b"SET", b"bq:flag", b"1"], [pop, b"bq", b"0"], [b"ECHO", b"after-serve"]]))
        server.wait_loops(o, 4)
        early = o.cmd("EXISTS", "bq:flag")
        o.cmd("RPUSH", "bq", "v1")
        server.wait_loops(o, 4)
        mid = o.cmd("EXISTS", "bq:flag")
        o.cmd("RPUSH", "bq", "v2")
        got = []
        try:
            for _ in range(4):
                got.append(c.recv())
        except (Timeout, Closed, resp.ProtocolError) as e:
            got.append(type(e).__name__)
        c.close()
        o.close()
        res.evaluations += 4
        res.cell("directed", "behind-blocking-pop", "served", pop.decode())
        if got != [[b"bq", b"v1"], resp.OK, [b"bq", b"v2"], b"after-serve"] or early != 0 or mid != 1:
            res.violation("order/behind-blocking-pop/served", "[%s bq 0, SET flag, %s bq 0, ECHO] in one write, two pushes by another client -> %s; flag existed "
                          "before the first push: %r, after it: %r (expected [[bq,v1], OK, [bq,v2], 'after-serve'], 0, 1)" % (
                              pop.decode(), pop.decode(), resp.show(got), early, mid))
    # a command that fails for a reason outside the client's control (an I/O error while saving) is answered with
    # an error like any other, in its place, and the commands around it keep their replies
    for step in (0, 2, 5):
        for cmd in (b"SAVE", b"BGSAVE"):
            c = srv.client(timeout=10)
            c.cmd("SET", "io:k", "v")
            c.cmd("VERIF", "RDB", "FAILSTEP", str(step))
            c.send_raw(b"".join(resp.encode(a) for a in [[b"ECHO", b"before-save"], [cmd], [b"ECHO", b"after-save"]]))
            got = []
            try:
                for _ in range(3):
                    got.append(c.recv())
            except (Timeout, Closed, resp.ProtocolError) as e:
                got.append(type(e).__name__)
            c.close()
            t = srv.client(timeout=10)
            t.cmd("VERIF", "RDB", "FAILSTEP", "-1")
            server.wait_loops(t, 3)
            for _ in range(200):
                if t.cmd("VERIF", "RDB", "INPROGRESS") == 0:
                    break
                time.sleep(0.01)
            t.close()
            res.evaluations += 3
            res.cell("directed", "failing-save-in-pipeline", cmd.decode(), "step%d" % step)
            okk = len(got) == 3 and got[0] == b"before-save" and got[2] == b"after-save" and \
                (isinstance(got[1], Err) if cmd == b"SAVE" else isinstance(got[1], (Err, resp.Status)))
            if not okk:
                res.violation("silent-or-closed/failing-%s" % cmd.decode(), "[ECHO, %s (I/O error injected at save step %d), ECHO] in one write -> %s, expected "
                              "['before-save', <error>, 'after-save']" % (cmd.decode(), step, resp.show(got)))
    # replies that do not fit the socket buffers, followed by a blocking pop that has to wait: the replies keep flowing
    # while the client is blocked, and the pop is answered when it is served
    c = srv.client(timeout=30)
    o = srv.client(timeout=10)
    c.cmd("SET", "big1m", b"m" * (1 << 20))
    o.cmd("DEL", "bq3")
    n = 24
    c.send_raw(b"".join(resp.encode([b"GET", b"big1m"]) for _ in range(n)) + resp.encode([b"BLPOP", b"bq3", b"0"]))
    got_n = 0
    problem = None
    try:
        for i in range(n):
            r = c.recv(timeout=10)
            if not (isinstance(r, bytes) and len(r) == 1 << 20):
                problem = "reply %d is %s" % (i, resp.show(r, 30))
                break
            got_n += 1
    except (Timeout, Closed, resp.ProtocolError) as e:
        problem = "%s after %d of %d complete replies (the client is still waiting in BLPOP)" % (type(e).__name__, got_n, n)
    served = None
    if problem is None:
        o.cmd("RPUSH", "bq3", "wake")
        try:
            served = c.recv(timeout=10)
        except (Timeout, Closed, resp.ProtocolError) as e:
            problem = "BLPOP not answered after the push: %s" % type(e).__name__
        if problem is None and served != [b"bq3", b"wake"]:
            problem = "BLPOP answered %s" % resp.show(served)
    c.close()
    o.cmd("DEL", "big1m", "bq3")
    o.close()
    res.evaluations += n + 1
    res.cell("directed", "large-replies-then-blocking-pop")
    if problem:
        res.violation("silent/large-replies-then-blocking-pop", "24 x GET of a 1 MiB value + BLPOP bq3 0 in one write, the client reads at once: %s" % problem)
    # several clients whose multi-key blocking pops time out in the same event-loop pass: one nil each, no more
    for stalled in (False, True, True):
        ws = [srv.client(timeout=5) for _ in range(3)]
        st = srv.client(timeout=5)
        for w in ws:
            w.send_raw(resp.encode([b"BLPOP", b"tq:high", b"tq:low", b"0.1"]))
        if stalled:
            st.cmd("SLEEP", "250")           # the deadlines pass while the command thread is busy
        outs = []
        for w in ws:
            got = []
            try:
                got.append(w.recv())
                w.send_raw(resp.encode([b"ECHO", b"after-timeout"]))
                got.append(w.recv())
                extra = w.try_recv(0.05)
                if extra is not NOTHING:
                    got.append(extra)
            except (Timeout, Closed, resp.ProtocolError) as e:
                got.append(type(e).__name__)
            outs.append(got)
            w.close()
        st.close()
        res.evaluations += 6
        res.cell("directed", "multi-key-timeouts-same-pass", "stalled" if stalled else "free")
        if any(g != [resp.NULL_ARRAY, b"after-timeout"] for g in outs):
            res.violation("count/multi-key-timeout", "3 clients in BLPOP tq:high tq:low 0.1 (%s): each then sent ECHO; replies per client %s, expected [nil, 'after-timeout'] each" % (
                "deadlines passed during a 250 ms stall" if stalled else "free running", resp.show(outs)))
            break
    # slow reader: the client stops reading while the replies pile up
    c = srv.client(timeout=60)
    big = b"v" * 10240
    c.cmd("SET", "big", big)
    n = 3000
    data = b"".join(resp.encode([b"GET", b"big"]) if i % 10 else resp.encode([b"ECHO", b"s%d" % i]) for i in range(n))
    c.sock.settimeout(60)
    c.send_raw(data)
    time.sleep(0.5)
    bad = None
    try:
        for i in range(n):
            r = c.recv(timeout=60)
            want = big if i % 10 else b"s%d" % i
            if r != want:
                bad = (i, r)
                break
    except (Timeout, Closed, resp.ProtocolError) as e:
        bad = (i, type(e).__name__)
    c.close()
    res.evaluations += n
    res.cell("directed", "slow-reader")
    if bad:
        res.violation("order/slow-reader", "3000 pipelined GET/ECHO with 10 KB replies, reader started late: reply %d was %s" % (
            bad[0], resp.show(bad[1], 40)))


def worker(wseed, binary, budget_s, idx):
    rng = util.rng_for(wseed, "C05")
    res = Result()
    srv = server.Server(binary).start()
    try:
        ctl = srv.client()
        if idx == 0:
            malformed_cases(srv, res, rng)
            directed(srv, res, rng)
        if idx == 1:
            # exhaustive single cut offsets of short pipelines
            for k in range(6):
                ctl.cmd("FLUSHALL")
                m = Model()
                cmds = build_pipeline(rng, m, rng.randrange(2, 5), pure=(k % 2 == 0))
                data = b"".join(resp.encode(a) for a in cmds)
                if len(data) > 400:
                    continue
                for off in range(1, len(data)):
                    ctl.cmd("FLUSHALL")
                    run_pipeline(srv, rng, res, cmds, off, Model(), modelcheck=(k % 2 == 0))
                res.count("exhaustive_cut_pipelines")
                res.count("exhaustive_cut_offsets", len(data) - 1)
        t_end = time.time() + budget_s
        n = 0
        while time.time() < t_end:
            n += 1
            ctl.cmd("FLUSHALL")
            m = Model()
            size = rng.choice([1, 2, 5, 20, 20, 100, 100, 500])
            mode = rng.choice(["whole", "whole", "random-cuts", "random-cuts", "crlf-cuts", "bytewise", "half-close"])
            if mode == "bytewise" and size > 100:
                size = 20
            pure = rng.random() < 0.4
            cmds = build_pipeline(rng, m, size, pure)
            if mode == "half-close":
                # a client that closes its sending side while it is blocked counts as gone (C13): what it
                # is owed then is not stated, so blocking pops stay out of the half-close pipelines
                cmds = [[b"PING"] if (a and a[0].upper() in (b"BLPOP", b"BRPOP")) else a for a in cmds]
            okk = run_pipeline(srv, rng, res, cmds, mode, Model(), modelcheck=pure)
            res.cell("pipeline-kind", "pure-model-checked" if pure else "mixed")
            if n <= 2:
                res.sample({"mode": mode, "first_requests": [resp.show(a, 30) for a in cmds[:6]]})
        res.count("pipelines", n)
    finally:
        srv.cleanup()
    return res


def _w(arg, binary, budget_s):
    return worker(arg[0], binary, budget_s, arg[1])


def run(tier):
    t0 = time.time()
    seed = util.seed_from_env()
    binary, bt = server.build("dev")
    n = util.jobs()
    res = util.run_workers(_w, [(seed * 1000 + i, i) for i in range(n)],
                           dict(binary=binary, budget_s=15 if tier == "quick" else 180))
    return util.finish("C05", tier, seed, "exploration", res,
                       "pipelines of 1-500 requests (generated data-type commands incl. wrong type/arity/argument, unknown "
                       "and hostile command names, CR/LF/NUL/64 KB argument content, catalogue commands) with unique ECHO "
                       "sentinels, sent whole / byte-wise / cut inside every CRLF / random cuts with pauses / every single "
                       "cut offset of short pipelines (exhaustive); replies decoded by an independent RESP reader, aligned "
                       "by index, sentinels exact, model-known commands compared with the model; %d malformed or "
                       "non-array frames must be answered by an error within 60 event-loop iterations; directed: "
                       "SUBSCRIBE inside a pipeline, blocking pop inside MULTI, slow reader (3000 x 10 KB); "
                       "cell = (scenario, segmentation, size)" % (len(MALFORMED) + len(TOPLEVEL_NONARRAY)), t0,
                       assumptions=["*0 and *-1 frames are not judged (Redis ignores them silently)",
                                    "commands that legitimately send 0 or many replies are excluded from random pipelines"],
                       min_cells=15)

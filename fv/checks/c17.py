"""C17 — with a password set, unauthenticated connections can neither read nor write.

Enumeration over the dispatch table (catalogue + grep self-check) x pipeline
position / connection state; per case the unauthenticated socket must carry
nothing but error replies (AUTH/PING/QUIT excepted) and the authenticated
control connection must see canaries, subscriber table, replica table and
monitor set unchanged."""
import time

from .. import server, util, resp, catalogue
from ..diff import server_key_snapshot
from ..resp import Err, Status, OK, Closed, Timeout, NOTHING
from ..util import Result

PASSWORD = "s3cret-Pass_word"
POSITIONS = ["alone", "pipe-first", "pipe-middle", "pipe-last", "after-failed-auth", "after-other-auth", "in-multi", "after-quit",
             "inline"]
HARMLESS = {"AUTH", "PING", "QUIT"}


class Env:
    def __init__(self, binary):
        self.srv = server.Server(binary, password=PASSWORD).start()
        self.ctl = self.srv.client()
        self.sub = self.srv.client()
        self.reseed()
        r = self.sub.cmd("SUBSCRIBE", "canary-channel")
        assert isinstance(r, list), r

    def reseed(self):
        self.ctl.cmd("FLUSHALL")
        catalogue.seed_canaries(self.ctl)
        self.baseline = self.dump()

    def dump(self):
        d = {}
        for db in (0, 1):
            self.ctl.cmd("SELECT", db)
            d[("dbsize", db)] = self.ctl.cmd("DBSIZE")
            for k in catalogue.CANARY_KEYS:
                d[(db, k)] = server_key_snapshot(self.ctl, k.encode())
        self.ctl.cmd("SELECT", 0)
        d["groups"] = repr(self.ctl.cmd("XINFO", "GROUPS", "c:stream"))
        d["pending"] = repr(self.ctl.cmd("XPENDING", "c:stream", "g1"))
        return d

    def close(self):
        self.srv.cleanup()


def build_pipeline(argv, pos):
    enc = resp.encode
    fence = [b"PING", b"fence"]
    if pos == "alone":
        seq = [argv]
    elif pos == "pipe-first":
        seq = [argv, [b"GET", b"c:str"], [b"DBSIZE"]]
    elif pos == "pipe-middle":
        seq = [[b"GET", b"c:str"], argv, [b"KEYS", b"*"]]
    elif pos == "pipe-last":
        seq = [[b"GET", b"c:str"], [b"INFO"], argv]
    elif pos == "after-failed-auth":
        seq = [[b"AUTH", b"wrong"], [b"AUTH", PASSWORD.encode()[:-1]], argv]
    elif pos == "after-other-auth":
        seq = [argv]
    elif pos == "in-multi":
        seq = [[b"MULTI"], argv, [b"EXEC"]]
    elif pos == "after-quit":
        # QUIT is one of the harmless commands: what follows it in the same write is still unauthenticated
        seq = [[b"QUIT"], argv]
    elif pos == "inline":
        return None, [argv]
    return b"".join(enc(a) for a in seq) + enc(fence), seq


def read_all(c, nexpect, timeout=3.0):
    """Read replies until the fence (bulk b'fence'), EOF or timeout."""
    out = []
    closed = False
    timed_out = False
    end = time.monotonic() + timeout
    while True:
        try:
            f = c.recv(timeout=max(0.01, end - time.monotonic()))
        except Closed:
            closed = True
            break
        except Timeout:
            timed_out = True
            break
        except resp.ProtocolError as e:
            out.append(("garbled", str(e), bytes(c.buf[:200])))
            break
        if f == b"fence":
            break
        out.append(f)
    return out, closed, timed_out


def run_case(env, res, name, argv, pos, inline_supported):
    argv = [resp.tob(a) for a in argv]
    if pos == "inline" and not inline_supported:
        return
    if pos == "after-other-auth":
        o = env.srv.client()          # authenticates with the right password
        o.cmd("PING")
    u = env.srv.client(auth=False)
    try:
        if pos == "inline":
            if any(b" " in a or b"\r" in a or b"\n" in a or not a for a in argv):
                return
            data, seq = b" ".join(argv) + b"\r\n" + resp.encode([b"PING", b"fence"]), [argv]
        else:
            data, seq = build_pipeline(argv, pos)
        try:
            u.send_raw(data)
        except Closed:
            pass
        replies, closed, timed_out = read_all(u, len(seq))
        res.evaluations += 1
        sigbase = "%s/%s" % (name, pos)
        detail0 = "unauthenticated connection sent %s (%s); replies: %s%s%s" % (
            resp.show(seq, 50), pos, resp.show(replies, 80), " [connection closed]" if closed else "",
            " [no fence reply]" if timed_out else "")
        # 1. every reply other than to AUTH / PING / QUIT must be an error
        for i, r in enumerate(replies):
            cmdname = seq[i][0].upper().decode() if i < len(seq) else "?"
            if isinstance(r, Err):
                continue
            if cmdname in HARMLESS and i < len(seq):
                continue
            res.violation("served/" + sigbase, detail0 + "\nreply %d (%s) is not an error" % (i, cmdname))
            return
        if len(replies) > len(seq):
            res.violation("leak/extra-replies/" + sigbase, detail0)
            return
        # 2. let the control connection act; nothing may show up on the unauthenticated socket
        env.ctl.cmd("SET", "c:probe", "1")
        npub = env.ctl.cmd("PUBLISH", "canary-channel", "tick")
        env.ctl.cmd("DEL", "c:probe")
        server.wait_loops(env.ctl, 3)
        got = env.sub.recv(timeout=3)
        extra = b""
        if not closed:
            extra = u.drain_raw(0.0) if False else b""
            try:
                x = u.try_recv(0.0)
                if x is not NOTHING:
                    extra = repr(x).encode()
            except (Closed, resp.ProtocolError):
                extra = bytes(u.buf[:200])
            if not extra and u.buf:
                extra = bytes(u.buf[:200])
        if extra:
            res.violation("leak/stream/" + sigbase, detail0 + "\nafter activity of the authenticated connection the unauthenticated socket received: %r" % extra[:300])
            return
        if npub != 1 or got != [b"message", b"canary-channel", b"tick"]:
            res.violation("side-effect/subscribers/" + sigbase, detail0 + "\nPUBLISH canary-channel -> %r (expected 1), subscriber got %s" % (npub, resp.show(got)))
            return
        info = env.ctl.cmd("INFO", "replication")
        if isinstance(info, bytes) and b"connected_slaves:0" not in info and b"connected_replicas:0" not in info:
            res.violation("side-effect/replica/" + sigbase, detail0 + "\nINFO replication: %r" % info[:300])
            return
        if not env.srv.alive():
            res.violation("side-effect/exit/" + sigbase, detail0 + "\nserver exited %s" % env.srv.exit_status())
            raise Closed("server gone")
        d = env.dump()
        if d != env.baseline:
            diffk = [k for k in d if d[k] != env.baseline.get(k)]
            res.violation("side-effect/dataset/" + sigbase, detail0 + "\ncanaries changed: %s" % resp.show(
                [(k, d[k], env.baseline.get(k)) for k in diffk[:4]], 60))
            env.reseed()
            return
        res.cell(name, pos, "closed" if closed else "silent" if timed_out else "refused")
    finally:
        u.close()
        if pos == "after-other-auth":
            o.close()


def killed_while_talking(env, res):
    """An unauthenticated connection that is being closed by an administrator (CLIENT KILL) while its
    pipelined commands are still pending: 'closing' is not 'authenticated'. The command thread is
    stalled (SLEEP) while the kill and the victim's commands arrive, so that both are pending in one pass;
    connection order (who is visited first) varies over the rounds."""
    for rnd in range(24):
        first = "killer" if rnd % 2 == 0 else "victim"
        killer = env.srv.client() if first == "killer" else None
        victim = env.srv.client(auth=False)
        if killer is None:
            killer = env.srv.client()
        for _ in range(rnd % 5):           # shift the ids (and with them the shards) around
            env.srv.client(auth=False).close()
        staller = env.srv.client()
        key = b"c17:intruder:%d" % rnd
        addr = "%s:%d" % victim.sock.getsockname()
        staller.send("SLEEP", "120")
        time.sleep(0.03)
        if rnd % 3 == 0:
            victim.send_raw(resp.encode([b"SET", key, b"written-without-auth"]) * 20)
            killer.send("CLIENT", "KILL", "ADDR", addr)
        else:
            killer.send("CLIENT", "KILL", "ADDR", addr)
            victim.send_raw(resp.encode([b"SET", key, b"written-without-auth"]) * 20 + resp.encode([b"LPUSH", key + b":l", b"x"]))
        try:
            staller.recv(timeout=10)
            killer.recv(timeout=10)
        except (Closed, Timeout):
            pass
        server.wait_loops(env.ctl, 3)
        ex = env.ctl.cmd("EXISTS", key, key + b":l")
        res.evaluations += 1
        res.cell("killed-while-talking", first + "-first", "victim-sends-first" if rnd % 3 == 0 else "kill-sent-first")
        for x in (victim, killer, staller):
            x.close()
        if ex != 0:
            res.violation("served/SET/while-being-killed", "an unauthenticated connection sent SET %s ... while an authenticated one ran CLIENT KILL ADDR on it (both pending "
                          "in one event-loop pass, %s connected first): the key exists afterwards" % (resp.show(key), first))
            env.ctl.cmd("DEL", key, key + b":l")
            return


def password_cases(env, res):
    pw = PASSWORD.encode()
    wrong = [pw[:i] for i in range(len(pw))] + [pw + b"x", pw + b" ", b" " + pw, pw.upper(), pw.lower(), pw.swapcase(),
                                                pw + b"\x00", b"\x00" + pw, pw * 2, b"", b"x" * 65536, b"\xff\xfe" + pw,
                                                pw[:-1] + b"\xc3\x28", pw.replace(b"s", b"S", 1), pw + b"\r\n"]
    # the password followed by filler at the lengths where a length check done in a narrow type wraps around
    # (8 / 16 bit), with filler bytes that a padding-tolerant comparison would forgive, and every single-byte change
    for extra in (1, 2, 7, 8, 255, 256, 257, 512, 65535, 65536, 65537):
        for fill in (b"x", b"\x00", b" "):
            wrong.append(pw + fill * extra)
    wrong += [pw + pw[:1] * 256, pw[:1] * 256 + pw, pw[::-1]]
    wrong += [pw[:i] + bytes([pw[i] ^ 0x20]) + pw[i + 1:] for i in range(len(pw))]
    wrong += [pw[:i] + bytes([pw[i] ^ 0x80]) + pw[i + 1:] for i in range(len(pw))]
    for w in wrong:
        u = env.srv.client(auth=False)
        try:
            r = u.cmd("AUTH", w)
            g = u.cmd("GET", "c:str")
            res.evaluations += 1
            res.cell("password", "prefix" if pw.startswith(w) else "other")
            if not isinstance(r, Err) or not isinstance(g, Err):
                res.violation("auth/wrong-password-accepted", "AUTH %s -> %r, then GET c:str -> %s" % (resp.show(w, 40), r, resp.show(g)))
        finally:
            u.close()
    # the exact password works; a later failed AUTH leaves the connection authenticated
    u = env.srv.client(auth=False)
    r1 = u.cmd("AUTH", pw)
    g1 = u.cmd("GET", "c:str")
    r2 = u.cmd("AUTH", "wrong")
    g2 = u.cmd("GET", "c:str")
    res.evaluations += 1
    res.cell("password", "exact")
    if r1 != OK or g1 != b"canary":
        res.violation("auth/right-password-refused", "AUTH <password> -> %r, GET -> %r" % (r1, g1))
    if not isinstance(r2, Err) or g2 != b"canary":
        res.violation("auth/failed-auth-changed-state", "authenticated; AUTH wrong -> %r; GET c:str -> %r" % (r2, g2))
    u.close()
    # authentication is per connection
    for _ in range(3):
        v = env.srv.client(auth=False)
        g = v.cmd("GET", "c:str")
        res.evaluations += 1
        res.cell("password", "no-leak")
        if not isinstance(g, Err):
            res.violation("auth/leaks-across-connections", "fresh connection after another one authenticated: GET c:str -> %r" % (g,))
        v.close()
    # AUTH arity
    u = env.srv.client(auth=False)
    for a in (["AUTH"], ["AUTH", "a", "b", "c"]):
        r = u.cmd(*a)
        g = u.cmd("GET", "c:str")
        res.evaluations += 1
        if not isinstance(r, Err) or not isinstance(g, Err):
            res.violation("auth/arity", "%s -> %r then GET -> %r" % (a, r, g))
    u.close()


def worker(shard, binary, nshards):
    res = Result()
    env = Env(binary)
    try:
        # inline commands supported at all?
        t = env.srv.client()
        t.send_raw(b"ECHO inline-probe\r\n")
        try:
            inline_supported = t.recv(timeout=1.0) == b"inline-probe"
        except (Timeout, Closed, resp.ProtocolError):
            inline_supported = False
        t.close()
        res.extra["inline_supported"] = int(inline_supported)
        cases = []
        for name in sorted(catalogue.CATALOGUE):
            for argv in catalogue.CATALOGUE[name]:
                for pos in POSITIONS:
                    cases.append((name, argv, pos))
        # commands present in the dispatch table but missing from the catalogue: bare invocation
        for name in catalogue.gaps(server.REPO):
            for pos in POSITIONS:
                cases.append((name, [name], pos))
        for i, (name, argv, pos) in enumerate(cases):
            if i % nshards != shard:
                continue
            try:
                nv = len(res.violations)
                run_case(env, res, name, argv, pos, inline_supported)
                if len(res.violations) > nv:
                    env.close()
                    env = Env(binary)
            except (Closed, Timeout, AssertionError, RuntimeError) as e:
                if not env.srv.alive():
                    res.violation("side-effect/exit/%s/%s" % (name, pos), "server died after unauthenticated %s (%s): exit %s\n%s" % (
                        resp.show(argv), pos, env.srv.exit_status(), env.srv.stderr_tail(800)))
                else:
                    res.inconclusive.append("case %s/%s: %r" % (name, pos, e))
                env.close()
                env = Env(binary)
        if shard == 1 % nshards:
            killed_while_talking(env, res)
        if shard == 0:
            password_cases(env, res)
            res.sample("[unauthenticated] GET c:str; SYNC; KEYS *; PING fence -> every reply but PING's must be an error, no other byte")
        res.setadd("catalogue_gaps", ",".join(catalogue.gaps(server.REPO)) or "none")
    finally:
        env.close()
    return res


def run(tier):
    t0 = time.time()
    seed = util.seed_from_env()
    binary, bt = server.build("dev")
    n = util.jobs()
    res = util.run_workers(worker, list(range(n)), dict(binary=binary, nshards=n), nproc=n)
    return util.finish("C17", tier, seed, "exploration", res,
                       "enumeration of every dispatched command name (%d catalogue entries, gaps vs the dispatch match "
                       "arms reported) x position {alone, first/middle/last of a pipeline, after QUIT in the same write, after failed AUTH, after "
                       "another connection authenticated, inside an attempted MULTI, inline}; oracle: only AUTH/PING/QUIT "
                       "get a non-error reply, no further byte on the unauthenticated socket even after activity of the "
                       "authenticated connection (covers MONITOR/SUBSCRIBE/SYNC streams), canary dataset + consumer "
                       "groups + subscriber count + replica table unchanged, server alive; plus %d wrong passwords "
                       "(all proper prefixes, extensions, case, blanks, binary, 64 KB)" % (
                           len(catalogue.CATALOGUE), len(PASSWORD) + 15), t0,
                       extra_cov={"exhaustive": True},
                       assumptions=["INFO replication reports connected replicas", "canary keys cover every value type"],
                       min_cells=50)

"""Shared runner for the reply/dataset differential checks (C01, C03, C04, C15, C16)."""
import threading
import time

from .. import server, util, resp, gen
from ..diff import Differ, Abandon
from ..util import Result


def worker(wseed, prop, genname, budget_s, hist_len, binary, check_every=0, max_cmds=None, seeder="pool",
           extra_env=None, label=None, restart_prob=0.0, script_prob=0.0):
    import importlib
    rng = util.rng_for(wseed, prop)
    res = Result()
    known = util.Known()
    genmod = importlib.import_module("fv." + genname.split(":")[0])
    genfn = getattr(genmod, genname.split(":")[1])
    srv = server.Server(binary, extra_env=extra_env, start_timeout=60.0 if label else 20.0).start()
    stop_saver = threading.Event()
    saves = [0]

    def saver():
        # sanitizer passes: a second connection keeps the save thread walking the Arc-shared values
        # (sorted sets, consumer groups) while the differential mutates them - a sanitizer only sees
        # what the workload makes two threads do
        try:
            c = srv.client(timeout=30)
            while not stop_saver.is_set():
                if isinstance(c.cmd("BGSAVE"), resp.Status):
                    saves[0] += 1
                time.sleep(0.015)
        except (resp.Closed, resp.Timeout, OSError):
            pass

    saver_thread = None
    try:
        d = Differ(srv, res, prop, known, timeout=30.0 if label else 10.0)
        if label:
            saver_thread = threading.Thread(target=saver, daemon=True)
            saver_thread.start()
        t_end = time.time() + budget_s
        histories = 0
        while time.time() < t_end and (max_cmds is None or res.evaluations < max_cmds):
            histories += 1
            try:
                d.reset()
                n = rng.randrange(hist_len[0], hist_len[1])
                if seeder == "pool" and genname.endswith("gen_group_cmd"):
                    pass
                elif seeder == "pool" and rng.random() < 0.85:
                    for argv in gen.seed_commands(rng):
                        d.step(argv, probe=False, cellinfo=False)
                restart_at = rng.randrange(n) if (restart_prob and rng.random() < restart_prob) else -1
                for i in range(n):
                    if i == restart_at:
                        # SAVE, kill, start on the same directory: what the commands mean must not depend
                        # on whether the value was built by this process or loaded from its dump
                        r = d.c.cmd("SAVE", timeout=60)
                        if r != resp.OK:
                            d.diverge("restart/save-failed", "SAVE in the middle of a history -> %s" % resp.show(r))
                        srv.restart()
                        d.connect()
                        d.history.append([b"<SAVE, SIGKILL, restart>"])
                        res.count("restarts_inside_histories")
                        res.cell("restart", "mid-history")
                        d.full_compare(dbs=[0])
                    argv = genfn(rng, d.model, d.db)
                    if script_prob and rng.random() < script_prob and d.step_via_script(argv):
                        continue
                    d.step(argv, probe=None if rng.random() < 0.8 else True)
                    if check_every and (i + 1) % check_every == 0:
                        d.verif_check()
                d.verif_check()
                d.full_compare(dbs=[0])
                if histories <= 2:
                    res.sample([resp.show(a, 40) for a in d.history[-12:]])
            except Abandon:
                continue
        res.count("histories", histories)
    finally:
        stop_saver.set()
        if saver_thread is not None:
            saver_thread.join(timeout=35)
            res.count("%s_bgsaves_beside_the_workload" % label, saves[0])
        res.count("server_starts", srv.starts)
        if label:
            from .. import sanitize
            res.count("%s_evaluations" % label, res.evaluations)
            res.count("%s_histories" % label, res.extra.get("histories", 0))
            sanitize.record(res, prop, srv.stderr_text(), label)
        srv.cleanup()
    return res


def sanitizer_pass(prop, genname, seed, budget_s, hist_len, check_every, profile="asan"):
    """Thorough tier: the same generator and oracles against a sanitizer build."""
    from .. import sanitize
    binary, env, bt = sanitize.build(profile)
    seeds = [seed * 1000 + 500 + i for i in range(util.jobs())]
    res = util.run_workers(worker, seeds, dict(prop=prop, genname=genname, budget_s=budget_s, hist_len=hist_len,
                                               binary=binary, check_every=check_every, extra_env=env, label=profile))
    res.extra["%s_build_s" % profile] = round(bt, 1)
    return res


def run(prop, tier, genname, rule, budget_quick=20, budget_thorough=240, hist_len=(20, 200), check_every=0,
        assumptions=None, extra_fn=None, asan_budget=90, restart_prob=0.0, script_prob=0.0):
    t0 = time.time()
    seed = util.seed_from_env()
    binary, bt = server.build("dev")
    budget = budget_quick if tier == "quick" else budget_thorough
    n = util.jobs()
    seeds = [seed * 1000 + i for i in range(n)]
    res = util.run_workers(worker, seeds, dict(prop=prop, genname=genname, budget_s=budget, hist_len=hist_len,
                                               binary=binary, check_every=check_every, restart_prob=restart_prob, script_prob=script_prob))
    res.extra["build_s"] = round(bt, 1)
    if tier == "thorough" and asan_budget:
        res.merge(sanitizer_pass(prop, genname, seed, asan_budget, hist_len, check_every))
    if extra_fn is not None:
        res.merge(extra_fn(tier, seed))
    return util.finish(prop, tier, seed, "exploration", res, rule, t0, assumptions=assumptions or [
        "reference model fv/model.py encodes Redis semantics (hand-checked against the command reference; no Redis binary offline)",
        "error replies compare as 'is an error' only; unordered replies as multisets; scores as floats",
        "don't-care forms listed in fv/DONTCARE.md are not generated",
    ], min_cells=20)

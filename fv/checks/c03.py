"""C03 — list, set and hash commands follow the Redis reference semantics."""
from . import modeldiff

RULE = ("seeded histories of 20-200 list/set/hash commands over a 10-key pool pre-seeded with all six types "
        "(duplicates at controlled multiplicities, all index forms, multi-key set algebra over existing/missing/"
        "wrong-type operands, random picks validated for admissibility and adopted); every reply compared with the "
        "reference model, touched keys probed after refused commands, VERIF CHECK (no empty collection stored) and "
        "full dump at history end; cell = (command, pre-state type of first key, reply class)")


def run(tier):
    from . import expiry_mini
    return modeldiff.run("C03", tier, "gen:gen_coll_cmd", RULE + "; plus collections with a TTL emptied element by element, re-created without TTL, read two sweeper passes after the old deadline; 4% of the commands travel through redis.pcall in a script (effect on the dataset = that of the direct command); in 1 of 30 histories the server is saved, killed and restarted on its dump at a random step", extra_fn=expiry_mini.collections_emptied_and_recreated, script_prob=0.04, restart_prob=0.03)

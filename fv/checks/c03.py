"""C03 — list, set and hash commands follow the Redis reference semantics."""
from . import modeldiff

RULE = ("seeded histories of 20-200 list/set/hash commands over a 10-key pool pre-seeded with all six types "
        "(duplicates at controlled multiplicities, all index forms, multi-key set algebra over existing/missing/"
        "wrong-type operands, random picks validated for admissibility and adopted); every reply compared with the "
        "reference model, touched keys probed after refused commands, VERIF CHECK (no empty collection stored) and "
        "full dump at history end; cell = (command, pre-state type of first key, reply class)")


def run(tier):
    return modeldiff.run("C03", tier, "gen:gen_coll_cmd", RULE)

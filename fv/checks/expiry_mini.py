"""Small expiry workloads shared by the command-semantics checks (C01, C03): the data-type
commands keep meaning what the model says when keys carry TTLs and the sweeper thread is at
work. (C02 owns expiry; these are the few interactions a data-type change can break.)"""
import time

from .. import server, util, resp
from ..resp import Closed, Timeout
from ..util import Result


def wait_passes(c, n, timeout=8.0):
    p0 = c.cmd("VERIF", "SWEEPER", "PASSES")
    t_end = time.monotonic() + timeout
    while time.monotonic() < t_end:
        if c.cmd("VERIF", "SWEEPER", "PASSES") >= p0 + n:
            return True
        time.sleep(0.02)
    return False


def strings_in_the_sweeper_window(tier, seed):
    """C01: the C02 sync-point scenario (sweeper parked between collecting dead keys and deleting
    them) with the string / key-space commands as the client actions."""
    from . import c02
    res = Result()
    binary, _ = server.build("dev")
    srv = server.Server(binary).start()
    try:
        rng = util.rng_for(seed, "C01-window")
        for _ in range(2 if tier == "quick" else 12):
            try:
                c02.sweeper_window(srv, rng, res)
            except (Closed, Timeout) as e:
                res.inconclusive.append("sweeper-window scenario: %r" % (e,))
                break
    finally:
        srv.cleanup()
    return res


def collections_emptied_and_recreated(tier, seed):
    """C03: a collection with a TTL is emptied element by element (the key goes away), re-created
    under the same name without a TTL, and must then outlive the old deadline by two sweeper passes
    with exactly the new content."""
    res = Result()
    binary, _ = server.build("dev")
    srv = server.Server(binary).start()
    try:
        c = srv.client(timeout=15)
        cases = [
            ("list/LPOP", [[b"RPUSH", b"K", b"a", b"b"]], [[b"LPOP", b"K"], [b"LPOP", b"K"]], [[b"RPUSH", b"K", b"n1", b"n2"]], [b"LRANGE", b"K", b"0", b"-1"], [b"n1", b"n2"]),
            ("list/RPOP", [[b"RPUSH", b"K", b"a"]], [[b"RPOP", b"K"]], [[b"LPUSH", b"K", b"n1"]], [b"LRANGE", b"K", b"0", b"-1"], [b"n1"]),
            ("list/LTRIM", [[b"RPUSH", b"K", b"a", b"b"]], [[b"LTRIM", b"K", b"5", b"9"]], [[b"RPUSH", b"K", b"n1"]], [b"LRANGE", b"K", b"0", b"-1"], [b"n1"]),
            ("list/LREM", [[b"RPUSH", b"K", b"a", b"a"]], [[b"LREM", b"K", b"0", b"a"]], [[b"RPUSH", b"K", b"n1"]], [b"LRANGE", b"K", b"0", b"-1"], [b"n1"]),
            ("set/SREM", [[b"SADD", b"K", b"a", b"b"]], [[b"SREM", b"K", b"a", b"b"]], [[b"SADD", b"K", b"n1"]], [b"SMEMBERS", b"K"], [b"n1"]),
            ("set/SPOP", [[b"SADD", b"K", b"a"]], [[b"SPOP", b"K"]], [[b"SADD", b"K", b"n1"]], [b"SMEMBERS", b"K"], [b"n1"]),
            ("set/SPOP-count", [[b"SADD", b"K", b"a", b"b"]], [[b"SPOP", b"K", b"5"]], [[b"SADD", b"K", b"n1"]], [b"SMEMBERS", b"K"], [b"n1"]),
            ("hash/HDEL", [[b"HSET", b"K", b"f", b"v", b"g", b"w"]], [[b"HDEL", b"K", b"f", b"g"]], [[b"HSET", b"K", b"nf", b"nv"]], [b"HGETALL", b"K"], [b"nf", b"nv"]),
            ("hash/HDEL-HINCRBY", [[b"HSET", b"K", b"f", b"v"]], [[b"HDEL", b"K", b"f"]], [[b"HINCRBY", b"K", b"n", b"5"]], [b"HGETALL", b"K"], [b"n", b"5"]),
        ]
        ttl_ms = 350
        t_created = time.monotonic()
        for i, (name, create, empty, recreate, read, want) in enumerate(cases):
            k = b"em:%d" % i
            for a in create:
                c.cmd(*[k if x == b"K" else x for x in a])
            c.cmd("PEXPIRE", k, str(ttl_ms))
            for a in empty:
                c.cmd(*[k if x == b"K" else x for x in a])
            gone = c.cmd("EXISTS", k)
            for a in recreate:
                c.cmd(*[k if x == b"K" else x for x in a])
            p = c.cmd("PTTL", k)
            res.evaluations += 1
            if gone != 0:
                res.violation("emptied/%s/key-still-there" % name, "after %s the emptied key still EXISTS" % resp.show(empty, 30))
            if p != -1:
                res.violation("emptied/%s/ttl-inherited" % name, "%s, emptied by %s, re-created by %s: PTTL -> %r, a new key has no TTL" % (
                    name, resp.show(empty, 30), resp.show(recreate, 30), p))
        time.sleep(max(0.0, t_created + ttl_ms / 1000.0 + 0.02 - time.monotonic()))
        # the old deadline has passed, the sweeper has (most likely) not been here yet: the first commands that
        # touch the re-created keys now are the ones a stale expiry record would mislead
        p0 = c.cmd("VERIF", "SWEEPER", "PASSES")
        t_poll = time.monotonic() + 1.3
        polls = 0
        while time.monotonic() < t_poll:
            for i, (name, create, empty, recreate, read, want) in enumerate(cases):
                k = b"em:%d" % i
                got = c.cmd(*[k if x == b"K" else x for x in read])
                polls += 1
                if got != want:
                    res.violation("emptied/%s/deleted-by-access-after-old-deadline" % name,
                                  "%s with a %d ms TTL, emptied by %s, re-created without TTL by %s: %s shortly after the OLD deadline -> %s, expected %s "
                                  "(sweeper passes since the deadline: %r)" % (name, ttl_ms, resp.show(empty, 30), resp.show(recreate, 30), resp.show(read, 30),
                                                                               resp.show(got, 30), resp.show(want, 30), c.cmd("VERIF", "SWEEPER", "PASSES") - p0))
                    return res
            time.sleep(0.02)
        res.count("polls_after_old_deadline", polls)
        if not wait_passes(c, 1):
            res.inconclusive.append("sweeper passes did not advance")
            return res
        for i, (name, create, empty, recreate, read, want) in enumerate(cases):
            k = b"em:%d" % i
            got = c.cmd(*[k if x == b"K" else x for x in read])
            res.evaluations += 1
            res.cell("emptied-and-recreated", name)
            if got != want:
                res.violation("emptied/%s/deleted-at-old-deadline" % name,
                              "%s with a %d ms TTL, emptied by %s (key gone), re-created without TTL by %s: two sweeper passes after the OLD deadline %s -> %s, expected %s" % (
                                  name, ttl_ms, resp.show(empty, 30), resp.show(recreate, 30), resp.show(read, 30), resp.show(got, 30), resp.show(want, 30)))
    except (Closed, Timeout) as e:
        res.inconclusive.append("emptied-and-recreated scenario: %r" % (e,))
    finally:
        srv.cleanup()
    return res

"""C06 — no client input can crash, hang or wedge the server.

Workload 1: boundary enumeration — every catalogue command x every argument
position x a numeric/byte boundary pool, against keys of every type and size.
Workload 2: frame fuzz — mutated pipelines, absurd declared lengths, deep
nesting, floods of tiny frames, half frames then close.
Workload 3: resource exhaustion by script.
Oracle after every input: child alive, PING answered on a NEW connection within
the watchdog, sentinel dataset intact (checked per batch and at the end)."""
import os
import re
import time

from .. import server, util, resp, catalogue
from ..diff import server_key_snapshot
from ..resp import Err, Closed, Timeout, NOTHING
from ..util import Result

I64MAX, I64MIN = (1 << 63) - 1, -(1 << 63)
POOL = [
    ("empty", b""), ("zero", b"0"), ("neg-zero", b"-0"), ("one", b"1"), ("minus-one", b"-1"), ("two", b"2"),
    ("i64max", b"%d" % I64MAX), ("i64max-1", b"%d" % (I64MAX - 1)), ("i64max+1", b"%d" % (I64MAX + 1)),
    ("i64min", b"%d" % I64MIN), ("i64min+1", b"%d" % (I64MIN + 1)), ("i64min-1", b"%d" % (I64MIN - 1)),
    ("u64max", b"%d" % ((1 << 64) - 1)), ("u64max+1", b"%d" % (1 << 64)), ("u64max-1", b"%d" % ((1 << 64) - 2)),
    ("i32max", b"2147483647"), ("i32max+1", b"2147483648"), ("i32min-1", b"-2147483649"), ("u32max+1", b"4294967296"),
    ("1e30-int", b"1" + b"0" * 30), ("1e308", b"1e308"), ("-1e308", b"-1e308"), ("1e309", b"1e309"), ("1e-400", b"1e-400"),
    ("1e30", b"1e30"), ("nan", b"nan"), ("inf", b"inf"), ("-inf", b"-inf"), ("+inf", b"+inf"), ("hex", b"0x7fffffffffffffff"),
    ("padded", b"0000000000000000000000000005"), ("plus", b"+5"), ("space", b" 5"), ("float", b"1.5"), ("tiny-float", b"0.000001"),
    ("arabic-digits", "١٢٣".encode()), ("64k-digits", b"9" * 65536), ("binary", b"\x00\xff\xfe\x80"),
    ("crlf", b"\r\n"), ("star", b"*"), ("minus", b"-"), ("plus-sign", b"+"), ("dollar", b"$"), ("paren", b"(1"),
    ("big-word", b"a" * 70000),
    # well-formed prefixes of the argument grammars (stream IDs, integers, floats, range bounds, the
    # special one-byte IDs) with one byte that is not UTF-8 spliced in: parsers that turn the argument
    # into a str first meet a continuation byte right after an ASCII delimiter, a lead byte at the end...
    ("id-cont-after-dash", b"5-\x80"), ("id-cont-before-dash", b"5\x80-1"), ("id-lead-at-end", b"5-1\xf0"),
    ("id-lead-first", b"\xf0-1"), ("id-cont-then-digit", b"5-\xbf1"), ("int-with-cont", b"1\x80"),
    ("float-with-cont", b"1.\x805"), ("excl-with-cont", b"(\x801"), ("lex-with-cont", b"[\x80"),
    ("dash-cont", b"-\x80"), ("plus-cont", b"+\x80"), ("dollar-cont", b"$\x80"), ("star-cont", b"*\x80"), ("gt-cont", b">\x80"),
]
TARGET_SEED = [
    ["SET", "c:str", "canary-value"], ["SET", "c:int", "10"], ["SET", "c:empty", ""],
    ["RPUSH", "c:list", "a", "b", "a"], ["RPUSH", "c:list1", "only"],
    ["SADD", "c:set", "a", "b"], ["SADD", "c:set2", "b", "c"], ["HSET", "c:hash", "f1", "v1", "n", "5"],
    ["ZADD", "c:zset", "1", "a", "2", "b"], ["XADD", "c:stream", "1-1", "f", "v"],
    ["XGROUP", "CREATE", "c:stream", "g1", "0"],
]
SENTINELS = [["SET", "sent:str", "sentinel"], ["RPUSH", "sent:list", "x", "y"], ["SADD", "sent:set", "m"],
             ["HSET", "sent:hash", "f", "v"], ["ZADD", "sent:zset", "1.5", "m"], ["XADD", "sent:stream", "5-5", "f", "v"]]
SKIP_CMDS = {"SHUTDOWN", "QUIT", "MONITOR", "SUBSCRIBE", "PSUBSCRIBE", "SYNC", "PSYNC", "VERIF", "AUTH"}
# inputs whose effect is legitimate although it looks like unavailability / data loss
LEGIT = {("CLIENT", "PAUSE"), ("SLEEP",)}


def seed_all(c, big=True):
    c.cmd("FLUSHALL")
    for a in TARGET_SEED + SENTINELS:
        c.cmd(*a)
    if big:
        # 10^4-element values
        for i in range(0, 10000, 500):
            c.pipeline([["RPUSH", "c:biglist"] + ["e%d" % j for j in range(i, i + 500)],
                        ["ZADD", "c:bigzset"] + [x for j in range(i, i + 500) for x in (str(j), "m%d" % j)],
                        ["SADD", "c:bigset"] + ["m%d" % j for j in range(i, i + 500)]])


def sentinel_dump(c):
    return {a[1]: server_key_snapshot(c, a[1].encode()) for a in SENTINELS}


def first_ferrous_frame(stderr):
    """Normalised panic signature from the child's stderr."""
    msg = ""
    m = re.search(r"panicked at ([^\n]*)\n([^\n]*)", stderr)
    if m:
        loc = re.sub(r":\d+:\d+:?$", "", m.group(1).strip())
        loc = loc.replace("/repo/", "")
        text = re.sub(r"\d+", "N", m.group(2).strip())[:70]
        msg = "%s:%s" % (loc.split("src/")[-1], text)
    fr = re.findall(r"\d+: (ferrous::[A-Za-z0-9_:<>]+)", stderr)
    frame = fr[0] if fr else ""
    frame = re.sub(r"::h[0-9a-f]{16}$", "", frame)
    if "stack overflow" in stderr:
        return "stack-overflow"
    if "memory allocation of" in stderr:
        return "alloc-failure"
    return (msg + "@" + frame.replace("ferrous::", "")).replace(" ", "_")[:160] or "no-panic-message"


class SeedingFailed(Exception):
    pass


class Prober:
    def __init__(self, binary, res, profile, extra_env=None):
        self.binary = binary
        self.res = res
        self.profile = profile
        self.srv = server.Server(binary, extra_env=extra_env, start_timeout=60.0).start()
        self._seed()

    def _seed(self):
        """Build the sentinel dataset. The seeding traffic is ordinary, valid client input:
        a server that dies or stops answering on it is a finding, not a harness problem."""
        try:
            self.c = self.srv.client(timeout=20)
            seed_all(self.c)
            self.base = sentinel_dump(self.c)
            self._bystanders()
        except (Closed, Timeout, OSError) as e:
            time.sleep(0.3)
            err = self.srv.stderr_text()
            if not self.srv.alive():
                self.res.violation("crash/seeding/%s" % first_ferrous_frame(err[-6000:]),
                                   "(%s build) server exited %s while the sentinel dataset was being written (valid pipelined "
                                   "commands only)\n%s" % (self.profile, self.srv.exit_status(), err[-1800:]))
            else:
                self.res.violation("hang/seeding", "(%s build) server stopped answering while the sentinel dataset was being written: %r" % (self.profile, e))
            raise SeedingFailed()

    def _bystanders(self):
        """Other clients in the states a server normally has around while a hostile input arrives: a
        subscriber to channels and patterns (incl. the empty channel name), a client parked in a
        blocking pop, a client holding a WATCH inside MULTI. Many inputs only go wrong when such a
        client exists (a PUBLISH needs a subscriber to reach the matcher)."""
        for b in getattr(self, "by", []):
            b.close()
        self.by = []
        sub = self.srv.client(timeout=6)
        sub.send_raw(resp.encode([b"SUBSCRIBE", b"c:chan", b"", b"c:tmp"]) +
                     resp.encode([b"PSUBSCRIBE", b"news.*", b"*", b"h?llo", b"[ab]*", b"c:*", b"\\*", b"a\\[b"]))
        blk = self.srv.client(timeout=6)
        blk.send_raw(resp.encode([b"BLPOP", b"c:never", b"c:never2", b"0"]))
        wat = self.srv.client(timeout=6)
        wat.send_raw(resp.encode([b"WATCH", b"c:tmp", b"c:str"]) + resp.encode([b"MULTI"]) + resp.encode([b"GET", b"c:str"]))
        self.by = [sub, blk, wat]
        time.sleep(0.02)
        self.drain_bystanders()

    def drain_bystanders(self):
        for b in getattr(self, "by", []):
            try:
                b.buf.clear()
                b.drain_raw(0.0)
                b.buf.clear()
            except Exception:
                pass

    def restart(self):
        self.srv.restart()
        self._seed()

    def healthy(self, watchdog=20.0):
        """PING on a fresh connection (retried once)."""
        for attempt in range(2):
            try:
                t = resp.Client(self.srv.port, timeout=watchdog)
                r = t.cmd("PING")
                t.close()
                return r == resp.PONG
            except (OSError, Closed, Timeout):
                if not self.srv.alive():
                    return False
        return False

    def attempt_on_new_connection(self, argv):
        """One command from a throw-away connection (the probing one is busy being something else)."""
        keep = self.c
        try:
            self.c = self.srv.client(timeout=6)
            ok = self.attempt(argv, "aux/%s" % argv[0].decode("latin1"), "aux")
            try:
                self.c.close()
            except Exception:
                pass
        except OSError:
            ok = False
        self.c = keep
        return ok

    def attempt(self, argv, label, cls):
        """Run one hostile command; returns False if the server had to be restarted."""
        res = self.res
        res.evaluations += 1
        name = argv[0].upper().decode("latin1") if argv else "?"
        try:
            if self.c.closed:
                self.c = self.srv.client(timeout=6)
            self.c.send(*argv)
            r = self.c.recv()
            outcome = "error" if isinstance(r, Err) else "reply"
        except Timeout:
            outcome = "timeout"
        except (Closed, resp.ProtocolError):
            outcome = "closed"
        except OSError:
            outcome = "closed"
        res.cell(name, cls, outcome)
        if outcome in ("reply", "error"):
            return True
        time.sleep(0.05)
        if not self.srv.alive():
            err = self.srv.stderr_text()
            sig = "crash/%s/%s/%s" % (name, label, first_ferrous_frame(err[-6000:]))
            res.violation(sig, "%s (%s build): server exited %s after %s\n%s" % (
                label, self.profile, self.srv.exit_status(), resp.show(argv, 60), err[-1800:]),
                {"argv": [resp.jsonable(x) for x in argv], "profile": self.profile})
            self.restart()
            return False
        # alive: is it still answering others?
        if self.healthy():
            # only this client is stuck or was dropped
            if outcome == "timeout":
                if name in ("BLPOP", "BRPOP", "XREAD", "XREADGROUP"):
                    pass        # legitimately blocked
                else:
                    res.violation("no-reply/%s/%s" % (name, label), "%s: no reply within 6 s to %s although the server answers other connections" % (
                        label, resp.show(argv, 60)), {"argv": [resp.jsonable(x) for x in argv]})
            self.c.close()
            self.c = self.srv.client(timeout=6)
            return True
        time.sleep(0.5)
        if not self.srv.alive():
            err = self.srv.stderr_text()
            res.violation("crash/%s/%s/%s" % (name, label, first_ferrous_frame(err[-6000:])), "%s (%s build): server exited %s after %s\n%s" % (
                label, self.profile, self.srv.exit_status(), resp.show(argv, 60), err[-1800:]),
                {"argv": [resp.jsonable(x) for x in argv], "profile": self.profile})
            self.restart()
            return False
        res.violation("hang/%s/%s" % (name, label), "%s: after %s the server stopped answering PING on new connections (watchdog 20 s, retried)" % (
            label, resp.show(argv, 60)), {"argv": [resp.jsonable(x) for x in argv]})
        self.srv.kill()
        self.restart()
        return False

    def check_sentinels(self, why):
        # always on a fresh connection: the probing one may be in any state
        try:
            self.c.close()
        except Exception:
            pass
        self.c = self.srv.client(timeout=6)
        d = sentinel_dump(self.c)
        if d != self.base:
            diff = [k for k in d if d[k] != self.base[k]]
            self.res.violation("data-lost/%s" % why, "sentinel keys changed after %s: %s" % (why, resp.show([(k, d[k]) for k in diff], 60)))
            seed_all(self.c, big=False)
            self.base = sentinel_dump(self.c)
        self.res.count("sentinel_checks")
        self.drain_bystanders()

    def close(self):
        for b in getattr(self, "by", []):
            b.close()
        self.srv.cleanup()


def boundary_cases():
    cases = []
    for name in sorted(catalogue.CATALOGUE):
        if name in SKIP_CMDS:
            continue
        for ex in catalogue.CATALOGUE[name]:
            ex = [resp.tob(x) for x in ex]
            if tuple(x.decode("latin1").upper() for x in ex[:2]) in LEGIT or (name,) in LEGIT:
                continue
            for pos in range(1, len(ex)):
                for label, val in POOL:
                    a = list(ex)
                    a[pos] = val
                    cases.append((name, a, "arg%d=%s" % (pos, label), label))
            # one extra trailing argument from the pool (options, counts)
            for label, val in POOL[:24]:
                cases.append((name, ex + [val], "extra=%s" % label, label))
    # type x command: numeric boundary args against keys of other types and big values
    extra = [
        ["LRANGE", "c:biglist", "{}", "{}"], ["LINDEX", "c:biglist", "{}"], ["LTRIM", "c:biglist", "{}", "{}"],
        ["LREM", "c:biglist", "{}", "e5"], ["LSET", "c:biglist", "{}", "x"],
        ["ZRANGE", "c:bigzset", "{}", "{}"], ["ZREVRANGE", "c:bigzset", "{}", "{}"], ["ZRANGEBYSCORE", "c:bigzset", "{}", "{}"],
        ["ZCOUNT", "c:bigzset", "{}", "{}"], ["ZPOPMIN", "c:bigzset", "{}"], ["ZPOPMAX", "c:bigzset", "{}"],
        ["ZINCRBY", "c:bigzset", "{}", "m5"], ["ZADD", "c:bigzset", "{}", "m5"],
        ["SRANDMEMBER", "c:bigset", "{}"], ["SPOP", "c:bigset", "{}"], ["GETRANGE", "c:empty", "{}", "{}"],
        ["SETRANGE", "c:empty", "{}", "x"], ["GETRANGE", "c:str", "{}", "{}"], ["SETRANGE", "c:str", "{}", "x"],
        ["INCRBY", "c:int", "{}"], ["DECRBY", "c:int", "{}"], ["HINCRBY", "c:hash", "n", "{}"],
        ["EXPIRE", "c:str", "{}"], ["PEXPIRE", "c:str", "{}"], ["SETEX", "c:str", "{}", "v"], ["PSETEX", "c:str", "{}", "v"],
        ["SET", "c:str", "v", "EX", "{}"], ["SET", "c:str", "v", "PX", "{}"], ["BLPOP", "c:list", "{}"], ["BRPOP", "c:list", "{}"],
        ["BLPOP", "c:nolist", "{}"], ["SCAN", "{}"], ["SCAN", "0", "COUNT", "{}"], ["HSCAN", "c:hash", "0", "COUNT", "{}"],
        ["SSCAN", "c:bigset", "{}", "COUNT", "{}"], ["ZSCAN", "c:bigzset", "{}", "COUNT", "{}"],
        ["XRANGE", "c:stream", "-", "+", "COUNT", "{}"], ["XREAD", "COUNT", "{}", "STREAMS", "c:stream", "0-0"],
        ["XTRIM", "c:stream", "MAXLEN", "{}"], ["XADD", "c:stream", "{}-{}", "f", "v"], ["XADD", "c:stream", "{}", "f", "v"],
        ["XDEL", "c:stream", "{}-{}"], ["XRANGE", "c:stream", "{}-{}", "+"], ["XCLAIM", "c:stream", "g1", "me", "{}", "1-1"],
        ["XPENDING", "c:stream", "g1", "-", "+", "{}"], ["XREADGROUP", "GROUP", "g1", "me", "COUNT", "{}", "STREAMS", "c:stream", ">"],
        ["XAUTOCLAIM", "c:stream", "g1", "me", "{}", "0-0", "COUNT", "{}"], ["XGROUP", "SETID", "c:stream", "g1", "{}-{}"],
        ["SELECT", "{}"], ["SLOWLOG", "GET", "{}"], ["CONFIG", "SET", "slowlog-max-len", "{}"],
        ["CONFIG", "SET", "slowlog-log-slower-than", "{}"], ["EVAL", "return 1", "{}"], ["EVAL", "return ARGV[1]", "0", "{}"],
        ["EVAL", "return redis.call('LRANGE','c:biglist',ARGV[1],ARGV[1])", "0", "{}"],
        ["EVAL", "return redis.call('GETRANGE','c:str',ARGV[1],ARGV[1])", "0", "{}"],
        ["EVAL", "return redis.call('SETRANGE','c:tmp',ARGV[1],'x')", "0", "{}"],
        ["EVAL", "return redis.call('EXPIRE','c:str',ARGV[1])", "0", "{}"],
        ["EVAL", "return redis.call('SET','c:tmp','v','EX',ARGV[1])", "0", "{}"],
        ["EVAL", "return redis.call('INCRBY','c:int',ARGV[1])", "0", "{}"],
        ["EVAL", "return redis.call('DECRBY','c:int',ARGV[1])", "0", "{}"],
        ["EVAL", "return redis.call('HINCRBY','c:hash','n',ARGV[1])", "0", "{}"],
        ["EVAL", "return redis.call('LREM','c:biglist',ARGV[1],'e5')", "0", "{}"],
        ["EVAL", "return redis.call('SRANDMEMBER','c:bigset',ARGV[1])", "0", "{}"],
        ["EVAL", "return redis.call('ZRANGE','c:bigzset',ARGV[1],ARGV[1])", "0", "{}"],
        ["EVAL", "return redis.call('XADD','c:stream',ARGV[1]..'-'..ARGV[1],'f','v')", "0", "{}"],
        ["MEMORY", "USAGE", "c:str", "SAMPLES", "{}"], ["CLIENT", "KILL", "ID", "{}"], ["PEXPIRE", "c:list", "{}"],
        ["LPOP", "c:biglist", "{}"], ["SETEX", "c:new", "{}", "{}"],
    ]
    for tmpl in extra:
        for label, val in POOL:
            a = [resp.tob(x).replace(b"{}", val) for x in tmpl]
            what = "/".join(re.sub(r"[^A-Za-z:]", "", t.replace("return redis.call", "call"))[:18] for t in tmpl[1:3] if "{}" not in t)
            cases.append((tmpl[0], a, "%s{}=%s" % (what, label), label))
    return cases


def big_reply_request(argv):
    """SRANDMEMBER with a negative count legitimately returns |count| elements (with
    repetition): asking for more than 10^6 of them is not judged."""
    for a in argv:
        if a.upper().find(b"SRANDMEMBER") >= 0:
            for b in argv[1:]:
                try:
                    if int(b) < -10 ** 6:
                        return True
                except ValueError:
                    pass
    return False


FRAMES = [
    ("array-len-i64max", b"*9223372036854775807\r\n"), ("array-len-u64max", b"*18446744073709551615\r\n"),
    ("array-len-1e9", b"*1000000000\r\n$4\r\nPING\r\n"), ("array-len-1e7", b"*10000000\r\n"),
    ("bulk-len-i64max", b"*1\r\n$9223372036854775807\r\n"), ("bulk-len-1e12", b"*2\r\n$3\r\nGET\r\n$1000000000000\r\nab"),
    ("bulk-len-usize-overflow", b"$18446744073709551614\r\nxx\r\n"), ("map-len-usizemax", b"%18446744073709551615\r\n"),
    ("set-len-usizemax", b"~18446744073709551615\r\n"), ("map-len-i64max", b"%9223372036854775807\r\n"),
    ("nested-1e5", b"*1\r\n" * 100000), ("nested-3e5-arrays-of-2", b"*2\r\n" * 300000),
    ("flood-empty-arrays", b"*0\r\n" * 1000000), ("flood-pings", b"PING\r\n" * 200000),
    ("flood-crlf", b"\r\n" * 2000000), ("half-bulk-then-close", b"*3\r\n$3\r\nSET\r\n$1\r\nk\r\n$100000\r\nabc"),
    ("huge-inline-no-newline", b"A" * 5000000), ("negative-bulk", b"*1\r\n$-9223372036854775808\r\n"),
    ("int-overflow-frame", b":99999999999999999999999999\r\n"), ("double-weird", b",1e999999999\r\n"),
    ("big-number-type", b"(3492890328409238509324850943850943825024385\r\n"), ("verbatim", b"=15\r\ntxt:Some string\r\n"),
    ("push-type", b">1\r\n$4\r\nPING\r\n"), ("attr-type", b"|1\r\n+a\r\n+b\r\n*1\r\n$4\r\nPING\r\n"),
    ("bool-garbage", b"#x\r\n"), ("null-garbage", b"_x\r\n"), ("zero-bulk-in-cmd", b"*1\r\n$0\r\n\r\n"),
    ("array-of-null-bulk", b"*2\r\n$-1\r\n$-1\r\n"), ("array-nullarray-elem", b"*2\r\n$4\r\nECHO\r\n*-1\r\n"),
    ("64k-command-name", b"*1\r\n$65536\r\n" + b"X" * 65536 + b"\r\n"),
    ("many-args", b"*100001\r\n$4\r\nSADD\r\n$5\r\nc:tmp\r\n" + b"$1\r\nx\r\n" * 99999),
]


def split_delivery(p):
    """Valid input delivered in two TCP segments with a pause, the cut at every
    offset (the parser sees every possible incomplete prefix, then the rest)."""
    res = p.res
    base = b"".join(resp.encode(a) for a in [[b"SET", b"c:tmp", b"va\rlue"], [b"LPUSH", b"c:tmpl", b"a", b""], [b"PING"]]) + b"PING\r\n"
    for cut in range(1, len(base)):
        res.evaluations += 1
        t = None
        try:
            t = p.srv.client(timeout=6)
            t.send_raw(base[:cut])
            time.sleep(0.004)
            t.send_raw(base[cut:])
            t.drain_raw(0.02)
        except (OSError, Closed):
            pass
        finally:
            if t is not None:
                t.close()
        cls = "split-after-" + {13: "CR", 10: "LF"}.get(base[cut - 1], "other")
        res.cell("frame", cls)
        if not p.srv.alive():
            err = p.srv.stderr_text()
            res.violation("crash/split/%s/%s" % (cls, first_ferrous_frame(err[-6000:])),
                          "(%s build) server exited %s after valid commands delivered as %s + pause + %s\n%s" % (
                              p.profile, p.srv.exit_status(), resp.show(base[:cut], 60), resp.show(base[cut:cut + 20], 30), err[-1500:]),
                          {"raw": resp.jsonable(base), "cut": cut})
            p.restart()
    if not p.healthy():
        res.violation("hang/split-delivery", "server stopped answering after split deliveries of valid commands")
        p.srv.kill()
        p.restart()


INTRUDERS = [
    [b"SET", b"K", b"x"], [b"SETEX", b"K", b"100", b"x"], [b"MSET", b"K", b"x"], [b"APPEND", b"K", b"x"], [b"INCR", b"K"],
    [b"SETRANGE", b"K", b"3", b"x"], [b"SADD", b"K", b"m"], [b"HSET", b"K", b"f", b"v"], [b"HINCRBY", b"K", b"f", b"1"],
    [b"ZADD", b"K", b"1", b"m"], [b"ZINCRBY", b"K", b"1", b"m"], [b"XADD", b"K", b"*", b"f", b"v"], [b"RENAME", b"c:str", b"K"],
    [b"RENAMENX", b"c:str", b"K"], [b"DEL", b"K"], [b"EXPIRE", b"K", b"0"], [b"FLUSHDB"], [b"FLUSHALL"], [b"SELECT", b"3"],
    [b"EVAL", b"return redis.call('SADD', KEYS[1], 'm')", b"1", b"K"], [b"LPUSH", b"K", b"a", b"b", b"c"], [b"LTRIM", b"K", b"5", b"9"],
    [b"PEXPIRE", b"K", b"1"], [b"LSET", b"K", b"0", b"x"], [b"SUNIONSTORE", b"K", b"c:set"], [b"PERSIST", b"K"],
]


def orphaned_pending_scenarios(p):
    """State that outlives its reason: entries delivered to a consumer stay in the group's pending list
    when XDEL / XTRIM / DEL removes them from the stream (by design, as in Redis). Every group command is
    then run on such IDs - the first, the last, all of them gone. Oracle: child alive, sentinels."""
    res = p.res
    K = b"c:orph"
    removals = [("xdel-last", [[b"XDEL", K, b"3-1"]]), ("xdel-first", [[b"XDEL", K, b"1-1"]]), ("xdel-middle", [[b"XDEL", K, b"2-1"]]),
                ("xdel-all", [[b"XDEL", K, b"1-1", b"2-1", b"3-1"]]), ("xtrim-0", [[b"XTRIM", K, b"MAXLEN", b"0"]]),
                ("xtrim-1", [[b"XTRIM", K, b"MAXLEN", b"1"]]), ("xdel-last-then-add", [[b"XDEL", K, b"3-1"], [b"XADD", K, b"9-9", b"f", b"v"]])]
    followups = [[b"XCLAIM", K, b"g", b"rescuer", b"0", b"ID"], [b"XCLAIM", K, b"g", b"rescuer", b"0", b"1-1", b"2-1", b"3-1"],
                 [b"XCLAIM", K, b"g", b"rescuer", b"0", b"ID", b"JUSTID"], [b"XCLAIM", K, b"g", b"rescuer", b"0", b"ID", b"FORCE"],
                 [b"XAUTOCLAIM", K, b"g", b"rescuer", b"0", b"0-0"], [b"XPENDING", K, b"g"], [b"XPENDING", K, b"g", b"-", b"+", b"10"],
                 [b"XPENDING", K, b"g", b"ID", b"ID", b"1"], [b"XREADGROUP", b"GROUP", b"g", b"worker", b"STREAMS", K, b"0"],
                 [b"XREADGROUP", b"GROUP", b"g", b"worker", b"COUNT", b"1", b"STREAMS", K, b"ID"], [b"XREADGROUP", b"GROUP", b"g", b"worker", b"STREAMS", K, b">"],
                 [b"XACK", K, b"g", b"ID"], [b"XACK", K, b"g", b"1-1", b"2-1", b"3-1"], [b"XINFO", b"STREAM", K], [b"XINFO", b"GROUPS", K],
                 [b"XINFO", b"CONSUMERS", K, b"g"], [b"XGROUP", b"SETID", K, b"g", b"ID"], [b"XGROUP", b"DELCONSUMER", K, b"g", b"worker"],
                 [b"XGROUP", b"DESTROY", K, b"g"], [b"XRANGE", K, b"ID", b"+"], [b"XDEL", K, b"ID"], [b"SAVE"], [b"DEL", K]]
    for rname, removal in removals:
        for idb in (b"1-1", b"2-1", b"3-1"):
            for f in followups:
                if b"ID" not in f and idb != b"3-1":
                    continue
                cmd = [idb if x == b"ID" else x for x in f]
                res.evaluations += 1
                label = "%s/%s/%s" % (rname, b" ".join(f[:2]).decode(), idb.decode())
                try:
                    c = p.c
                    c.cmd("DEL", K)
                    for i in (b"1-1", b"2-1", b"3-1"):
                        c.cmd("XADD", K, i, "f", "v")
                    c.cmd("XGROUP", "CREATE", K, "g", "0")
                    c.cmd("XREADGROUP", "GROUP", "g", "worker", "STREAMS", K, ">")
                    for r in removal:
                        c.cmd(*r)
                    c.cmd(*cmd)
                    c.cmd("PING")
                except (Closed, Timeout, OSError):
                    pass
                res.cell("orphaned-pending", rname, b" ".join(f[:2]).decode())
                if not p.srv.alive() or p.c.closed:
                    p.srv.settle(3.0)
                if not p.srv.alive():
                    err = p.srv.stderr_text()
                    res.violation("crash/orphaned-pending/%s/%s" % (f[0].decode(), first_ferrous_frame(err[-6000:])),
                                  "(%s build) server exited %s: entries 1-1 2-1 3-1 delivered to a consumer, then %s, then %s\n%s" % (
                                      p.profile, p.srv.exit_status(), resp.show(removal, 30), resp.show(cmd, 30), err[-1500:]),
                                  {"scenario": label})
                    p.restart()
                elif p.c.closed:
                    p.restart()
    p.check_sentinels("orphaned-pending")


def blocked_scenarios(p):
    """Hostile sequences that need a second connection: a client parked in a blocking pop
    while another client replaces, retypes, deletes, expires or flushes the key it waits on
    (directly, inside MULTI/EXEC, from a script), or pipelines commands behind its own
    blocking call, or goes away. Oracle: child alive, PING on a new connection, sentinels."""
    res = p.res
    K = b"c:blk"
    for pop in (b"BLPOP", b"BRPOP"):
        for keys in ([K], [K, b"c:blk2"], [b"c:blk2", K]):
            for path in ("direct", "multi"):
                for intr in INTRUDERS:
                    res.evaluations += 1
                    cmd = [K if x == b"K" else x for x in intr]
                    label = "%s/%s/%s/%s" % (pop.decode(), len(keys), path, intr[0].decode())
                    w = o = None
                    try:
                        o = p.srv.client(timeout=6)
                        o.cmd("DEL", K, "c:blk2")
                        o.cmd("SET", "c:str", "s")
                        w = p.srv.client(timeout=6)
                        w.send(pop, *keys, "0")
                        server.wait_loops(o, 2)
                        if path == "direct":
                            o.cmd(*cmd)
                        else:
                            o.pipeline([[b"MULTI"], cmd, [b"RPUSH", K, b"late"], [b"EXEC"]])
                        server.wait_loops(o, 3)
                        o.cmd("SELECT", "0")
                        o.cmd("DEL", K)
                        o.cmd("RPUSH", K, "v")        # serve (or not) whoever still waits
                        server.wait_loops(o, 2)
                    except (Closed, Timeout, OSError):
                        pass
                    finally:
                        for x in (w, o):
                            if x is not None:
                                x.close()
                    res.cell("blocked", pop.decode(), path, intr[0].decode())
                    if not p.srv.alive():
                        err = p.srv.stderr_text()
                        res.violation("crash/blocked-key/%s/%s" % (intr[0].decode(), first_ferrous_frame(err[-6000:])),
                                      "(%s build) server exited %s: a client waits in %s %s 0, another client runs %s (%s)\n%s" % (
                                          p.profile, p.srv.exit_status(), pop.decode(), resp.show(keys), resp.show(cmd, 40), path, err[-1500:]),
                                      {"scenario": label})
                        p.restart()
                    elif intr[0] in (b"FLUSHALL", b"FLUSHDB"):
                        try:
                            seed_all(p.c, big=True)
                            p.base = sentinel_dump(p.c)
                        except (Closed, Timeout, OSError):
                            p.restart()
            if not p.healthy():
                time.sleep(0.3)
                err = p.srv.stderr_text()
                if not p.srv.alive():
                    res.violation("crash/blocked-key/late/%s" % first_ferrous_frame(err[-6000:]),
                                  "(%s build) server exited %s after blocked-key scenarios with %s %s\n%s" % (
                                      p.profile, p.srv.exit_status(), pop.decode(), resp.show(keys), err[-1500:]))
                else:
                    res.violation("hang/blocked-key/%s" % pop.decode(), "server stopped answering after blocked-key scenarios with %s %s" % (pop.decode(), resp.show(keys)))
                p.srv.kill()
                p.restart()
    # a blocked client that keeps talking, and blocked clients that vanish
    for tail in ([[b"PING"]], [[b"BLPOP", K, b"0"]], [[b"MULTI"], [b"EXEC"]], [[b"SUBSCRIBE", b"ch"]], [[b"QUIT"]], [[b"BLPOP", K, b"0"]] * 50):
        res.evaluations += 1
        try:
            o = p.srv.client(timeout=6)
            o.cmd("DEL", K)
            w = p.srv.client(timeout=6)
            w.send_raw(resp.encode([b"BLPOP", K, b"0"]) + b"".join(resp.encode(t) for t in tail))
            server.wait_loops(o, 3)
            o.cmd("RPUSH", K, "a", "b", "c")
            server.wait_loops(o, 3)
            w.close()
            o.cmd("RPUSH", K, "d")
            server.wait_loops(o, 3)
            o.close()
        except (Closed, Timeout, OSError):
            pass
        res.cell("blocked", "talks-on", tail[0][0].decode())
        if not p.srv.alive() or not p.healthy():
            err = p.srv.stderr_text()
            res.violation("crash/blocked-client-talks/%s/%s" % (tail[0][0].decode(), first_ferrous_frame(err[-6000:])),
                          "(%s build) server exited or hung: BLPOP followed by %s on the same connection, then pushes and a disconnect\n%s" % (
                              p.profile, resp.show(tail[:2]), err[-1500:]))
            p.srv.kill()
            p.restart()
    p.check_sentinels("blocked-scenarios")


def pubsub_hostile(p):
    """Channel names, patterns and payloads at their edges while subscribers of both kinds exist
    (the bystander subscribes to channels and to patterns that start with literals, wildcards,
    classes and escapes)."""
    res = p.res
    names = [b"", b"\x00", b"*", b"?", b"[", b"]", b"[]", b"[^", b"[a-", b"\\", b"\\\\", b"a\\", b"news.", b"n", b"hello", b"h\xffllo", b"c:chan",
             b"x" * 65536, b"[" * 300, b"*" * 300 + b"b", b"\r\n", b" "]
    for nm in names:
        for argv in ([b"PUBLISH", nm, b"payload"], [b"PUBLISH", b"c:chan", nm], [b"PSUBSCRIBE", nm], [b"SUBSCRIBE", nm],
                     [b"PUBSUB", b"CHANNELS", nm], [b"PUBSUB", b"NUMSUB", nm]):
            p.attempt(argv, "pubsub/%s" % argv[0].decode(), "pubsub-edge")
            if argv[0] in (b"PSUBSCRIBE", b"SUBSCRIBE"):
                # the probing connection is a subscriber now: publish to what it subscribed, then start over
                p.attempt_on_new_connection([b"PUBLISH", nm if argv[0] == b"SUBSCRIBE" else b"news.x", b"to-the-new-subscriber"])
                try:
                    p.c.close()
                    p.c = p.srv.client(timeout=6)
                except OSError:
                    p.restart()
    p.check_sentinels("pubsub-hostile")


def non_reading_client(p):
    """A client that asks for far more reply bytes than the socket buffers hold and does not read
    them. Its replies may wait; every other client must keep being served."""
    res = p.res
    for n, what in ((300, [b"GET", b"c:big1m"]), (50, [b"LRANGE", b"c:biglist", b"0", b"-1"])):
        res.evaluations += 1
        t = None
        try:
            p.c.cmd("SET", "c:big1m", b"v" * (1 << 20))
            t = p.srv.client(timeout=6)
            t.sock.settimeout(0.5)
            try:
                t.send_raw(b"".join(resp.encode(what) for _ in range(n)))
            except (OSError, Closed):
                pass
            time.sleep(0.3)
            healthy = p.healthy(watchdog=10.0)
        finally:
            if t is not None:
                t.close()
        res.cell("flood", "non-reading-client", what[0].decode())
        if not p.srv.alive():
            err = p.srv.stderr_text()
            res.violation("crash/non-reading-client/%s" % first_ferrous_frame(err[-6000:]),
                          "(%s build) server exited %s while a client that does not read had %d x %s outstanding\n%s" % (
                              p.profile, p.srv.exit_status(), n, resp.show(what, 30), err[-1200:]))
            p.restart()
        elif not healthy:
            res.violation("hang/non-reading-client", "while one client had %d x %s outstanding and was not reading, PING on a new connection went unanswered for 10 s (retried)" % (
                n, resp.show(what, 30)))
            p.srv.kill()
            p.restart()
        try:
            p.c.cmd("DEL", "c:big1m")
        except (Closed, Timeout, OSError):
            p.restart()
    # the same client says QUIT behind its unread replies (small receive buffer, never reads, stays connected):
    # the connection is closing with output it cannot deliver - that must not hold up anybody else
    import socket as _socket
    for tail in ([b"QUIT"], [b"CLIENT", b"KILL", b"ID", b"0"], [b"*notresp"]):
        res.evaluations += 1
        raw = None
        try:
            p.c.cmd("SET", "c:big1m", b"v" * (1 << 20))
            raw = _socket.socket()
            raw.setsockopt(_socket.SOL_SOCKET, _socket.SO_RCVBUF, 8192)
            raw.settimeout(0.5)
            raw.connect(("127.0.0.1", p.srv.port))
            data = b"".join(resp.encode([b"GET", b"c:big1m"]) for _ in range(48)) + (resp.encode(tail) if tail[0][:1] != b"*" else b"*notresp\r\n")
            try:
                raw.sendall(data)
            except OSError:
                pass
            time.sleep(0.4)
            healthy = p.healthy(watchdog=10.0)
        finally:
            if raw is not None:
                raw.close()
        res.cell("flood", "closing-with-undeliverable-output", tail[0].decode("latin1"))
        if not p.srv.alive():
            err = p.srv.stderr_text()
            res.violation("crash/closing-with-output/%s" % first_ferrous_frame(err[-6000:]),
                          "(%s build) server exited %s: 48 x GET of 1 MiB + %s from a client that never reads\n%s" % (
                              p.profile, p.srv.exit_status(), resp.show(tail), err[-1200:]))
            p.restart()
        elif not healthy:
            res.violation("hang/closing-with-undeliverable-output", "a client that never reads sent 48 x GET of a 1 MiB value followed by %s and stayed connected: "
                          "PING on a new connection went unanswered for 10 s (retried)" % resp.show(tail))
            p.srv.kill()
            p.restart()
        try:
            p.c.cmd("DEL", "c:big1m")
        except (Closed, Timeout, OSError):
            p.restart()
    p.check_sentinels("non-reading-client")


def connection_flood(p):
    """More connections than the process may hold descriptors for. The descriptor limit is the
    deployment's (commonly 1024 against a default maxclients of 10000); here it is lowered on
    the running child to 160 through prlimit so that 400 sockets are enough. The listener then
    fails with EMFILE: the server may refuse or delay the surplus, but it has to survive and
    serve again once the flood is gone."""
    import resource
    import socket as _socket
    res = p.res
    for nconn, send in ((400, False), (400, True)):
        res.evaluations += 1
        old = resource.prlimit(p.srv.proc.pid, resource.RLIMIT_NOFILE)
        socks = []
        try:
            resource.prlimit(p.srv.proc.pid, resource.RLIMIT_NOFILE, (160, old[1]))
            for i in range(nconn):
                try:
                    s = _socket.create_connection(("127.0.0.1", p.srv.port), timeout=2)
                    if send:
                        s.sendall(b"*1\r\n$4\r\nPING\r\n")
                    socks.append(s)
                except OSError:
                    break
            time.sleep(0.5)
        finally:
            for s in socks:
                try:
                    s.close()
                except OSError:
                    pass
            try:
                resource.prlimit(p.srv.proc.pid, resource.RLIMIT_NOFILE, old)
            except (ProcessLookupError, OSError):
                pass
        time.sleep(0.3)
        res.cell("flood", "connections-beyond-fd-limit", "with-ping" if send else "silent")
        res.count("flood_connections_opened", len(socks))
        if not p.srv.alive():
            err = p.srv.stderr_text()
            res.violation("crash/connection-flood/%s" % first_ferrous_frame(err[-6000:]),
                          "(%s build) server exited %s when %d clients connected while its descriptor limit was 160\n%s" % (
                              p.profile, p.srv.exit_status(), len(socks), err[-1200:]))
            p.restart()
        elif not p.healthy():
            res.violation("hang/connection-flood", "server stopped answering after a flood of %d connections beyond its descriptor limit was closed again" % len(socks))
            p.srv.kill()
            p.restart()
    p.check_sentinels("connection-flood")


def frame_fuzz(p, rng, n_random):
    res = p.res
    for label, data in FRAMES:
        run_raw(p, data, "frame/" + label, label)
    split_delivery(p)
    # byte-level mutations of valid pipelines
    base = b"".join(resp.encode(a) for a in [[b"SET", b"c:tmp", b"value"], [b"LPUSH", b"c:tmpl", b"a", b"b"], [b"GET", b"c:tmp"],
                                             [b"ZADD", b"c:tmpz", b"1", b"m"], [b"HSET", b"c:tmph", b"f", b"v"], [b"PING"]])
    for i in range(n_random):
        d = bytearray(base)
        kind = rng.choice(["flip", "digit", "type", "truncate", "dup", "insert"])
        pos = rng.randrange(len(d))
        if kind == "flip":
            d[pos] ^= 1 << rng.randrange(8)
        elif kind == "digit":
            idx = [j for j, b in enumerate(d) if 48 <= b <= 57]
            j = rng.choice(idx)
            d[j:j + 1] = rng.choice([b"9999999999", b"-1", b"18446744073709551616", b"0", b""])
        elif kind == "type":
            idx = [j for j, b in enumerate(d) if b in b"*$"]
            d[rng.choice(idx)] = rng.choice(b"*$+-:_#,%~=(!|>")
        elif kind == "truncate":
            d = d[:pos]
        elif kind == "dup":
            d = d[:pos] + d[pos:pos + 20] + d[pos:]
        else:
            d[pos:pos] = bytes(rng.randrange(256) for _ in range(rng.randrange(1, 9)))
        run_raw(p, bytes(d), "mutation/" + kind, kind, quiet=True)


def run_raw(p, data, label, cls, quiet=False):
    res = p.res
    res.evaluations += 1
    t = None
    try:
        t = p.srv.client(timeout=6)
        t.sock.settimeout(20)
        try:
            t.send_raw(data)
        except Closed:
            pass
        try:
            t.drain_raw(0.05)
        except Exception:
            pass
    except OSError:
        pass
    finally:
        if t is not None:
            t.close()
    time.sleep(0.02)
    res.cell("frame", cls)
    if not p.srv.alive():
        err = p.srv.stderr_text()
        res.violation("crash/%s/%s" % (label, first_ferrous_frame(err[-6000:])), "%s (%s build): server exited %s after raw bytes %s\n%s" % (
            label, p.profile, p.srv.exit_status(), resp.show(data, 80), err[-1500:]), {"raw": resp.jsonable(data[:4096]), "len": len(data)})
        p.restart()
        return
    if not p.healthy():
        time.sleep(0.5)
        if not p.srv.alive():
            err = p.srv.stderr_text()
            res.violation("crash/%s/%s" % (label, first_ferrous_frame(err[-6000:])), "%s (%s build): server exited %s after raw bytes %s\n%s" % (
                label, p.profile, p.srv.exit_status(), resp.show(data, 80), err[-1500:]), {"raw": resp.jsonable(data[:4096]), "len": len(data)})
            p.restart()
            return
        res.violation("hang/%s" % label, "%s: after raw bytes %s the server stopped answering PING on new connections" % (label, resp.show(data, 80)))
        p.srv.kill()
        p.restart()


def script_exhaustion(binary, res, known):
    """Known by construction: scripts have no time limit. Witness it, briefly."""
    srv = server.Server(binary).start()
    try:
        c = srv.client(timeout=3)
        c.send("EVAL", "local t = {} for i = 1, 200000 do t[i] = string.rep('x', 100) end return #t", "0")
        try:
            c.recv(timeout=20)
        except (Timeout, Closed):
            pass
        res.evaluations += 1
        res.cell("script", "allocating")
        if not srv.alive():
            res.violation("crash/script-alloc", "allocating script killed the server\n" + srv.stderr_tail())
            return
        c2 = srv.client(timeout=3)
        c2.send("EVAL", "while true do end", "0")
        time.sleep(0.3)
        res.evaluations += 1
        res.cell("script", "infinite-loop")
        try:
            t = resp.Client(srv.port, timeout=3)
            r = t.cmd("PING", timeout=3)
            t.close()
        except (Timeout, Closed, OSError):
            res.violation("hang/script-infinite-loop", "EVAL 'while true do end' wedges every client (no script time limit): "
                          "PING on a new connection unanswered for 3 s")
    finally:
        srv.cleanup()


def worker(shard, binary, nshards, tier, seed, profile, extra_env=None):
    res = Result()
    rng = util.rng_for(seed, "C06", shard)
    known = util.Known()
    try:
        p = Prober(binary, res, profile, extra_env)
    except SeedingFailed:
        return res
    try:
        cases = boundary_cases()
        rotate = seed % 3
        mine = [cs for i, cs in enumerate(cases) if i % nshards == shard and (tier == "thorough" or i // nshards % 3 == rotate)]
        since = 0
        for name, argv, label, cls in mine:
            if big_reply_request(argv):
                res.count("excluded_reply_size_proportional_to_count")
                continue
            ok = p.attempt(argv, "%s/%s" % (name, label), cls)
            since += 1
            if argv[0].upper() in (b"FLUSHALL", b"FLUSHDB", b"SELECT", b"REPLICAOF", b"SLAVEOF", b"CLIENT", b"MULTI",
                                   b"UNSUBSCRIBE", b"PUNSUBSCRIBE", b"WATCH", b"EXEC", b"DISCARD"):
                # legitimate state changes: put the world back
                try:
                    p.c.close()
                    p.c = p.srv.client(timeout=6)
                    if argv[0].upper() in (b"FLUSHALL", b"FLUSHDB"):
                        seed_all(p.c, big=True)
                        p.base = sentinel_dump(p.c)
                    if argv[0].upper() in (b"REPLICAOF", b"SLAVEOF"):
                        p.c.cmd("REPLICAOF", "NO", "ONE")
                except (Closed, Timeout, OSError):
                    pass
            if since >= 64:
                p.check_sentinels("batch")
                since = 0
        p.check_sentinels("end-of-enumeration")
        res.count("boundary_cases", len(mine))
        res.extra["boundary_cases_total"] = len(cases)
        if shard == 0:
            res.sample([resp.show(cs[1], 40) for cs in mine[:5]])
        if shard % 4 == 1:
            frame_fuzz(p, rng, 150 if tier == "quick" else 3000)
            p.check_sentinels("frame-fuzz")
        if shard == 2 % nshards:
            script_exhaustion(binary, res, known)
        if shard == 3 % nshards:
            blocked_scenarios(p)
        if shard == 4 % nshards:
            connection_flood(p)
        if shard == 5 % nshards:
            non_reading_client(p)
        if shard == 6 % nshards:
            pubsub_hostile(p)
        if shard == 7 % nshards:
            orphaned_pending_scenarios(p)
    except SeedingFailed:
        pass
    finally:
        if profile == "asan":
            from .. import sanitize
            res.count("asan_evaluations", res.evaluations)
            sanitize.record(res, "C06", p.srv.stderr_text(), "asan")
        p.close()
    return res


def run(tier):
    t0 = time.time()
    seed = util.seed_from_env()
    binary, bt = server.build("dev")
    n = util.jobs()
    res = util.run_workers(worker, list(range(n)), dict(binary=binary, nshards=n, tier=tier, seed=seed, profile="dev"), nproc=n)
    if tier == "thorough":
        rbin, _ = server.build("release")
        res.merge(util.run_workers(worker, list(range(n)), dict(binary=rbin, nshards=n, tier="quick", seed=seed, profile="release"), nproc=n))
        # E5(a): the same enumeration against an AddressSanitizer build; a report block in the
        # child's log is a violation even when the process survives
        from .. import sanitize
        abin, aenv, _ = sanitize.build("asan")
        res.merge(util.run_workers(worker, list(range(n)), dict(binary=abin, nshards=n, tier="quick", seed=seed + 1, profile="asan",
                                                                extra_env=aenv), nproc=n))
    gaps = catalogue.gaps(server.REPO)
    return util.finish("C06", tier, seed, "exploration", res,
                       "boundary enumeration: every catalogue command (%d names) x every argument position x %d boundary "
                       "values (numeric edges of i64/u64/i32, exponents, nan/inf, padded, hex, non-ASCII digits, 64 KB digits, "
                       "binary) + extra trailing argument + %d directed templates against empty / 1-element / 10^4-element "
                       "values and through redis.call (quick: a seed-rotated third, thorough: all, plus a third each on the release-"
                       "semantics build and on an AddressSanitizer build); frame fuzz: %d absurd / malformed / flooding byte streams + random byte mutations of "
                       "valid pipelines; script exhaustion; oracle: child alive, PING on a new connection within 20 s "
                       "(retried), sentinel keys of every type unchanged; cell = (command, value class, outcome)" % (
                           len(catalogue.CATALOGUE), len(POOL), 0, len(FRAMES)), t0,
                       extra_cov={"catalogue_gaps": gaps},
                       assumptions=["SHUTDOWN, CLIENT PAUSE, SLEEP are excluded: exit / pause is their contract",
                                    "a blocked BLPOP/BRPOP/XREAD client is legitimate as long as other connections are served",
                                    "SRANDMEMBER with count < -10^6 is excluded: the reply size is by definition |count|"],
                       min_cells=100)

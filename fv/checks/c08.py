"""C08 — WATCH aborts EXEC whenever a watched key changed, and only then.

Exhaustive enumeration of the write catalogue x watched-key state x arrival
path, plus the no-false-abort side (other keys: same shard, other shard, same
name in another DB; pure reads of the watched key), bookkeeping cases and
expiry by deadline. The reference model decides per case whether the command
changed the watched key (dataset or TTL differs)."""
import time

from .. import server, util, resp
from ..model import Model, Err
from ..resp import OK, QUEUED, NULL_ARRAY, Closed, Timeout
from ..util import Result

W = b"watched"


def fnv_shard(key):
    h = 0xcbf29ce484222325
    for b in key:
        h ^= b
        h = (h * 0x100000001b3) & 0xFFFFFFFFFFFFFFFF
    return h % 16


def other_keys():
    same = other = None
    i = 0
    while same is None or other is None:
        k = b"other%d" % i
        if fnv_shard(k) == fnv_shard(W):
            same = same or k
        else:
            other = other or k
        i += 1
    return same, other


SAME_SHARD, OTHER_SHARD = other_keys()

# (type of the watched key the command fits, argv template with K for the key, needs helper key H)
WRITES = [
    ("string", [b"SET", "K", b"v2"]), ("string", [b"SET", "K", b"v2", b"EX", b"100"]),
    ("string", [b"SET", "K", b"v2", b"NX"]), ("string", [b"SET", "K", b"v2", b"XX"]),
    ("string", [b"SETNX", "K", b"v2"]), ("string", [b"SETEX", "K", b"100", b"v2"]),
    ("string", [b"PSETEX", "K", b"100000", b"v2"]), ("string", [b"GETSET", "K", b"v2"]),
    ("string", [b"APPEND", "K", b"x"]), ("string", [b"SETRANGE", "K", b"1", b"z"]),
    ("intstr", [b"INCR", "K"]), ("intstr", [b"DECR", "K"]), ("intstr", [b"INCRBY", "K", b"5"]),
    ("intstr", [b"DECRBY", "K", b"5"]), ("string", [b"MSET", "K", b"v2"]), ("string", [b"MSET", "H", b"x", "K", b"v2"]),
    ("list", [b"LPUSH", "K", b"x"]), ("list", [b"RPUSH", "K", b"x", b"y"]), ("list", [b"LPOP", "K"]),
    ("list", [b"RPOP", "K"]), ("list", [b"LSET", "K", b"0", b"x"]), ("list", [b"LTRIM", "K", b"0", b"0"]),
    ("list", [b"LTRIM", "K", b"5", b"9"]), ("list", [b"LREM", "K", b"0", b"a"]),
    ("list", [b"BLPOP", "K", b"1"]), ("list", [b"BRPOP", "K", b"1"]),
    ("set", [b"SADD", "K", b"x"]), ("set", [b"SREM", "K", b"a"]), ("set", [b"SPOP", "K"]),
    ("hash", [b"HSET", "K", b"f9", b"v"]), ("hash", [b"HMSET", "K", b"f9", b"v"]), ("hash", [b"HDEL", "K", b"f1"]),
    ("hash", [b"HINCRBY", "K", b"n", b"1"]),
    ("zset", [b"ZADD", "K", b"5", b"x"]), ("zset", [b"ZADD", "K", b"9", b"a"]), ("zset", [b"ZREM", "K", b"a"]),
    ("zset", [b"ZINCRBY", "K", b"1", b"a"]), ("zset", [b"ZPOPMIN", "K"]), ("zset", [b"ZPOPMAX", "K"]),
    ("stream", [b"XADD", "K", b"*", b"f", b"v"]), ("stream", [b"XADD", "K", b"9-9", b"f", b"v"]),
    ("stream", [b"XDEL", "K", b"1-1"]), ("stream", [b"XTRIM", "K", b"MAXLEN", b"0"]),
    ("any", [b"DEL", "K"]), ("any", [b"EXPIRE", "K", b"100"]), ("any", [b"EXPIRE", "K", b"0"]),
    ("any", [b"PEXPIRE", "K", b"100000"]), ("any", [b"PEXPIRE", "K", b"-1"]), ("any", [b"PERSIST", "K"]),
    ("any", [b"RENAME", "K", "H2"]), ("any", [b"RENAME", "H", "K"]), ("any", [b"RENAMENX", "H", "K"]),
    ("any", [b"RENAMENX", "K", "H2"]), ("any", [b"FLUSHDB"]), ("any", [b"FLUSHALL"]),
]
READS = [
    ("string", [b"GET", "K"]), ("string", [b"STRLEN", "K"]), ("string", [b"GETRANGE", "K", b"0", b"-1"]),
    ("list", [b"LRANGE", "K", b"0", b"-1"]), ("list", [b"LLEN", "K"]), ("set", [b"SMEMBERS", "K"]),
    ("hash", [b"HGETALL", "K"]), ("zset", [b"ZRANGE", "K", b"0", b"-1"]), ("stream", [b"XRANGE", "K", b"-", b"+"]),
    ("any", [b"TYPE", "K"]), ("any", [b"EXISTS", "K"]), ("any", [b"TTL", "K"]), ("any", [b"PTTL", "K"]),
    ("any", [b"KEYS", b"*"]), ("any", [b"DBSIZE"]),
]
SEED = {
    "string": [b"SET", "K", b"v1"],
    "intstr": [b"SET", "K", b"10"],
    "list": [b"RPUSH", "K", b"a", b"b", b"a"],
    "set": [b"SADD", "K", b"a", b"b"],
    "hash": [b"HSET", "K", b"f1", b"v1", b"n", b"5"],
    "zset": [b"ZADD", "K", b"1", b"a", b"2", b"b"],
    "stream": [b"XADD", "K", b"1-1", b"f", b"v"],
}
PATHS = ["other-conn", "same-conn", "other-exec", "script"]


def subst(t, key, h=b"helper", h2=b"helper2"):
    return [key if x == "K" else h if x == "H" else h2 if x == "H2" else x for x in t]


class Env:
    def __init__(self, binary):
        self.srv = server.Server(binary).start()
        self.a = self.srv.client()
        self.b = self.srv.client()
        self.m = Model()

    def fresh(self):
        for c in (self.a, self.b):
            if c.closed:
                raise RuntimeError("connection lost")
        self.a.cmd("UNWATCH")
        r = self.b.cmd("FLUSHALL")
        assert r == OK, r
        self.a.cmd("SELECT", 0)
        self.b.cmd("SELECT", 0)
        self.m = Model()

    def both(self, db, argv):
        """Apply on the server (conn b) and on the model."""
        exp = self.m.apply(db, argv)
        act = self.b.cmd(*argv)
        return exp, act

    def close(self):
        self.srv.cleanup()


def wstate(m, db, key):
    e = m.get(db, key)
    return (m.snapshot_key(db, key), None if e is None else e.exp)


def run_case(env, res, typ, tmpl, state, path, target, known):
    """target: 'watched' | 'same-shard' | 'other-shard' | 'other-db' | 'read'."""
    env.fresh()
    a, b, m = env.a, env.b, env.m
    name = tmpl[0].decode()
    seedtype = typ if typ != "any" else "string"
    tkey = {"watched": W, "read": W, "same-shard": SAME_SHARD, "other-shard": OTHER_SHARD, "other-db": W}[target]
    wdb = 0
    cdb = 1 if target == "other-db" else 0          # DB in which the command runs
    # helper source key for RENAME-onto cases
    if cdb:
        b.cmd("SELECT", cdb)
    env.both(cdb, [b"SET", b"helper", b"hv"])
    # pre-state of the key the command addresses (and of W when different)
    if state in ("present", "ttl"):
        env.both(cdb, subst(SEED[seedtype], tkey))
        if state == "ttl":
            env.both(cdb, [b"EXPIRE", tkey, b"1000"])
    if (tkey, cdb) != (W, wdb):
        if cdb:
            b.cmd("SELECT", wdb)
        env.both(wdb, subst(SEED["string"], W))
        if cdb:
            b.cmd("SELECT", cdb)
    r = a.cmd("WATCH", W)
    if r != OK:
        res.violation("watch-reply/%s" % name, "WATCH replied %r" % (r,))
        return
    before = wstate(m, wdb, W)
    argv = subst(tmpl, tkey)
    model_reply = m.apply(cdb, argv)
    after = wstate(m, wdb, W)
    # carry the command out through the chosen path
    if path == "other-conn":
        act = b.cmd(*argv)
        effective = not isinstance(act, Err)
    elif path == "same-conn":
        if cdb:
            a.cmd("SELECT", cdb)
        act = a.cmd(*argv)
        if cdb:
            a.cmd("SELECT", wdb)
        effective = not isinstance(act, Err)
    elif path == "other-exec":
        b.cmd("MULTI")
        q = b.cmd(*argv)
        act = b.cmd("EXEC")
        effective = q == QUEUED and isinstance(act, list) and len(act) == 1 and not isinstance(act[0], Err)
    else:
        act = b.cmd("EVAL", "return redis.call(unpack(ARGV))", "0", *argv)
        effective = not isinstance(act, Err)
    if cdb:
        b.cmd("SELECT", wdb)
    if not effective and not isinstance(model_reply, Err):
        # the path cannot carry this command (e.g. not available to scripts): nothing to judge
        res.count("path_unavailable")
        res.setadd("path_unavailable_cases", "%s/%s" % (name, path))
        a.cmd("UNWATCH")
        return
    res.evaluations += 1
    r1 = a.cmd("MULTI")
    r2 = a.cmd("SET", b"marker", b"1")
    ex = a.cmd("EXEC")
    marker = b.cmd("GET", b"marker")
    aborted = ex is NULL_ARRAY
    executed = isinstance(ex, list) and len(ex) == 1 and ex[0] == OK
    sigtail = "%s/%s/%s" % (name + ("+" + argv[-1].decode("latin1") if name in ("SET",) and len(argv) > 3 else ""), state, path)
    changed = before != after
    touched_watched = target == "watched"
    detail = "watched key %r state=%s; %s via %s -> %s; then MULTI/SET marker/EXEC -> %s (MULTI %r, queue %r), marker=%r; model: watched key %s" % (
        W, state, resp.show(argv), path, resp.show(act), resp.show(ex), r1, r2, marker,
        "CHANGED %s -> %s" % (resp.show(list(before[0])), resp.show(list(after[0]))) if changed else "unchanged")
    if not (aborted or executed):
        res.violation("exec-reply/" + sigtail, detail)
        return
    if aborted and marker is not None:
        res.violation("effect-after-abort/" + sigtail, detail)
        return
    if executed and marker != b"1":
        res.violation("no-effect-after-exec/" + sigtail, detail)
        return
    cls = "changed" if changed else ("noop-on-watched" if touched_watched else target)
    res.cell(name, typ, state, path, cls, "abort" if aborted else "exec")
    if changed and not aborted:
        res.violation("no-abort/" + sigtail, detail)
    elif not changed and not touched_watched and aborted:
        res.violation("false-abort/%s/%s/%s" % (name, target, path), detail)
    # unchanged but addressed to the watched key (no-op write): don't-care


def bookkeeping(env, res):
    a, b = env.a, env.b

    def case(name, steps, expect_exec):
        env.fresh()
        b.cmd("SET", W, "v1")
        for s in steps:
            (a if s[0] == "a" else b).cmd(*s[1])
        a.cmd("MULTI")
        a.cmd("SET", "marker", "1")
        ex = a.cmd("EXEC")
        a.cmd("SELECT", "0")
        b.cmd("SELECT", "0")
        res.evaluations += 1
        res.cell("bookkeeping", name)
        executed = isinstance(ex, list)
        if executed != expect_exec:
            res.violation("stale-watch/" + name if not expect_exec is False and not executed else "bookkeeping/" + name,
                          "%s: steps %s then MULTI/SET/EXEC -> %s, expected %s" % (
                              name, resp.show([s[1] for s in steps]), resp.show(ex), "execution" if expect_exec else "nil"))
    case("unwatch-forgets", [("a", ["WATCH", W]), ("b", ["SET", W, "x"]), ("a", ["UNWATCH"])], True)
    case("exec-forgets", [("a", ["WATCH", W]), ("b", ["SET", W, "x"]), ("a", ["MULTI"]), ("a", ["EXEC"])], True)
    case("discard-forgets", [("a", ["WATCH", W]), ("b", ["SET", W, "x"]), ("a", ["MULTI"]), ("a", ["DISCARD"])], True)
    case("multi-keys-second-changed", [("a", ["WATCH", "o1", W, "o2"]), ("b", ["SET", W, "x"])], False)
    case("multi-keys-none-changed", [("a", ["WATCH", "o1", W, "o2"]), ("b", ["SET", "o3", "x"])], True)
    case("two-watch-calls", [("a", ["WATCH", "o1"]), ("a", ["WATCH", W]), ("b", ["SET", W, "x"])], False)
    case("change-before-watch", [("b", ["SET", W, "x"]), ("a", ["WATCH", W])], True)
    case("rewatch-after-change", [("a", ["WATCH", W]), ("b", ["SET", W, "x"]), ("a", ["UNWATCH"]), ("a", ["WATCH", W])], True)
    # a key watched twice keeps its first baseline
    case("watch-twice-change-between", [("a", ["WATCH", W]), ("b", ["SET", W, "x"]), ("a", ["WATCH", W])], False)
    case("watch-twice-change-after", [("a", ["WATCH", W]), ("a", ["WATCH", W]), ("b", ["SET", W, "x"])], False)
    case("watch-twice-no-change", [("a", ["WATCH", W]), ("a", ["WATCH", W]), ("b", ["SET", "o3", "x"])], True)
    case("watch-twice-in-one-call", [("a", ["WATCH", W, W]), ("b", ["SET", W, "x"])], False)
    # the watch belongs to the database selected at WATCH time
    case("select-after-watch", [("a", ["WATCH", W]), ("a", ["SELECT", "1"]), ("b", ["SET", W, "x"])], False)
    case("select-after-watch-del", [("a", ["WATCH", W]), ("a", ["SELECT", "5"]), ("b", ["DEL", W])], False)
    case("select-after-watch-change-in-new-db", [("a", ["WATCH", W]), ("a", ["SELECT", "1"]), ("b", ["SELECT", "1"]),
                                                  ("b", ["SET", W, "x"])], True)
    case("select-after-watch-no-change", [("a", ["WATCH", W]), ("a", ["SELECT", "1"])], True)
    case("select-away-and-back", [("a", ["WATCH", W]), ("a", ["SELECT", "1"]), ("b", ["SET", W, "x"]), ("a", ["SELECT", "0"])], False)
    case("same-name-two-dbs-second-changed", [("a", ["WATCH", W]), ("a", ["SELECT", "1"]), ("a", ["WATCH", W]),
                                               ("b", ["SELECT", "1"]), ("b", ["SET", W, "x"])], False)
    case("same-name-two-dbs-first-changed", [("a", ["WATCH", W]), ("a", ["SELECT", "1"]), ("a", ["WATCH", W]),
                                              ("b", ["SET", W, "x"])], False)
    case("watch-in-db1-change-in-db0", [("a", ["SELECT", "1"]), ("a", ["WATCH", W]), ("b", ["SET", W, "x"])], True)
    case("watch-in-db1-change-in-db1", [("a", ["SELECT", "1"]), ("a", ["WATCH", W]), ("b", ["SELECT", "1"]), ("b", ["SET", W, "x"])], False)
    # another watcher of the same key going away must not take this one's watch along
    for how, steps in (("unwatches", [["UNWATCH"]]), ("execs", [["MULTI"], ["EXEC"]]), ("discards", [["MULTI"], ["DISCARD"]]),
                       ("watches-again", [["WATCH", W]])):
        env.fresh()
        b.cmd("SET", W, "v1")
        c = env.srv.client()
        a.cmd("WATCH", W)
        c.cmd("WATCH", W)
        for st in steps:
            c.cmd(*st)
        b.cmd("SET", W, "x")
        a.cmd("MULTI")
        a.cmd("SET", "marker", "1")
        ex = a.cmd("EXEC")
        c.close()
        res.evaluations += 1
        res.cell("bookkeeping", "other-watcher-" + how)
        if ex is not NULL_ARRAY:
            res.violation("no-abort/other-watcher-" + how, "A WATCH k; C WATCH k; C %s; B SET k; A MULTI/SET/EXEC -> %s, expected nil" % (
                resp.show(steps), resp.show(ex)))
    for how in ("disconnects",):
        env.fresh()
        b.cmd("SET", W, "v1")
        c = env.srv.client()
        a.cmd("WATCH", W)
        c.cmd("WATCH", W)
        c.close()
        server.wait_loops(b, 3)
        b.cmd("SET", W, "x")
        a.cmd("MULTI")
        a.cmd("SET", "marker", "1")
        ex = a.cmd("EXEC")
        res.evaluations += 1
        res.cell("bookkeeping", "other-watcher-" + how)
        if ex is not NULL_ARRAY:
            res.violation("no-abort/other-watcher-" + how, "A WATCH k; C WATCH k; C disconnects; B SET k; A EXEC -> %s, expected nil" % resp.show(ex))
    # WATCH inside MULTI is an error and does not watch
    env.fresh()
    a.cmd("MULTI")
    r = a.cmd("WATCH", W)
    a.cmd("DISCARD")
    res.evaluations += 1
    res.cell("bookkeeping", "watch-inside-multi")
    if not isinstance(r, Err):
        res.violation("bookkeeping/watch-inside-multi", "WATCH inside MULTI replied %r" % (r,))
    # two watchers on the same key: both must abort
    env.fresh()
    c = env.srv.client()
    a.cmd("WATCH", W)
    c.cmd("WATCH", W)
    b.cmd("SET", W, "x")
    outs = []
    for cl in (a, c):
        cl.cmd("MULTI")
        cl.cmd("SET", "marker", "1")
        outs.append(cl.cmd("EXEC"))
    c.close()
    res.evaluations += 1
    res.cell("bookkeeping", "two-watchers")
    if not all(o is NULL_ARRAY for o in outs):
        res.violation("no-abort/two-watchers", "two connections watching %r, SET by a third: EXEC replies %s" % (W, resp.show(outs)))


def observed_cases(env, res):
    """Model-free cases: whether the watched key changed is OBSERVED (canonical snapshot + PTTL before and
    after through a third connection). (i) commands that exist only behind redis.call (the script executor
    knows SETBIT and the ZREMRANGEBY* family, the dispatch table does not); (ii) conditional writes whose
    condition fails - the reply says 'nothing done' and the key is unchanged, so EXEC must go through
    ('... and only then'; unlike the no-op writes left as don't-cares, Redis does not signal these)."""
    from ..diff import server_key_snapshot
    a, b = env.a, env.b
    obs = env.srv.client()

    def case(tag, setup, watched, action_paths, must):
        for path, action in action_paths:
            env.fresh()
            for s in setup:
                b.cmd(*s)
            before = (server_key_snapshot(obs, watched), obs.cmd("PTTL", watched))
            a.cmd("WATCH", watched)
            if path == "other-conn":
                r = b.cmd(*action)
            elif path == "other-exec":
                r = b.pipeline([[b"MULTI"], action, [b"EXEC"]])[-1]
            else:
                r = b.cmd(b"EVAL", b"return redis.call(unpack(ARGV))", b"0", *action)
            after = (server_key_snapshot(obs, watched), obs.cmd("PTTL", watched))
            a.cmd("MULTI")
            a.cmd("SET", "marker", "1")
            ex = a.cmd("EXEC")
            changed = before[0] != after[0] or (before[1] < 0) != (after[1] < 0)
            res.evaluations += 1
            res.cell("observed", tag, path, "changed" if changed else "unchanged")
            if must == "abort" and not changed:
                res.inconclusive.append("observed case %s/%s: the action did not change the key (reply %s)" % (tag, path, resp.show(r)))
            elif must == "abort" and ex is not NULL_ARRAY:
                res.violation("no-abort/%s/%s" % (tag, path), "WATCH %s; %s via %s changed it (%s -> %s); EXEC -> %s, expected nil" % (
                    resp.show(watched), resp.show(action, 40), path, resp.show(list(before[0]), 30), resp.show(list(after[0]), 30), resp.show(ex)))
            elif must == "exec" and changed:
                res.inconclusive.append("observed case %s/%s: the refused write changed the key?! %s -> %s" % (tag, path, before, after))
            elif must == "exec" and ex is NULL_ARRAY:
                res.violation("false-abort/%s/%s" % (tag, path), "WATCH %s; %s via %s was refused (reply %s) and left the key as it was; EXEC -> nil, expected execution" % (
                    resp.show(watched), resp.show(action, 40), path, resp.show(r)))

    zs = [[b"ZADD", W, b"1", b"a", b"2", b"b", b"3", b"c", b"3", b"d"]]
    sc = lambda *x: [("script", list(x))]
    case("ZREMRANGEBYRANK-partial", zs, W, sc(b"ZREMRANGEBYRANK", W, b"0", b"0"), "abort")
    case("ZREMRANGEBYRANK-all", zs, W, sc(b"ZREMRANGEBYRANK", W, b"0", b"-1"), "abort")
    case("ZREMRANGEBYSCORE-partial", zs, W, sc(b"ZREMRANGEBYSCORE", W, b"2", b"3"), "abort")
    case("ZREMRANGEBYSCORE-all", zs, W, sc(b"ZREMRANGEBYSCORE", W, b"-inf", b"+inf"), "abort")
    # (ZREMRANGEBYLEX is a stub in the script executor: it never removes anything, so there is nothing to watch)
    case("SETBIT-existing", [[b"SET", W, b"v"]], W, sc(b"SETBIT", W, b"7", b"1"), "abort")
    case("SETBIT-creates", [], W, sc(b"SETBIT", W, b"9", b"1"), "abort")
    every = lambda *x: [(pth, list(x)) for pth in ("other-conn", "other-exec", "script")]
    case("SET-NX-refused", [[b"SET", W, b"v"]], W, every(b"SET", W, b"other", b"NX"), "exec")
    case("SET-NX-EX-refused", [[b"SET", W, b"v"]], W, every(b"SET", W, b"other", b"NX", b"EX", b"100"), "exec")
    case("SET-XX-refused", [], W, every(b"SET", W, b"other", b"XX"), "exec")
    case("SETNX-refused", [[b"SET", W, b"v"]], W, every(b"SETNX", W, b"other"), "exec")
    case("RENAMENX-refused-destination", [[b"SET", W, b"v"], [b"SET", b"helper", b"h"]], W, every(b"RENAMENX", b"helper", W), "exec")
    case("RENAMENX-refused-source", [[b"SET", W, b"v"], [b"SET", b"helper", b"h"]], W, every(b"RENAMENX", W, b"helper"), "exec")
    case("SET-NX-on-list-refused", [[b"RPUSH", W, b"x"]], W, every(b"SET", W, b"other", b"NX"), "exec")
    obs.close()


def counter_drift(env, res, cycles):
    """Many WATCH/EXEC cycles on one long-lived server, alternating changed / unchanged."""
    a, b = env.a, env.b
    env.fresh()
    bad = 0
    for i in range(cycles):
        a.cmd("WATCH", W)
        change = i % 3 == 0
        if change:
            b.cmd("INCR", W)
        a.cmd("MULTI")
        a.cmd("PING")
        ex = a.cmd("EXEC")
        if (ex is NULL_ARRAY) != change:
            bad += 1
            if bad == 1:
                res.violation("no-abort/cycle" if change else "false-abort/cycle",
                              "cycle %d of WATCH/[INCR by another connection]/MULTI/PING/EXEC: changed=%s EXEC -> %s" % (
                                  i, change, resp.show(ex)))
    res.evaluations += cycles
    res.cell("drift", "cycles")
    res.count("watch_cycles", cycles)


def expiry_cases(env, res):
    """The watched key expiring by deadline: untouched (swept), lazily deleted by a
    GET of another client, or merely past its deadline at EXEC time."""
    a, b = env.a, env.b
    for how in ("swept", "lazy-get", "untouched"):
        env.fresh()
        b.cmd("SET", W, "v1", "PX", "120")
        a.cmd("WATCH", W)
        passes0 = b.cmd("VERIF", "SWEEPER", "PASSES")
        time.sleep(0.2)
        if how == "lazy-get":
            g = b.cmd("GET", W)
        elif how == "swept":
            t_end = time.monotonic() + 5
            while b.cmd("VERIF", "SWEEPER", "PASSES") < passes0 + 2 and time.monotonic() < t_end:
                time.sleep(0.05)
        a.cmd("MULTI")
        a.cmd("SET", "marker", "1")
        ex = a.cmd("EXEC")
        res.evaluations += 1
        res.cell("expiry", how)
        if ex is not NULL_ARRAY:
            res.violation("no-abort/expired/" + how,
                          "watched key with PX 120 expired (%s) before EXEC, yet EXEC -> %s" % (how, resp.show(ex)))
    # a key with a long TTL that did not expire must not abort
    env.fresh()
    b.cmd("SET", W, "v1", "EX", "1000")
    a.cmd("WATCH", W)
    time.sleep(0.05)
    a.cmd("MULTI")
    a.cmd("PING")
    ex = a.cmd("EXEC")
    res.evaluations += 1
    res.cell("expiry", "not-expired")
    if not isinstance(ex, list):
        res.violation("false-abort/ttl-not-expired", "watched key with EX 1000 untouched, EXEC -> %s" % resp.show(ex))


def served_blocking_pop(env, res):
    a, b = env.a, env.b
    for cmdname in ("BLPOP", "BRPOP"):
        env.fresh()
        c = env.srv.client()
        a.cmd("WATCH", W)
        c.send(cmdname, W, "0")
        server.wait_loops(b, 5)
        b.cmd("RPUSH", W, "e1")
        got = c.recv(timeout=5)
        a.cmd("MULTI")
        a.cmd("SET", "marker", "1")
        ex = a.cmd("EXEC")
        c.close()
        res.evaluations += 1
        res.cell("served-blocking-pop", cmdname)
        if ex is not NULL_ARRAY:
            res.violation("no-abort/served-%s" % cmdname,
                          "watched list pushed to and popped by a blocked %s (got %s): EXEC -> %s" % (
                              cmdname, resp.show(got), resp.show(ex)))


def worker(shard, binary, nshards, tier):
    res = Result()
    known = util.Known()
    env = Env(binary)
    try:
        cases = []
        for typ, tmpl in WRITES:
            for state in ("absent", "present", "ttl"):
                for path in PATHS:
                    cases.append((typ, tmpl, state, path, "watched"))
            for target in ("same-shard", "other-shard", "other-db"):
                for path in ("other-conn", "other-exec", "script"):
                    cases.append((typ, tmpl, "present", path, target))
        for typ, tmpl in READS:
            for state in ("absent", "present", "ttl"):
                for path in ("other-conn", "same-conn", "other-exec"):
                    cases.append((typ, tmpl, state, path, "read"))
        for i, cs in enumerate(cases):
            if i % nshards != shard:
                continue
            # FLUSHDB/FLUSHALL/KEYS/DBSIZE have no key argument: only meaningful as 'watched'/'read'
            if cs[4] in ("same-shard", "other-shard") and "K" not in cs[1]:
                continue
            if cs[1][0] in (b"BLPOP", b"BRPOP") and cs[2] == "absent":
                continue  # would block; blocking inside EXEC/scripts is C13/C05 territory
            try:
                run_case(env, res, *cs, known)
            except (Closed, Timeout, RuntimeError, AssertionError) as e:
                res.inconclusive.append("case %s: harness/connection problem %r" % (resp.show(cs[1]), e))
                env.close()
                env = Env(binary)
        res.count("cases_enumerated", len([1 for i in range(len(cases)) if i % nshards == shard]))
        if shard == 0:
            bookkeeping(env, res)
            served_blocking_pop(env, res)
        if shard == 3 % nshards:
            observed_cases(env, res)
        if shard == 1 % nshards:
            expiry_cases(env, res)
        if shard == 2 % nshards:
            counter_drift(env, res, 10000 if tier == "quick" else 100000)
        res.sample("WATCH watched; [other-conn] LPUSH watched x; MULTI; SET marker 1; EXEC -> must be nil")
    finally:
        env.close()
    return res


def run(tier):
    t0 = time.time()
    seed = util.seed_from_env()
    binary, bt = server.build("dev")
    n = util.jobs()
    res = util.run_workers(worker, list(range(n)), dict(binary=binary, nshards=n, tier=tier), nproc=n)
    # shard index = worker seed
    return util.finish("C08", tier, seed, "exploration", res,
                       "exhaustive enumeration of the server's write catalogue (%d command forms) x watched key "
                       "{absent, present, present with TTL} x path {other connection, watching connection, inside "
                       "another connection's EXEC, inside a script} + the same commands on other keys (same shard, "
                       "other shard, same name in DB 1) and %d read forms for the no-false-abort side + bookkeeping, "
                       "served blocking pops, expiry by deadline (swept / lazy / untouched), 10^4 WATCH/EXEC cycles; "
                       "the model decides 'changed' (dataset or TTL differs); no-op writes on the watched key are "
                       "don't-care; cell = (command, type, state, path, relation, outcome)" % (len(WRITES), len(READS)),
                       t0, extra_cov={"exhaustive": True, "write_forms": len(WRITES)},
                       assumptions=["reference model decides whether a command changed the watched key",
                                    "paths that cannot carry a command (error reply) are counted, not judged"],
                       min_cells=50)

"""C20 — the RESP codec round-trips and is independent of how bytes are chunked.

In-process harness (rs/src/bin/codec.rs): round trip of random frame trees,
chunking independence (every single split point, byte-at-a-time, random
multi-splits), totality over all short strings of the protocol alphabet with a
counting allocator (largest single allocation <= 64 x bytes received + 64 KB),
absurd lengths and deep nesting in child processes; Miri on a subset (thorough)."""
import time

from .. import server, util, rsbin
from ..util import Result


def run(tier):
    t0 = time.time()
    seed = util.seed_from_env()
    bt = rsbin.build()
    n = util.jobs()
    budget = 15 if tier == "quick" else 120
    # one process enumerates the short-string space (tier decides how far), the others spend their budget on
    # random trees / streams / mutations with different seeds
    args = [(seed * 1000 + i, budget, tier if i == 0 else "quick") for i in range(n)]
    res = util.run_workers(rsbin.worker, args, dict(name="codec", extra_args=[], timeout=budget * 6 + 240), nproc=n)
    if tier == "thorough":
        res.merge(util.run_workers(rsbin.miri_worker, [seed * 100 + i for i in range(4)], dict(name="codec"), nproc=4))
    res.extra["build_s"] = round(bt, 1)
    return util.finish("C20", tier, seed, "exploration", res,
                       "in-process: (a) parse(serialize(f)) == (f, len) for random frame trees over every RespFrame variant "
                       "(depth <= 6, widths 0-40, binary / empty / 1 MiB payloads, i64 edges, doubles by bit pattern) with "
                       "the one-shot parser and the incremental parser; (b) identical frame/error sequences for whole feed, "
                       "EVERY single split offset, byte-at-a-time, split pairs and random multi-splits of concatenated "
                       "frames with malformed tails; (c) totality: all strings up to length 5 (quick) / 6 (thorough) over a "
                       "14-symbol protocol alphabet and up to length 4 over 24 symbols, mutated frames, absurd declared "
                       "lengths, 10^5-deep nesting (child process, 8 MB stack), each under catch_unwind with a counting "
                       "global allocator: no panic and largest single allocation <= 64 x bytes fed + 64 KB; "
                       "cell = (oracle, frame variant / construct class, outcome)", t0,
                       extra_cov={"exhaustive": True},
                       assumptions=["NoResponse is an internal marker the serializer refuses by design (checked, excluded from round trip)",
                                    "simple strings and errors range over bytes without CR/LF (the type's domain)"],
                       min_cells=30)

"""C12 — scripts are atomic and redis.call means the same as the direct command.

A. twin differential: two children driven in lock-step from the same generator;
   command c is sent directly to A and as EVAL "return redis.call(unpack(ARGV))"
   (and pcall, and with the key passed through KEYS, and through EVALSHA) to B;
   reply_B must be the standard Lua round trip of reply_A and the touched keys
   must be equal after every step, the full dumps at the end.
B. script semantics table: literal scripts with prescribed replies (return
   shapes, call/pcall error behaviour, KEYS/ARGV byte-for-byte for all 256 byte
   values and lengths up to 64 KB, EVALSHA == EVAL in every DB).
C. sandbox: scripts reaching for the file system / process / blocking and
   connection commands must fail, a canary file stays untouched, child alive.
D. atomicity: scripts with a busy loop between two writes vs single-command
   readers."""
import hashlib
import os
import re
import signal
import threading
import time

from .. import server, util, resp, gen
from ..diff import server_key_snapshot, snap_equal
from ..model import Model, Err, rclass, parse_score_reply
from ..resp import Status, OK, NULL_ARRAY, Closed, Timeout
from ..util import Result
from .c18 import gen_any

CALL = b"return redis.call(unpack(ARGV))"
PCALL = b"return redis.pcall(unpack(ARGV))"
CALLK = b"local a = {} for i, v in ipairs(ARGV) do a[i] = v end table.insert(a, 2, KEYS[1]) return redis.call(unpack(a))"
NONDET = {b"SPOP", b"SRANDMEMBER", b"RANDOMKEY", b"FLUSHALL", b"BLPOP", b"BRPOP", b"KEYS", b"SMEMBERS", b"HGETALL", b"HKEYS", b"HVALS",
          b"SUNION", b"SINTER", b"SDIFF", b"SCAN", b"HSCAN", b"SSCAN", b"ZSCAN", b"TTL", b"PTTL", b"XINFO"}
UNORDERED = {b"KEYS", b"SMEMBERS", b"HKEYS", b"HVALS", b"SUNION", b"SINTER", b"SDIFF"}


def lua_round_trip(r):
    """reply -> Lua (standard RESP->Lua) -> reply (standard Lua->RESP)."""
    if r is NULL_ARRAY or r is None:
        return None
    if isinstance(r, list):
        return [lua_round_trip(x) for x in r]
    return r


def norm_fields(r):
    """Stream entries [id, [f, v, ...]]: the field order inside an entry is not compared."""
    if isinstance(r, list):
        if len(r) == 2 and isinstance(r[0], bytes) and isinstance(r[1], list) and len(r[1]) % 2 == 0 and r[0][:1].isdigit() and b"-" in r[0] \
                and all(isinstance(x, bytes) for x in r[1]):
            return [r[0], sorted((r[1][i], r[1][i + 1]) for i in range(0, len(r[1]), 2))]
        return [norm_fields(x) for x in r]
    return r


def equal_mod_error(a, b):
    if isinstance(a, Err) or isinstance(b, Err):
        return isinstance(a, Err) and isinstance(b, Err)
    if isinstance(a, list) and isinstance(b, list):
        return len(a) == len(b) and all(equal_mod_error(x, y) for x, y in zip(a, b))
    if isinstance(a, Status) or isinstance(b, Status):
        return isinstance(a, Status) and isinstance(b, Status) and a.s == b.s
    if isinstance(a, int) and isinstance(b, int) and not isinstance(a, bool) and abs(a) > 2 ** 53:
        # Lua 5.1 numbers are doubles: integers beyond 2^53 come back rounded (as in Redis)
        return float(a) == float(b) or (abs(a) >= 2 ** 63 - 1024 and abs(b) >= 2 ** 63 - 1024 and (a < 0) == (b < 0))
    return a == b and type(a) == type(b)


def shape(r):
    if isinstance(r, list):
        return "array"
    return rclass(r)


def twin_history(a_srv, b_srv, rng, res, hn, known):
    ca = a_srv.client(timeout=15)
    cb = b_srv.client(timeout=15)
    m = Model()
    sha = {}
    hist = []
    try:
        for c in (ca, cb):
            c.cmd("FLUSHALL")
        db = 0
        if rng.random() < 0.4:
            db = rng.choice([1, 2, 9, 15])
            ca.cmd("SELECT", db)
            cb.cmd("SELECT", db)
        for argv in gen.seed_commands(rng):
            ca.cmd(*argv)
            cb.cmd(*argv)
            m.apply(db, argv)
        for step in range(rng.randrange(15, 80)):
            a = gen_any(rng, m, db)
            name = a[0].upper()
            if name in NONDET or (name == b"XADD" and len(a) > 2 and a[2] == b"*") or (name == b"XTRIM" and b"~" in a) or len(a) > 7900:
                continue
            via = rng.choice(["call", "call", "pcall", "keys", "evalsha"])
            if via == "keys" and len(a) < 2:
                via = "call"
            try:
                m.apply(db, a)
            except Exception:
                pass
            ra = ca.cmd(*a)
            if via == "call":
                rb = cb.cmd(b"EVAL", CALL, b"0", *a)
            elif via == "pcall":
                rb = cb.cmd(b"EVAL", PCALL, b"0", *a)
            elif via == "keys":
                rb = cb.cmd(b"EVAL", CALLK, b"1", a[1], a[0], *a[2:])
            else:
                if CALL not in sha:
                    sha[CALL] = cb.cmd(b"SCRIPT", b"LOAD", CALL)
                rb = cb.cmd(b"EVALSHA", sha[CALL], b"0", *a)
            hist.append("%s %s" % (via, resp.show(a, 30)))
            res.evaluations += 1
            cmdname = name.decode("latin1")
            binary = any(any(c > 126 or c < 32 for c in x) for x in a[1:])
            res.cell("twin", via, cmdname, shape(ra))
            want = norm_fields(lua_round_trip(ra))
            rb = norm_fields(rb)
            if name in (b"ZPOPMIN", b"ZPOPMAX", b"XREAD") and want in (None, []) and rb in (None, [], NULL_ARRAY):
                # an empty pop / read is nil or an empty array depending on the version (DONTCARE)
                continue
            if isinstance(ra, list) and name in UNORDERED:
                same = isinstance(rb, list) and sorted(map(repr, want)) == sorted(map(repr, rb))
            else:
                same = equal_mod_error(want, rb)
            if not same:
                # classify the divergence by reply shapes, not by values
                if isinstance(ra, Status) and rb == ra.s:
                    sig = "reply/status-as-bulk"
                elif isinstance(ra, Err) and via == "pcall" and rb is None:
                    sig = "reply/pcall-error-as-nil"
                elif isinstance(want, list) and isinstance(rb, list) and None in want and len(rb) < len(want) and rb == want[:len(rb)]:
                    sig = "reply/array-cut-at-nil"
                elif binary and not isinstance(ra, Err) and not isinstance(rb, Err):
                    sig = "reply/binary-argument/%s" % shape(ra)
                elif isinstance(ra, Err) != isinstance(rb, Err):
                    sig = "reply/%s/%s-vs-%s" % (cmdname, "refused-directly" if isinstance(ra, Err) else "accepted-directly",
                                                   "refused-in-script" if isinstance(rb, Err) else "accepted-in-script")
                else:
                    sig = "reply/%s/%s-vs-%s" % (cmdname, shape(ra), shape(rb))
                _report(res, known, sig, "direct %s -> %s; via %s -> %s (expected %s after the standard conversion)\nrecent: %s" % (
                    resp.show(a, 40), resp.show(ra, 40), via, resp.show(rb, 40), resp.show(want, 40), "; ".join(hist[-6:])), hist)
                if not (known.is_known("C12", sig) and sig in ("reply/status-as-bulk", "reply/array-cut-at-nil")):
                    return
                # a known divergence of the reply shape only: the datasets are still in step, the history goes on
            # effects: the touched keys must be equal on both servers
            for k in set(a[1:3]):
                sa = server_key_snapshot(ca, k)
                sb = server_key_snapshot(cb, k)
                if not snap_equal(sa, sb) and not (sa[0] == "zset" and sa == sb):
                    sig = "state/binary-argument" if binary else "state/%s" % cmdname
                    _report(res, known, sig, "after %s (direct) / via %s: key %s is %s on the direct server, %s on the script server\nrecent: %s" % (
                        resp.show(a, 40), via, resp.show(k), resp.show(list(sa), 40), resp.show(list(sb), 40), "; ".join(hist[-6:])), hist)
                    return
        if hn <= 2:
            res.sample(hist[:8])
    finally:
        ca.close()
        cb.close()


def _report(res, known, sig, detail, hist=None):
    if known.is_known("C12", sig):
        res.known_hit(sig)
    else:
        res.violation(sig, detail, {"history": hist[-60:] if hist else None})


# --------------------------------------------------------------------------- B
def semantics_table(srv, res, known, rng):
    c = srv.client(timeout=30)
    c.cmd("FLUSHALL")

    def ev(script, keys=(), args=()):
        return c.cmd(b"EVAL", script if isinstance(script, bytes) else script.encode(), b"%d" % len(keys), *keys, *args)

    def expect(tag, script, want, keys=(), args=(), pred=None):
        got = ev(script, keys, args)
        res.evaluations += 1
        res.cell("table", tag)
        ok = pred(got) if pred else (got == want and type(got) == type(want)) or (want is None and got is None) or \
            (isinstance(want, Err) and isinstance(got, Err)) or (isinstance(want, Status) and got == want)
        if not ok:
            _report(res, known, "table/%s" % tag, "EVAL %r -> %s, prescribed %s" % (script if isinstance(script, str) else script[:80], resp.show(got, 40),
                                                                                  resp.show(want, 40) if not isinstance(want, Err) else "an error"))
        return got
    # return shapes
    expect("return-nil", "return nil", None)
    expect("return-true", "return true", 1)
    expect("return-false", "return false", None)
    expect("return-integer", "return 3", 3)
    expect("return-float-truncates", "return 3.7", 3)
    expect("return-negative-float-truncates", "return -3.7", -3)
    expect("return-2^53", "return 9007199254740992", 9007199254740992)
    expect("return-string", "return 'abc'", b"abc")
    expect("return-binary-string", "return '\\0\\255\\r\\n'", b"\x00\xff\r\n")
    expect("return-empty-table", "return {}", [])
    expect("return-array", "return {1,2,3}", [1, 2, 3])
    expect("return-array-stops-at-nil", "return {1,nil,3}", [1])
    expect("return-nested", "return {1,{2,'x',{3}},'y'}", [1, [2, b"x", [3]], b"y"])
    expect("return-err-table", "return {err='MYERR boom'}", Err())
    expect("return-ok-table", "return {ok='FINE'}", Status(b"FINE"))
    expect("return-status-of-call", "return redis.call('SET','t:k','v')", OK)
    expect("call-status-is-table", "local r = redis.call('SET','t:k','v') return {type(r), type(r)=='table' and r.ok or r}", [b"table", b"OK"])
    expect("call-nil-is-false", "local r = redis.call('GET','t:missing') return {type(r), r == false and 1 or 0}", [b"boolean", 1])
    expect("call-integer", "return redis.call('INCR','t:n')", 1)
    expect("call-array-with-nil", "redis.call('SET','t:a','1') return redis.call('MGET','t:a','t:missing','t:a')", [b"1", None, b"1"])
    # Lua numbers handed to redis.call: the command must see the number itself - an integer-valued number as
    # its plain decimal digits (what a client would send), any other as text that parses back to the same double
    for tag, lit, digits in (("small", "42", b"42"), ("negative", "-7", b"-7"), ("13-digits", "1700000000000", b"1700000000000"),
                             ("15-digits", "123456789012345", b"123456789012345"), ("16-digits", "1700000000000000", b"1700000000000000"),
                             ("2^53", "9007199254740992", b"9007199254740992"), ("-2^53", "-9007199254740992", b"-9007199254740992"),
                             ("computed", "1700000000 * 1000000", b"1700000000000000"), ("tonumber", "tonumber('100000000000000')", b"100000000000000")):
        ev("return redis.call('SET', KEYS[1], %s)" % lit, keys=[b"t:num"])
        got = c.cmd("GET", "t:num")
        res.evaluations += 1
        res.cell("table", "number-argument", tag)
        if got != digits:
            _report(res, known, "table/number-argument/integer", "redis.call('SET', k, %s) stored %s; a client sending that number sends %s" % (lit, resp.show(got), resp.show(digits)))
    for tag, lit in (("tenth", "0.1"), ("many-digits", "1700000000.123456"), ("tiny", "5e-324"), ("huge", "1e300"), ("third", "1/3"),
                     ("pi", "math.pi"), ("neg", "-2.5e-10")):
        ev("return redis.call('SET', KEYS[1], %s)" % lit, keys=[b"t:num"])
        got = c.cmd("GET", "t:num")
        want = ev("return tostring(%s == tonumber(redis.call('GET', KEYS[1])))" % lit, keys=[b"t:num"])
        res.evaluations += 1
        res.cell("table", "number-argument", tag)
        if want != b"true":
            _report(res, known, "table/number-argument/float", "redis.call('SET', k, %s) stored %s, which does not read back as the same number" % (lit, resp.show(got)))
    c.cmd("DEL", "t:cnt", "t:z", "t:ttl")
    expect("number-argument-incrby", "redis.call('SET', KEYS[1], '1') return redis.call('INCRBY', KEYS[1], 100000000000000)", 100000000000001, keys=[b"t:cnt"])
    expect("number-argument-pexpire", "redis.call('SET', KEYS[1], 'v') return redis.call('PEXPIRE', KEYS[1], 1700000 * 1000000)", 1, keys=[b"t:ttl"])
    expect("number-argument-zadd-score", "redis.call('ZADD', KEYS[1], 1700000000.123456, 'm') return tostring(tonumber(redis.call('ZSCORE', KEYS[1], 'm')) == 1700000000.123456)",
           b"true", keys=[b"t:z"])
    expect("number-argument-lrange-index", "redis.call('RPUSH', KEYS[1], 'a', 'b', 'c') return redis.call('LRANGE', KEYS[1], 0, -1)", [b"a", b"b", b"c"], keys=[b"t:nl"])
    # redis.pcall of a command that scripts may not run gives the script an error table and the script goes on
    for cmd in ("'SELECT', '1'", "'BLPOP', 't:nolist', '0'", "'SUBSCRIBE', 'ch'", "'MULTI'", "'CONFIG', 'GET', 'dir'", "'EVAL', 'return 1', '0'", "'SAVE'",
                "'NOSUCHCOMMAND'", "'GET'", "'INCR', 't:list0'"):
        c.cmd("DEL", "t:after-pcall")
        c.cmd("DEL", "t:list0")
        c.cmd("RPUSH", "t:list0", "x")
        got = ev("local r = redis.pcall(%s) redis.call('SET', KEYS[1], 'went-on') return (type(r) == 'table' and r.err ~= nil) and 1 or 0" % cmd, keys=[b"t:after-pcall"])
        after = c.cmd("GET", "t:after-pcall")
        res.evaluations += 1
        res.cell("table", "pcall-refused-then-continue", cmd.split(",")[0].strip("'"))
        if got != 1 or after != b"went-on":
            _report(res, known, "table/pcall-refused-command-aborts-script", "local r = redis.pcall(%s) redis.call('SET', k, 'went-on') return <r is an error table> -> %s, "
                    "k = %s; pcall never raises: expected 1 and 'went-on'" % (cmd, resp.show(got), resp.show(after)))
    # a key past its deadline is as absent to a script as it is to the client that sends the script
    c.cmd("SELECT", "5")
    c.cmd("FLUSHDB")
    c.cmd("MSET", "alive:1", "v", "alive:2", "v")
    for i in range(6):
        c.cmd("SET", "dead:%d" % i, "v", "PX", "60")
    c.cmd("RPUSH", "dead:list", "x")
    c.cmd("PEXPIRE", "dead:list", "60")
    time.sleep(0.09)
    for tag, script, direct in (("DBSIZE", "return redis.call('DBSIZE')", [b"DBSIZE"]),
                                ("KEYS", "return #redis.call('KEYS', '*')", None),
                                ("EXISTS", "return redis.call('EXISTS', 'dead:3')", [b"EXISTS", b"dead:3"]),
                                ("TYPE", "return redis.call('TYPE', 'dead:list')", None),
                                ("LLEN", "return redis.call('LLEN', 'dead:list')", [b"LLEN", b"dead:list"]),
                                ("GET", "return redis.call('GET', 'dead:4') or 'absent'", None),
                                ("SETNX", "return redis.call('SETNX', 'dead:5', 'fresh')", None)):
        got = ev(script)
        want = {"DBSIZE": 2, "KEYS": 2, "EXISTS": 0, "TYPE": b"none", "LLEN": 0, "GET": b"absent", "SETNX": 1}[tag]
        d = c.cmd(*direct) if direct else None
        res.evaluations += 1
        res.cell("table", "dead-key-in-script", tag)
        gv = got.s if isinstance(got, Status) else got
        if gv != want or (direct and d != want):
            _report(res, known, "table/dead-key-visible-to-script/%s" % tag, "8 keys with a 60 ms TTL, 90 ms later (untouched, the sweeper may not have come by): "
                    "%s -> %s, the direct command -> %s, expected %s" % (script, resp.show(got), resp.show(d), resp.show(want)))
    c.cmd("FLUSHDB")
    c.cmd("SELECT", "0")
    # failing redis.call aborts with an error reply; earlier effects persist, later ones are absent
    c.cmd("DEL", "t:before", "t:after", "t:list")
    c.cmd("RPUSH", "t:list", "x")
    expect("call-error-aborts", "redis.call('SET','t:before','1') redis.call('INCR','t:list') redis.call('SET','t:after','1') return 'end'", Err())
    res.cell("table", "effects-around-error")
    if c.cmd("EXISTS", "t:before") != 1 or c.cmd("EXISTS", "t:after") != 0:
        _report(res, known, "table/effects-around-error", "after a failing redis.call: t:before exists=%r (must be 1), t:after exists=%r (must be 0)" % (
            c.cmd("EXISTS", "t:before"), c.cmd("EXISTS", "t:after")))
    # failing redis.pcall lets the script continue and can return the error
    c.cmd("DEL", "t:after")
    expect("pcall-continues", "local r = redis.pcall('INCR','t:list') redis.call('SET','t:after','1') return 'continued'", b"continued")
    if c.cmd("EXISTS", "t:after") != 1:
        _report(res, known, "table/pcall-continues-effects", "the command after a failing pcall did not run")
    expect("pcall-returns-err-table", "local r = redis.pcall('INCR','t:list') return {type(r), type(r)=='table' and type(r.err) or 'none'}", [b"table", b"string"])
    expect("pcall-error-returned-is-error", "return redis.pcall('INCR','t:list')", Err())
    expect("call-unknown-command", "return redis.call('NOSUCHCOMMAND')", Err())
    expect("call-wrong-arity", "return redis.call('GET')", Err())
    # KEYS / ARGV byte-for-byte
    allbytes = bytes(range(256))
    for tag, blob in [("all-256-bytes", allbytes), ("empty", b""), ("nul", b"\x00"), ("crlf", b"\r\n"), ("invalid-utf8", b"\xff\xfe\xc3\x28"),
                      ("1k", bytes(rng.randrange(256) for _ in range(1024))), ("64k", bytes(rng.randrange(256) for _ in range(65536))),
                      ("utf8", "héllo→世界".encode())]:
        got = ev(b"return {ARGV[1], #ARGV[1]}", (), (blob,))
        res.evaluations += 1
        res.cell("table", "argv-bytes", tag)
        if got != [blob, len(blob)]:
            _report(res, known, "table/argv-bytes/%s" % ("binary" if tag not in ("empty", "utf8") else tag),
                    "ARGV[1] of %d bytes (%s) came back as %s" % (len(blob), tag, resp.show(got, 40)))
        if blob:
            got = ev(b"return {KEYS[1], #KEYS[1]}", (blob,), ())
            res.evaluations += 1
            res.cell("table", "keys-bytes", tag)
            if got != [blob, len(blob)]:
                _report(res, known, "table/keys-bytes/%s" % ("binary" if tag != "utf8" else tag), "KEYS[1] of %d bytes (%s) came back as %s" % (len(blob), tag, resp.show(got, 40)))
            c.cmd("DEL", blob)
            ev(b"return redis.call('SET', KEYS[1], ARGV[1])", (blob,), (blob[::-1],))
            g = c.cmd("GET", blob)
            res.evaluations += 1
            res.cell("table", "set-through-script", tag)
            if g != blob[::-1]:
                _report(res, known, "table/set-through-script/%s" % ("binary" if tag != "utf8" else tag),
                        "redis.call('SET', KEYS[1], ARGV[1]) with %s key/value: direct GET of the key -> %s" % (tag, resp.show(g, 40)))
            c.cmd("DEL", blob)
    # EVALSHA == EVAL for loaded scripts, sha = sha1(source), in every DB
    for dbi in (0, 1, 7, 15):
        c.cmd("SELECT", dbi)
        c.cmd("SET", "t:db", "in-db-%d" % dbi)
        for script in (b"return redis.call('GET','t:db')", b"return {KEYS[1], ARGV[1], redis.call('DBSIZE')}", b"return redis.call('INCR','t:counter')"):
            sha = c.cmd(b"SCRIPT", b"LOAD", script)
            res.evaluations += 1
            res.cell("table", "evalsha", "db%d" % dbi)
            if sha != hashlib.sha1(script).hexdigest().encode():
                _report(res, known, "table/sha1", "SCRIPT LOAD returned %r, sha1 of the source is %s" % (sha, hashlib.sha1(script).hexdigest()))
                continue
            if b"INCR" in script:
                r1 = c.cmd(b"EVAL", script, b"0")
                r2 = c.cmd(b"EVALSHA", sha, b"0")
                if not (isinstance(r1, int) and r2 == r1 + 1):
                    _report(res, known, "table/evalsha-differs", "db %d: EVAL -> %r then EVALSHA -> %r (must be consecutive counters of the same DB)" % (dbi, r1, r2))
            else:
                r1 = c.cmd(b"EVAL", script, b"1", b"kk", b"aa")
                r2 = c.cmd(b"EVALSHA", sha, b"1", b"kk", b"aa")
                if r1 != r2:
                    _report(res, known, "table/evalsha-differs", "db %d: EVAL %r -> %s, EVALSHA -> %s" % (dbi, script, resp.show(r1), resp.show(r2)))
        r = c.cmd(b"EVALSHA", b"ffffffffffffffffffffffffffffffffffffffff", b"0")
        if not isinstance(r, Err):
            _report(res, known, "table/evalsha-unknown", "EVALSHA of an unknown sha -> %s" % resp.show(r))
    c.cmd("SELECT", 0)
    c.close()


# --------------------------------------------------------------------------- C
def sandbox(srv, res, known):
    c = srv.client(timeout=15)
    canary = os.path.join(srv.dir, "canary.txt")
    with open(canary, "w") as f:
        f.write("canary-content")
    escaped = canary.replace("\\", "\\\\")
    scripts = [
        ("io-open-read", "local f = io.open('%s', 'r') return f:read('*a')" % escaped),
        ("io-open-write", "local f = io.open('%s.created', 'w') f:write('x') f:close() return 1" % escaped),
        ("os-execute", "return os.execute('touch %s.created')" % escaped), ("os-remove", "return os.remove('%s')" % escaped),
        ("os-getenv", "return os.getenv('HOME')"), ("os-exit", "os.exit(3)"),
        ("require", "return require('os')"), ("package-loadlib", "return package.loadlib('libc.so.6', 'system')"),
        ("dofile", "return dofile('%s')" % escaped), ("loadfile", "return loadfile('%s')" % escaped),
        ("load", "return load(function() return nil end)"), ("debug", "return debug.getinfo(1)"),
        ("loadstring-bytecode", "local f = loadstring(string.dump(function() return 1 end)) return f()"),
        ("getfenv-escape", "return getfenv(0).os ~= nil and 1 or 0"), ("rawget-G-os", "return rawget(_G, 'os') ~= nil and 1 or 0"),
        ("string-rep-huge", "return #string.rep('x', 100)"),
        ("call-blpop", "return redis.call('BLPOP', 'sb:l', 0)"), ("call-brpop", "return redis.call('BRPOP', 'sb:l', 1)"),
        ("call-subscribe", "return redis.call('SUBSCRIBE', 'ch')"), ("call-select", "return redis.call('SELECT', 1)"),
        ("call-auth", "return redis.call('AUTH', 'x')"), ("call-shutdown", "return redis.call('SHUTDOWN')"),
        ("call-multi", "return redis.call('MULTI')"), ("call-watch", "return redis.call('WATCH', 'k')"),
        ("call-eval", "return redis.call('EVAL', 'return 1', 0)"), ("call-monitor", "return redis.call('MONITOR')"),
        ("call-client-kill", "return redis.call('CLIENT', 'LIST')"), ("call-config-set", "return redis.call('CONFIG', 'SET', 'dir', '/tmp')"),
        ("call-save", "return redis.call('SAVE')"), ("call-bgsave", "return redis.call('BGSAVE')"), ("call-replicaof", "return redis.call('REPLICAOF', '127.0.0.1', '1')"),
        ("call-sync", "return redis.call('SYNC')"), ("call-sleep", "return redis.call('SLEEP', '1')"), ("call-quit", "return redis.call('QUIT')"),
    ]
    harmless = {"getfenv-escape": 0, "rawget-G-os": 0, "string-rep-huge": 100}
    files_before = sorted(os.listdir(srv.dir))
    for tag, script in scripts:
        try:
            r = c.cmd(b"EVAL", script.encode(), b"0", timeout=10)
        except (Closed, Timeout) as e:
            r = type(e).__name__
            if not srv.alive():
                _report(res, known, "sandbox/%s/server-died" % tag, "script %r killed the server (exit %s)\n%s" % (script, srv.exit_status(), srv.stderr_tail(600)))
                srv.restart()
            c = srv.client(timeout=15)
        res.evaluations += 1
        res.cell("sandbox", tag)
        if tag in harmless:
            if r != harmless[tag]:
                _report(res, known, "sandbox/%s" % tag, "script %r -> %s (expected %r)" % (script, resp.show(r), harmless[tag]))
            continue
        if tag == "loadstring-bytecode":
            # loading bytecode is what matters (Redis refuses it); a plain error is the only safe answer
            if not isinstance(r, Err):
                _report(res, known, "sandbox/loadstring-bytecode", "loadstring(string.dump(f)) is accepted: Lua 5.1 bytecode is reachable from scripts (-> %s)" % resp.show(r))
            continue
        if not isinstance(r, Err):
            _report(res, known, "sandbox/%s" % tag, "script %r must fail, got %s" % (script, resp.show(r, 60)))
        if not srv.alive():
            _report(res, known, "sandbox/%s/server-died" % tag, "server exited %s\n%s" % (srv.exit_status(), srv.stderr_tail(500)))
            srv.restart()
            c = srv.client(timeout=15)
    res.cell("sandbox", "canary")
    try:
        content = open(canary).read()
    except OSError:
        content = None
    files_after = sorted(f for f in os.listdir(srv.dir) if not f.endswith(".rdb") and ".tmp" not in f)
    if content != "canary-content" or [f for f in files_after if f not in files_before]:
        _report(res, known, "sandbox/file-system-touched", "canary content %r; new files %s" % (content, [f for f in files_after if f not in files_before]))
    # connection state untouched: still DB 0, no MULTI
    r = c.cmd("PING")
    if r != resp.PONG:
        _report(res, known, "sandbox/connection-state", "PING after the sandbox corpus -> %s" % resp.show(r))
    c.close()


# --------------------------------------------------------------------------- D
def effects_on_other_clients(srv, res, known):
    """redis.call of a command has the same effect as the direct command - also the part of the effect
    that lands on OTHER clients: a push serves a client blocked on the key, a PUBLISH reaches the
    subscribers, a write to a watched key aborts the watcher's EXEC."""
    c = srv.client(timeout=10)
    for form in ("direct", "EVAL", "EVALSHA", "EVAL-pcall"):
        def run(*argv):
            if form == "direct":
                return c.cmd(*argv)
            script = b"return redis.pcall(unpack(ARGV))" if form == "EVAL-pcall" else b"return redis.call(unpack(ARGV))"
            if form == "EVALSHA":
                return c.cmd(b"EVALSHA", c.cmd(b"SCRIPT", b"LOAD", script), b"0", *argv)
            return c.cmd(b"EVAL", script, b"0", *argv)
        for db in (0, 3):
            c.cmd("SELECT", db)
            for pop, push in ((b"BLPOP", b"RPUSH"), (b"BRPOP", b"LPUSH")):
                w = srv.client(timeout=5)
                w.cmd("SELECT", db)
                c.cmd("DEL", "eo:q")
                w.send(pop, b"eo:q", b"0")
                server.wait_loops(c, 3)
                run(push, b"eo:q", b"elem")
                got = w.try_recv(2.0)
                left = c.cmd("LLEN", "eo:q")
                w.close()
                res.evaluations += 1
                res.cell("other-clients", "blocked-waiter", form, "db%d" % db)
                if got != [b"eo:q", b"elem"] or left != 0:
                    _report(res, known, "other-clients/waiter-not-served/%s" % form,
                            "a client blocked in %s eo:q 0 (db %d); %s eo:q elem sent as %s: the waiter got %s, LLEN afterwards %r (a direct push serves it at once)" % (
                                pop.decode(), db, push.decode(), form, resp.show(got), left))
            s1 = srv.client(timeout=5)
            s1.cmd("SUBSCRIBE", "eo:chan")
            s1.send("PSUBSCRIBE", "eo:*")
            s1.recv()
            n = run(b"PUBLISH", b"eo:chan", b"hello")
            msgs = [s1.try_recv(1.0), s1.try_recv(0.3)]
            s1.close()
            res.evaluations += 1
            res.cell("other-clients", "publish", form)
            if form != "direct" and isinstance(n, Err) and b"unknown command" in n.s.lower():
                _report(res, known, "other-clients/publish/unavailable-in-scripts", "redis.call('PUBLISH', ...) -> %s although PUBLISH is a command of this server" % resp.show(n))
            elif n != 2 or sorted(map(repr, msgs)) != sorted(map(repr, [[b"message", b"eo:chan", b"hello"], [b"pmessage", b"eo:*", b"eo:chan", b"hello"]])):
                _report(res, known, "other-clients/publish/%s" % form, "PUBLISH eo:chan hello sent as %s with one channel and one pattern subscription: reply %r, subscriber received %s" % (
                    form, n, resp.show(msgs)))
            wt = srv.client(timeout=5)
            wt.cmd("SELECT", db)
            c.cmd("SET", "eo:w", "1")
            wt.cmd("WATCH", "eo:w")
            run(b"APPEND", b"eo:w", b"x")
            wt.cmd("MULTI")
            wt.cmd("PING")
            ex = wt.cmd("EXEC")
            wt.close()
            res.evaluations += 1
            res.cell("other-clients", "watch", form)
            if ex is not NULL_ARRAY:
                _report(res, known, "other-clients/watch-not-aborted/%s" % form, "WATCH eo:w by another client; APPEND eo:w x sent as %s; its EXEC -> %s, expected nil" % (form, resp.show(ex)))
    c.cmd("SELECT", 0)
    c.close()


def atomicity(srv, res, known, budget_s, wseed):
    stop = threading.Event()
    problems = []
    lock = threading.Lock()
    stats = {"scripts": 0, "reads": 0, "versions": set()}
    script = b"""redis.call('SET', KEYS[1], ARGV[1])
local x = 0
for i = 1, tonumber(ARGV[2]) do x = x + i end
redis.call('INCRBY', KEYS[3], 1)
redis.call('SET', KEYS[2], ARGV[1])
redis.call('DECRBY', KEYS[4], 1)
return ARGV[1]"""

    def writer(tid):
        c = srv.client(timeout=30)
        r = util.rng_for(wseed, "sw", tid)
        n = 0
        try:
            while not stop.is_set():
                n += 1
                u = b"s%d.%d" % (tid, n)
                got = c.cmd(b"EVAL", script, b"4", b"at:a", b"at:b", b"at:x", b"at:y", u, b"%d" % r.choice([1000, 20000, 100000]))
                with lock:
                    stats["scripts"] += 1
                if got != u:
                    with lock:
                        problems.append(("atomicity/script-reply", "script returned %s, expected %s" % (resp.show(got), u)))
        except (Closed, Timeout) as e:
            with lock:
                problems.append(("connection/script-writer", repr(e)))

    def plain(tid):
        c = srv.client(timeout=30)
        n = 0
        try:
            while not stop.is_set():
                n += 1
                c.cmd(b"SET", b"at:other", b"%d" % n)
                time.sleep(0.0005)
        except (Closed, Timeout):
            pass

    def reader(tid):
        c = srv.client(timeout=30)
        try:
            while not stop.is_set():
                r = c.cmd(b"MGET", b"at:a", b"at:b", b"at:x", b"at:y")
                with lock:
                    stats["reads"] += 1
                    if r[0] is not None:
                        stats["versions"].add(r[0])
                a, b, x, y = r
                if a != b or (int(x) if x else 0) + (int(y) if y else 0) != 0:
                    with lock:
                        problems.append(("atomicity/visible-inside-script", "a reader saw at:a=%s at:b=%s at:x=%s at:y=%s: a state between two steps of one script" % (
                            resp.show(a), resp.show(b), x, y)))
        except (Closed, Timeout) as e:
            with lock:
                problems.append(("connection/reader", repr(e)))

    c0 = srv.client()
    c0.cmd("DEL", "at:a", "at:b", "at:x", "at:y")
    c0.close()
    ts = [threading.Thread(target=writer, args=(i,)) for i in range(3)] + [threading.Thread(target=plain, args=(9,))] + \
         [threading.Thread(target=reader, args=(20 + i,)) for i in range(4)]
    for t in ts:
        t.daemon = True
        t.start()
    time.sleep(budget_s)
    stop.set()
    for t in ts:
        t.join(timeout=30)
    res.evaluations += stats["scripts"] + stats["reads"]
    res.count("atomicity_scripts", stats["scripts"])
    res.count("atomicity_reader_observations", stats["reads"])
    res.count("atomicity_versions_observed", len(stats["versions"]))
    res.cell("atomicity", "busy-loop-scripts-vs-mget-readers")
    seen = set()
    for sig, detail in problems:
        if sig not in seen:
            _report(res, known, sig, detail)
        seen.add(sig)


def worker(wseed, binary, budget_s, idx):
    rng = util.rng_for(wseed, "C12")
    res = Result()
    known = util.Known()
    a = server.Server(binary).start()
    b = server.Server(binary).start()
    try:
        if idx == 0:
            semantics_table(b, res, known, rng)
            sandbox(b, res, known)
        if idx == 1:
            atomicity(b, res, known, min(budget_s, 15), wseed)
        if idx == 2:
            effects_on_other_clients(b, res, known)
        t_end = time.time() + budget_s
        n = 0
        while time.time() < t_end:
            n += 1
            try:
                twin_history(a, b, rng, res, n, known)
            except (Closed, Timeout) as e:
                for srv, nm in ((a, "direct"), (b, "script")):
                    if not srv.alive():
                        _report(res, known, "server-died/%s" % nm, "the %s server exited %s\n%s" % (nm, srv.exit_status(), srv.stderr_tail(1000)))
                        srv.restart()
                res.inconclusive.append("twin history %d: %r" % (n, e)) if a.alive() and b.alive() else None
        res.count("twin_histories", n)
    finally:
        a.cleanup()
        b.cleanup()
    return res


def _w(arg, binary, budget_s):
    return worker(arg[0], binary, budget_s, arg[1])


HOSTILE_LUA = [
    ("deep-recursion", "local function f(n) return f(n + 1) + 1 end return f(1)"),
    ("deep-pcall-recursion", "local function f(n) local ok = pcall(f, n + 1) return n end return f(1)"),
    ("string-rep-20mb", "return #string.rep('x', 20000000)"),
    ("string-rep-negative", "return string.rep('x', -1)"),
    ("string-format-many", "return string.format(string.rep('%s', 200), unpack({}))"),
    ("string-format-width", "return string.format('%99999d', 1)"),
    ("string-format-star", "return string.format('%5$s', 1)"),
    ("pattern-backtrack", "return string.find(string.rep('a', 14) .. 'b', string.rep('a*', 14) .. 'c')"),
    ("pattern-unbalanced", "return string.find('x', '[')"),
    ("gsub-huge", "return #string.gsub(string.rep('a', 100000), 'a', 'bbbbbbbbbb')"),
    ("table-concat-huge", "local t = {} for i = 1, 200000 do t[i] = 'xxxxxxxx' end return #table.concat(t)"),
    ("table-insert-oob", "local t = {} table.insert(t, 2^40, 1) return #t"),
    ("unpack-huge", "return unpack({}, 1, 1e7)"),
    ("unpack-range", "return select('#', unpack({}, 1, 2^31 - 1))"),
    ("string-metatable", "getmetatable('').__index = function() return 1 end return ('x').foo"),
    ("string-metatable-call", "getmetatable('').__call = function() return 7 end return ('x')()"),
    ("coroutine-wrap-dead", "local co = coroutine.wrap(function() end) co() return pcall(co)"),
    ("coroutine-yield-across-call", "local co = coroutine.create(function() redis.call('SET', 'vg:k', coroutine.yield()) end) coroutine.resume(co) return coroutine.status(co)"),
    ("setfenv-call", "setfenv(redis.call, {}) return redis.call('PING')"),
    ("tostring-nil-concat", "return 'a' .. nil"),
    ("call-nonstring-args", "return redis.call('SET', {}, function() end)"),
    ("call-nested-tables", "return redis.call('SET', 'vg:k', {{{{}}}})"),
    ("call-many-args", "local t = {'RPUSH', 'vg:l'} for i = 1, 50000 do t[#t + 1] = i end return redis.call(unpack(t))"),
    ("return-deep-table", "local t = {} local c = t for i = 1, 5000 do c[1] = {} c = c[1] end return t"),
    ("return-cyclic-table", "local t = {} t[1] = t return t"),
    ("return-huge-array", "local t = {} for i = 1, 300000 do t[i] = i end return t"),
    ("number-edges", "return {2^63, -2^63, 0/0, 1/0, -1/0, 1e308 * 10}"),
    ("tonumber-bases", "return {tonumber('zz', 36), tonumber('1', 99), tonumber('0x', 16)}"),
    ("keys-mutated", "KEYS[1] = nil ARGV = nil return 1"),
    ("redis-table-mutated", "redis.call = nil return 1"),
    ("after-redis-mutation", "return redis.call('PING')"),
    ("error-with-table", "error({code = 1})"),
    ("error-with-nil", "error(nil)"),
    ("error-in-gsub-callback", "return string.gsub('abc', '.', function() error('boom') end)"),
    ("sort-bad-comparator", "local t = {} for i = 1, 200 do t[i] = i end table.sort(t, function(a, b) return true end) return #t"),
    ("collectgarbage", "collectgarbage('collect') return collectgarbage('count') > 0 and 1 or 0"),
    ("loadstring-text", "return loadstring('return 1 + 1')()"),
    ("loadstring-binary-header", "return loadstring('\\27Lua\\81\\0\\1\\4\\8\\4\\8\\0garbage')"),
    ("newproxy", "return type(newproxy) == 'nil' and 1 or type(newproxy(true))"),
    ("string-byte-range", "return {string.byte('abc', -2^31, 2^31)}"),
    ("string-sub-edges", "return string.sub('abc', -2^53, 2^53)"),
]


def valgrind_stage(binary, seed):
    """E5(d): the conversion layer and the vendored C Lua under valgrind memcheck —
    the one place neither Miri nor the Rust sanitizers see. The reply oracles of
    parts B and C run too, but only memcheck error blocks are judged here (a
    25x slower server may legitimately time the probes out)."""
    import shutil
    res = Result()
    if shutil.which("valgrind") is None:
        res.inconclusive.append("valgrind not installed: memcheck stage skipped")
        return res
    known = util.Known()
    scratch = Result()
    srv = server.Server(binary, start_timeout=120.0)
    vglog = os.path.join(srv.dir, "memcheck.%p.log")
    srv.wrapper = ["valgrind", "--tool=memcheck", "--quiet", "--error-exitcode=0", "--num-callers=24",
                   "--log-file=" + vglog, "--max-stackframe=8388608", "--vgdb=no"]   # no gdb-server pipes left in /tmp when the child is killed
    srv.start()
    ran = 0
    try:
        c = srv.client(timeout=120)
        for tag, script in HOSTILE_LUA:
            for form in ("EVAL", "EVALSHA"):
                try:
                    if form == "EVAL":
                        c.cmd("EVAL", script, "1", "vg:k", "arg1", "arg2", timeout=120)
                    else:
                        sha = c.cmd("SCRIPT", "LOAD", script, timeout=120)
                        if isinstance(sha, bytes):
                            c.cmd("EVALSHA", sha, "1", "vg:k", "a", timeout=120)
                    ran += 1
                    res.cell("memcheck", tag, form)
                except resp.ProtocolError:
                    # e.g. a reply nested deeper than this client parses: start over on a new connection
                    ran += 1
                    c.close()
                    c = srv.client(timeout=120)
                except (Closed, Timeout, OSError):
                    if not srv.alive():
                        res.violation("crash/memcheck/%s" % tag, "server under valgrind exited %s on hostile script %s\n%s" % (
                            srv.exit_status(), tag, srv.stderr_tail(1500)))
                    else:
                        # 25-50x slower than native: a script that does not finish in 120 s is skipped
                        # (scripts have no time limit - known finding of C06 - so the child must go)
                        res.count("memcheck_scripts_timed_out")
                        srv.kill()
                    srv.start()
                    c = srv.client(timeout=120)
        try:
            semantics_table(srv, scratch, known, util.rng_for(seed, "vg"))
            sandbox(srv, scratch, known)
        except (Closed, Timeout, OSError, RuntimeError, AssertionError) as e:
            res.notes.append("reply oracles under valgrind stopped early: %r" % (e,))
        ran += scratch.evaluations
    finally:
        srv.kill(signal.SIGTERM)
        time.sleep(0.5)
        text = ""
        try:
            for fn in sorted(os.listdir(srv.dir)):
                if fn.startswith("memcheck.") and fn.endswith(".log"):
                    text += open(os.path.join(srv.dir, fn), "r", errors="replace").read()
        except OSError:
            pass
        srv.cleanup()
    res.evaluations += ran
    res.count("memcheck_scripts_run", ran)
    blocks = re.findall(r"^==\d+== (Invalid (?:read|write|free)[^\n]*|Conditional jump or move depends on uninitialised[^\n]*|"
                        r"Use of uninitialised value[^\n]*|Mismatched free[^\n]*|Jump to the invalid address[^\n]*|"
                        r"Source and destination overlap[^\n]*|Syscall param [^\n]* uninitialised[^\n]*|Process terminating with[^\n]*)", text, re.M)
    res.count("memcheck_error_blocks", len(blocks))
    for b in blocks[:20]:
        i = text.find(b)
        ctx = text[i:i + 1800]
        fm = re.search(r"(?:at|by) 0x[0-9A-F]+: (\S+) \((?:in )?[^)]*\)", ctx)
        res.violation("sanitizer/memcheck/%s/%s" % (re.sub(r"[0-9]+", "N", b.split(" of size")[0])[:50].replace(" ", "-"),
                                                    fm.group(1)[:80] if fm else "?"),
                      "valgrind memcheck report while running the hostile script corpus:\n" + ctx)
    if ran < 20:
        res.inconclusive.append("memcheck stage ran only %d scripts" % ran)
    return res


def run(tier):
    t0 = time.time()
    seed = util.seed_from_env()
    binary, bt = server.build("dev")
    n = util.jobs()
    res = util.run_workers(_w, [(seed * 1000 + i, i) for i in range(n)], dict(binary=binary, budget_s=20 if tier == "quick" else 240), nproc=n)
    if tier == "thorough":
        res.merge(valgrind_stage(binary, seed))
    return util.finish("C12", tier, seed, "exploration", res,
                       "A: twin servers in lock-step, every generated data-type command (strings, keys, lists, sets, hashes, sorted "
                       "sets, streams, same boundary generators as C01/C03/C04/C15, deterministic forms) sent directly to one and through "
                       "redis.call / redis.pcall / KEYS-passing / EVALSHA to the other, in DB 0 and other DBs: replies equal after the "
                       "standard RESP<->Lua round trip (up to error wording), touched keys equal after every step; B: table of literal "
                       "scripts with prescribed replies (15 return shapes, call/pcall error behaviour and effects around an error, KEYS/"
                       "ARGV byte-for-byte for all 256 byte values / empty / 64 KB / invalid UTF-8, SET through KEYS+ARGV read back "
                       "directly, EVALSHA = EVAL and sha1 in 4 DBs); C: 34 sandbox probes (io, os, require, package, dofile, loadfile, "
                       "load, debug, bytecode, blocking / connection / admin commands) must fail, canary file and directory untouched, "
                       "child alive; E: the effect of a command sent through a script on OTHER clients (push serves a blocked waiter, PUBLISH "
                       "reaches channel and pattern subscribers, write aborts a watcher) = that of the direct command, in 2 DBs; D: 15 s of busy-loop scripts (3 writers) vs single-MGET readers: a=b and x+y=0 always; thorough: "
                       "%d hostile scripts (EVAL and EVALSHA) plus parts B and C against the server under valgrind memcheck, error "
                       "blocks counted from its log; " % len(HOSTILE_LUA) +
                       
                       "cell = (part, path, command / probe, reply shape)", t0,
                       assumptions=["the standard conversion is the one of the Redis EVAL documentation", "random-outcome and unordered-reply commands are excluded from the twin differential"],
                       min_cells=40)

"""C04 — sorted sets stay totally ordered and consistent under every update."""
from . import modeldiff

RULE = ("seeded histories of sorted-set commands with scores drawn to collide (grid, +-0, +-inf, nextafter "
        "neighbours, 1e308, 5e-324, nan spellings), members incl. empty/binary; every reply compared with a model "
        "ordered by (score, member bytes); skip-list invariant walker (VERIF CHECK) every 8 commands and at history "
        "end; cell = (command, pre-state type, reply class)")


def run(tier):
    return modeldiff.run("C04", tier, "gen:gen_zset_cmd", RULE, check_every=8, hist_len=(20, 150))

"""C04 — sorted sets stay totally ordered and consistent under every update."""
from . import modeldiff

RULE = ("seeded histories of sorted-set commands with scores drawn to collide (grid, +-0, +-inf, nextafter "
        "neighbours, 1e308, 5e-324, nan spellings), members incl. empty/binary; every reply compared with a model "
        "ordered by (score, member bytes); skip-list invariant walker (VERIF CHECK) every 8 commands and at history "
        "end; cell = (command, pre-state type, reply class)")


def inprocess(tier, seed):
    """Monitor C: operation sequences directly on SkipList<Vec<u8>, f64> against a model with the structural
    walker after every operation (rs/src/bin/skiplist.rs); thorough adds Miri runs and the ASan server."""
    from .. import rsbin, util
    rsbin.build()
    n = 4 if tier == "quick" else 16
    budget = 8 if tier == "quick" else 60
    res = util.run_workers(rsbin.worker, [(seed * 1000 + i, budget, tier) for i in range(n)],
                           dict(name="skiplist", extra_args=[], timeout=budget * 6 + 120, prefix="inproc/"), nproc=n)
    if tier == "thorough":
        res.merge(util.run_workers(rsbin.miri_worker, [seed * 100 + i for i in range(16)], dict(name="skiplist"), nproc=16))
    return res


def run(tier):
    return modeldiff.run("C04", tier, "gen:gen_zset_cmd", RULE + "; plus in-process histories on the skip list itself "
                         "(model comparison of items/ranks/ranges, walker after every operation; Miri in thorough)"
                         + "; 5% of the commands travel through redis.pcall in a script (effect = that of the direct command); "
                         "in 1 of 30 histories the server is saved, killed and restarted on its dump at a random step",
                         check_every=8, hist_len=(20, 150), extra_fn=inprocess, script_prob=0.05, restart_prob=0.03)

"""C18 — numbered databases are fully isolated from one another.

2-4 connections select among the databases (valid and invalid indexes) and run
every command family on EQUAL key names through every execution path: direct,
MULTI/EXEC (incl. SELECT queued inside), EVAL, EVALSHA, a blocking pop parked
in DB i with pushes to the same key name in DB j and then in i, FLUSHDB /
FLUSHALL, DBSIZE / KEYS / SCAN / RANDOMKEY. Oracle: replies (where the path
does not involve script reply conversion) + canonical dump of all 16 DBs after
every history against a 16-way model."""
import hashlib
import time

from .. import server, util, resp, gen
from ..diff import Differ, Abandon
from ..model import Model, matches, Err, ERR, Unordered, rclass, Adopt
from ..resp import OK, QUEUED, NULL_ARRAY, Closed, Timeout, NOTHING
from ..util import Result

import os
PARANOID = os.environ.get("VERIF_PARANOID") == "1"
SCRIPT = b"return redis.call(unpack(ARGV))"
SHA = hashlib.sha1(SCRIPT).hexdigest().encode()
SELECT_ARGS = [b"0", b"1", b"2", b"5", b"15", b"15", b"16", b"-1", b"abc", b"18446744073709551616", b"99", b""]
# commands whose effect is deterministic and whose success does not depend on reply conversion
SCRIPT_SAFE = {b"SET", b"DEL", b"INCR", b"INCRBY", b"APPEND", b"LPUSH", b"RPUSH", b"LPOP", b"SADD", b"SREM", b"HSET",
               b"HDEL", b"ZADD", b"ZREM", b"EXPIRE", b"PERSIST", b"RENAME", b"FLUSHDB", b"MSET", b"SETNX", b"XADD"}


class Conn:
    def __init__(self, srv, i):
        self.c = srv.client()
        self.db = 0
        self.i = i


def gen_any(rng, m, db):
    fam = rng.choice([gen.gen_string_cmd, gen.gen_string_cmd, gen.gen_coll_cmd, gen.gen_zset_cmd, gen.gen_stream_cmd])
    for _ in range(20):
        a = fam(rng, m, db)
        n = a[0].upper()
        if n in (b"FLUSHALL",) and rng.random() < 0.7:
            continue
        # keep streams away from the auto-ID edge (time dependent) - C15's subject
        if n == b"XADD" and (len(a) < 3 or a[2] == b"*"):
            continue
        return a
    return [b"DBSIZE"]


def select_word(rng):
    """Command names are case-insensitive: SELECT in the spellings clients use."""
    return rng.choice([b"SELECT", b"SELECT", b"select", b"Select", b"sElEcT"])


def history(d, srv, rng, res, loaded):
    conns = [Conn(srv, i) for i in range(rng.randrange(2, 5))]
    m = d.model
    log = d.history

    def diverge(sig, detail):
        d.diverge(sig, detail)

    def step_direct(cn, argv):
        name = argv[0].upper().decode("latin1")
        if name == "SELECT":
            return step_select(cn, argv)
        exp = m.apply(cn.db, argv)
        log.append([b"c%d@db%d" % (cn.i, cn.db)] + argv)
        act = cn.c.cmd(*argv)
        res.evaluations += 1
        res.cell("direct", family(name), "db%s" % ("0" if cn.db == 0 else "N"))
        if not matches(exp, act):
            diverge("reply/direct/%s" % name, "conn %d in db %d: %s -> %s, expected %r" % (cn.i, cn.db, resp.show(argv), resp.show(act), exp))

    def step_select(cn, argv):
        log.append([b"c%d@db%d" % (cn.i, cn.db)] + argv)
        act = cn.c.cmd(*argv)
        res.evaluations += 1
        idx = argv[1] if len(argv) == 2 else None
        valid = idx is not None and idx.isdigit() and len(idx) < 4 and int(idx) < 16 and (idx == b"0" or not idx.startswith(b"0"))
        res.cell("select", "valid" if valid else "invalid")
        if valid:
            if act != OK:
                diverge("select/valid-refused", "SELECT %s -> %s" % (resp.show(idx), resp.show(act)))
            cn.db = int(idx)
        else:
            if not isinstance(act, Err):
                diverge("select/invalid-accepted", "SELECT %s -> %s (connection was in db %d)" % (resp.show(idx), resp.show(act), cn.db))
        if rng.random() < 0.5 or not valid:
            verify_db(cn, "after-select" if valid else "after-refused-select")

    def verify_db(cn, why):
        """At the client boundary: a key written through cn must land in cn.db only."""
        probe = b"__dbprobe:%d" % cn.i
        cn.c.cmd("SET", probe, "1")
        where = []
        for dbi in range(16):
            d.c.cmd("SELECT", dbi)
            if d.c.cmd("EXISTS", probe) == 1:
                where.append(dbi)
        d.c.cmd("SELECT", d.db)
        cn.c.cmd("DEL", probe)
        res.evaluations += 1
        if where != [cn.db]:
            for dbi in where:
                d.c.cmd("SELECT", dbi)
                d.c.cmd("DEL", probe)
            d.c.cmd("SELECT", d.db)
            diverge("selection/%s" % why, "connection %d should be in db %d (%s) but a key it wrote landed in db %s" % (
                cn.i, cn.db, why, where))

    def family(name):
        if name[:1] in ("L", "R", "B") and name not in ("RENAME", "RENAMENX", "RANDOMKEY"):
            return "list"
        if name[:1] == "S" and name not in ("SET", "SETNX", "SETEX", "SETRANGE", "STRLEN", "SELECT", "SCAN"):
            return "set"
        return {"H": "hash", "Z": "zset", "X": "stream"}.get(name[:1], "string/key")

    try:
        for cn in conns:
            if rng.random() < 0.8:
                step_select(cn, [b"SELECT", rng.choice([b"0", b"1", b"2", b"15"])])
        nsteps = rng.randrange(15, 60)
        for _ in range(nsteps):
            cn = rng.choice(conns)
            r = rng.random()
            if r < 0.08:
                step_select(cn, [select_word(rng), rng.choice(SELECT_ARGS)] if rng.random() < 0.95 else [b"SELECT"])
            elif r < 0.14:
                # one write: SELECT followed by commands (and maybe another SELECT): each command runs in the
                # database selected by the SELECTs in front of it, also when they arrive in the same read
                batch = [[select_word(rng), rng.choice([b"0", b"1", b"2", b"15"])]]
                for _j in range(rng.randrange(1, 4)):
                    a = gen_any(rng, m, cn.db)
                    if a[0].upper() in (b"BLPOP", b"BRPOP", b"SELECT"):
                        a = [b"DBSIZE"]
                    batch.append(a)
                    if rng.random() < 0.25:
                        batch.append([select_word(rng), rng.choice([b"0", b"3", b"15"])])
                log.append([b"c%d@db%d" % (cn.i, cn.db), b"<one write>"] + [b" ".join(x)[:50] for x in batch])
                acts = cn.c.pipeline(batch)
                res.evaluations += len(batch)
                res.cell("pipelined-select", "db%s" % ("0" if cn.db == 0 else "N"))
                for a, act in zip(batch, acts):
                    if a[0].upper() == b"SELECT":
                        if act != OK:
                            diverge("select/valid-refused", "pipelined SELECT %s -> %s" % (resp.show(a[1]), resp.show(act)))
                        cn.db = int(a[1])
                        continue
                    exp = m.apply(cn.db, a)
                    if not matches(exp, act):
                        diverge("reply/pipelined-after-select/%s" % a[0].upper().decode("latin1"),
                                "conn %d sent %s in one write: reply to %s (model db %d) -> %s, expected %r" % (
                                    cn.i, resp.show(batch, 30), resp.show(a), cn.db, resp.show(act), exp))
                verify_db(cn, "after-pipelined-select")
            elif r < 0.50:
                step_direct(cn, gen_any(rng, m, cn.db))
            elif r < 0.56:
                a = rng.choice([[b"DBSIZE"], [b"KEYS", b"*"], [b"RANDOMKEY"], [b"FLUSHDB"], [b"KEYS", b"k*"],
                                [b"FLUSHALL"] if rng.random() < 0.3 else [b"DBSIZE"]])
                step_direct(cn, a)
            elif r < 0.60:
                # SCAN: full iteration, must return exactly this DB's keys
                log.append([b"c%d@db%d" % (cn.i, cn.db), b"SCAN*"])
                cur, seen = b"0", set()
                for _i in range(200):
                    rr = cn.c.cmd("SCAN", cur, "COUNT", "100")
                    cur, page = rr[0], rr[1]
                    seen |= set(page)
                    if cur == b"0":
                        break
                res.evaluations += 1
                res.cell("scan", "db%s" % ("0" if cn.db == 0 else "N"))
                if seen != set(m.dbs[cn.db].keys()):
                    diverge("scan/other-db-keys", "SCAN in db %d returned %s, model has %s" % (
                        cn.db, resp.show(sorted(seen)), resp.show(sorted(m.dbs[cn.db].keys()))))
            elif r < 0.75:
                # MULTI/EXEC, possibly with SELECT queued inside
                k = rng.randrange(1, 5)
                cmds = []
                for _j in range(k):
                    if rng.random() < 0.15:
                        cmds.append([select_word(rng), rng.choice([b"0", b"1", b"3", b"15", b"16"])])
                    else:
                        a = gen_any(rng, m, cn.db)
                        if a[0].upper() in (b"BLPOP", b"BRPOP"):
                            continue
                        cmds.append(a)
                log.append([b"c%d@db%d" % (cn.i, cn.db), b"MULTI"] + [b" ".join(c)[:60] for c in cmds] + [b"EXEC"])
                r0 = cn.c.cmd("MULTI")
                qs = [cn.c.cmd(*a) for a in cmds]
                ex = cn.c.cmd("EXEC")
                res.evaluations += 1 + len(cmds)
                has_select = any(a[0].upper() == b"SELECT" for a in cmds)
                res.cell("multi", "with-select" if has_select else "plain", "db%s" % ("0" if cn.db == 0 else "N"))
                if r0 != OK or any(q != QUEUED for q in qs) or not isinstance(ex, list) or len(ex) != len(cmds):
                    diverge("multi/shape", "MULTI %s EXEC -> %r %s %s" % (resp.show(cmds, 30), r0, resp.show(qs), resp.show(ex)))
                for a, act in zip(cmds, ex):
                    if a[0].upper() == b"SELECT":
                        idx = a[1]
                        if idx.isdigit() and int(idx) < 16:
                            if act != OK:
                                diverge("multi/select-reply", "queued SELECT %s -> %s" % (idx, resp.show(act)))
                            cn.db = int(idx)
                        elif not isinstance(act, Err):
                            diverge("multi/select-invalid-accepted", "queued SELECT %s -> %s" % (idx, resp.show(act)))
                        continue
                    exp = m.apply(cn.db, a)
                    if not matches(exp, act):
                        diverge("reply/multi%s/%s" % ("+select" if has_select else "", a[0].upper().decode("latin1")),
                                "conn %d, transaction %s: slot for %s (model db %d) -> %s, expected %r" % (
                                    cn.i, resp.show(cmds, 30), resp.show(a), cn.db, resp.show(act), exp))
                if has_select:
                    verify_db(cn, "after-select-in-multi")
            elif r < 0.90:
                # script paths: effects only (reply conversion is C12's subject)
                via = "evalsha" if rng.random() < 0.5 else "eval"
                # plain ASCII, well-formed commands whose type fits: binary ARGV and the differences between
                # redis.call and the direct command are C12's subject, here only the database matters
                akeys = [b"k1", b"k2", b"key:3", b"k1x", b"K1", b"0"]
                a = None
                for _t in range(40):
                    k = rng.choice(akeys)
                    cand = rng.choice([[b"SET", k, b"v%d" % rng.randrange(100)], [b"DEL", k], [b"INCR", k],
                                       [b"LPUSH", k, b"e%d" % rng.randrange(100)], [b"RPUSH", k, b"e"],
                                       [b"SADD", k, b"m%d" % rng.randrange(5)], [b"HSET", k, b"f", b"v%d" % rng.randrange(100)],
                                       [b"ZADD", k, b"%d" % rng.randrange(10), b"m"], [b"APPEND", k, b"x"],
                                       [b"LPOP", k], [b"SREM", k, b"m1"], [b"HDEL", k, b"f"], [b"ZREM", k, b"m"],
                                       [b"MSET", k, b"a", rng.choice(akeys), b"b"], [b"SETNX", k, b"nx"],
                                       [b"RENAME", k, rng.choice(akeys)], [b"PERSIST", k], [b"EXPIRE", k, b"1000"]])
                    import copy as _copy
                    trial = _copy.deepcopy(m.dbs[cn.db])
                    saved = m.dbs[cn.db]
                    m.dbs[cn.db] = trial
                    r0 = m.apply(cn.db, cand)
                    m.dbs[cn.db] = saved
                    # Adopt = the model takes the server's verdict (non-canonical integers such as "01" meeting
                    # INCR, fv/DONTCARE.md): a don't-care form, not sent through the script path, where the reply
                    # that would carry the verdict is not compared
                    if not isinstance(r0, Err) and not isinstance(r0, Adopt):
                        a = cand
                        break
                if a is None:
                    a = [b"DBSIZE"]
                if rng.random() < 0.25:
                    a = rng.choice([[b"DBSIZE"], [b"KEYS", b"*"], [b"FLUSHDB"]])
                exp = m.apply(cn.db, a)
                log.append([b"c%d@db%d" % (cn.i, cn.db), via.encode()] + a)
                if via == "eval":
                    act = cn.c.cmd(b"EVAL", SCRIPT, b"0", *a)
                else:
                    if not loaded[0]:
                        sh = cn.c.cmd(b"SCRIPT", b"LOAD", SCRIPT)
                        loaded[0] = True
                    act = cn.c.cmd(b"EVALSHA", SHA, b"0", *a)
                    if isinstance(act, Err) and act.s.startswith(b"NOSCRIPT"):
                        cn.c.cmd(b"SCRIPT", b"LOAD", SCRIPT)
                        act = cn.c.cmd(b"EVALSHA", SHA, b"0", *a)
                res.evaluations += 1
                nm = a[0].upper().decode("latin1")
                res.cell(via, family(nm), "db%s" % ("0" if cn.db == 0 else "N"))
                if isinstance(exp, Err) != isinstance(act, Err):
                    diverge("reply/%s/%s" % (via, nm), "conn %d in db %d via %s: %s -> %s, model expects %r" % (
                        cn.i, cn.db, via, resp.show(a), resp.show(act), exp))
                if nm == "DBSIZE" and act != exp:
                    diverge("reply/%s/DBSIZE" % via, "DBSIZE via %s in db %d -> %s, model %r" % (via, cn.db, resp.show(act), exp))
                if nm == "KEYS" and act is None and exp.items == []:
                    act = []      # empty table -> nil is a reply-conversion matter (C12)
                if nm == "KEYS" and isinstance(act, list):
                    # binary names suffer script reply conversion (C12): compare the count and the ASCII names
                    asc = lambda ks: sorted(k for k in ks if isinstance(k, bytes) and all(32 <= c < 127 for c in k))
                    if len(act) == len(exp.items) and asc(act) == asc(exp.items):
                        act = list(exp.items)
                if nm == "KEYS" and not matches(exp, act):
                    diverge("reply/%s/KEYS" % via, "KEYS * via %s in db %d -> %s, model %r" % (via, cn.db, resp.show(act), exp))
                # effects are compared by probing the touched keys in every DB that has this key name
                for dbi in range(16):
                    pass
                d_probe(d, conns, cn, a, via, diverge, res)
            else:
                blocking_case(d, srv, conns, rng, res, diverge)
            if PARANOID:
                d.full_compare()
        # final dump of all 16 databases through the differ's own connection
        d.full_compare()
        if len(res.samples) < 3:
            res.sample([resp.show(x, 30) for x in log[-10:]])
    finally:
        for cn in conns:
            cn.c.close()


def d_probe(d, conns, cn, argv, via, diverge, res):
    """After a script-path command: the touched key must match the model in the
    connection's DB and in two other DBs (same key name)."""
    from ..diff import server_key_snapshot, snap_equal
    if len(argv) < 2:
        return
    key = argv[1]
    ctl = d.c
    for dbi in sorted({cn.db, 0, (cn.db + 1) % 16}):
        ctl.cmd("SELECT", dbi)
        ss = server_key_snapshot(ctl, key)
        ms = d.model.snapshot_key(dbi, key)
        if not snap_equal(ms, ss):
            ctl.cmd("SELECT", d.db)
            diverge("state/%s/%s/%s" % (via, argv[0].upper().decode("latin1"), "own-db" if dbi == cn.db else "other-db"),
                    "after %s via %s on a connection in db %d: key %s in db %d is %s, model %s" % (
                        resp.show(argv), via, cn.db, resp.show(key), dbi, resp.show(list(ss)), resp.show(list(ms))))
    ctl.cmd("SELECT", d.db)


def blocking_case(d, srv, conns, rng, res, diverge):
    """A blocking pop parked in DB i; a push to the same key name in DB j != i must
    not serve it; a push in DB i must."""
    if len(conns) < 2:
        return
    a, b = rng.sample(conns, 2)
    m = d.model
    key = b"blk"
    for cn in (a, b):
        m.apply(cn.db, [b"DEL", key])
        cn.c.cmd("DEL", key)
    other = (a.db + rng.randrange(1, 16)) % 16
    op = rng.choice([b"BLPOP", b"BRPOP"])
    d.history.append([b"c%d@db%d" % (a.i, a.db), op, key, b"0", b"| pusher first in db %d" % other])
    a.c.send(op, key, b"0")
    server.wait_loops(d.c, 4)
    r1 = b.c.cmd("SELECT", other)
    b.db = other
    m.apply(other, [b"DEL", key])
    b.c.cmd("DEL", key)
    exp = m.apply(other, [b"RPUSH", key, b"wrong-db"])
    b.c.cmd("RPUSH", key, b"wrong-db")
    server.wait_loops(d.c, 6)
    got = a.c.try_recv(0.02)
    res.evaluations += 1
    res.cell("blocking", "push-other-db", "db%s" % ("0" if a.db == 0 else "N"))
    if got is not NOTHING:
        # resynchronise the model as far as possible, then report
        diverge("blocking/served-from-other-db", "%s %s 0 parked in db %d was served %s by RPUSH in db %d" % (
            op.decode(), key.decode(), a.db, resp.show(got), other))
    b.c.cmd("SELECT", a.db)
    b.db = a.db
    b.c.cmd("RPUSH", key, b"right-db")
    try:
        got = a.c.recv(timeout=5)
    except Timeout:
        got = "timeout"
    res.evaluations += 1
    res.cell("blocking", "push-same-db", "db%s" % ("0" if a.db == 0 else "N"))
    if got != [key, b"right-db"]:
        diverge("blocking/not-served-in-own-db", "%s %s 0 parked in db %d: after RPUSH right-db in db %d got %s" % (
            op.decode(), key.decode(), a.db, a.db, resp.show(got)))
    # model: element pushed and popped in a.db -> nothing there; 'wrong-db' stays in `other`


def worker(wseed, binary, budget_s):
    rng = util.rng_for(wseed, "C18")
    res = Result()
    known = util.Known()
    srv = server.Server(binary).start()
    loaded = [False]
    try:
        d = Differ(srv, res, "C18", known)
        t_end = time.time() + budget_s
        n = 0
        while time.time() < t_end:
            n += 1
            try:
                d.reset()
                history(d, srv, rng, res, loaded)
            except Abandon:
                continue
            except (Closed, Timeout) as e:
                died, what = d.recover()
                loaded[0] = False
                try:
                    d.diverge("connection/%s" % ("server-died" if died else type(e).__name__.lower()),
                              "connection problem during a history: %r%s\nlast: %s" % (e, what, resp.show(d.history[-3:], 40)))
                except Abandon:
                    pass
        res.count("histories", n)
    finally:
        srv.cleanup()
    return res


def run(tier):
    t0 = time.time()
    seed = util.seed_from_env()
    binary, bt = server.build("dev")
    n = util.jobs()
    res = util.run_workers(worker, [seed * 1000 + i for i in range(n)],
                           dict(binary=binary, budget_s=20 if tier == "quick" else 240))
    return util.finish("C18", tier, seed, "exploration", res,
                       "histories of 2-4 connections x 15-60 steps: SELECT (valid, 15, 16, -1, text, 2^64, empty), every "
                       "command family on equal key names, direct / MULTI-EXEC (SELECT queued inside) / EVAL / EVALSHA, "
                       "DBSIZE-KEYS-SCAN-RANDOMKEY-FLUSHDB-FLUSHALL, blocking pop parked in DB i with pushes in DB j then i; "
                       "oracle: replies (script paths: error class, DBSIZE/KEYS, and touched-key probes in 3 DBs) and a "
                       "canonical dump of all 16 DBs after every history against a 16-way model; "
                       "cell = (path, family, db class)", t0,
                       assumptions=["reference model", "script reply conversion is not judged here (C12)"], min_cells=25)

"""C11 — the append-only file is a faithful redo log.

Child with --appendonly yes; histories over the full write catalogue through
the four paths (direct, MULTI/EXEC, EVAL/EVALSHA, served blocking pop and the
blocking-pop fast path) in several databases. At quiescent points (every sent
command acknowledged) the file must be a sequence of complete RESP arrays of
bulk strings, and replaying its frames in order over TCP into a fresh plain
child must give the live server's canonical dump (values; TTL presence)."""
import hashlib
import os
import time

from .. import server, util, resp, gen
from ..diff import server_key_snapshot
from ..model import Model, Err
from ..resp import OK, QUEUED, Closed, Timeout
from ..util import Result
from .c09 import dump_all
from .c10 import snap_only
from .c18 import gen_any

SCRIPT = b"return redis.call(unpack(ARGV))"
SHA = hashlib.sha1(SCRIPT).hexdigest().encode()
# scripts are not rolled back: what they wrote before failing took effect and belongs in the log
FAILING_SCRIPTS = [
    (b"redis.call(unpack(ARGV)) error('failing after the write')", "error-after-write"),
    (b"redis.call(unpack(ARGV)) return {err = 'error table after the write'}", "err-table-after-write"),
    (b"redis.call(unpack(ARGV)) return redis.call('INCR', 'c11:alist')", "wrongtype-after-write"),
    (b"redis.call(unpack(ARGV)) redis.call('NOSUCHCOMMAND') return 1", "unknown-command-after-write"),
    (b"redis.call('RPUSH', 'c11:alist', 'x') redis.call(unpack(ARGV)) redis.pcall('INCR', 'c11:alist') return redis.error_reply and 1 or {err = 'e'}", "writes-around-pcall-error"),
    (b"redis.call(unpack(ARGV)) return redis.pcall('INCR', 'c11:alist')", "returns-pcall-error"),
]
WRITE_NAMES = ["SET", "SETNX", "SETEX", "PSETEX", "GETSET", "APPEND", "SETRANGE", "INCR", "DECR", "INCRBY", "DECRBY", "MSET",
               "DEL", "EXPIRE", "PEXPIRE", "PERSIST", "RENAME", "RENAMENX", "FLUSHDB", "LPUSH", "RPUSH", "LPOP", "RPOP", "LSET",
               "LTRIM", "LREM", "SADD", "SREM", "SPOP", "HSET", "HMSET", "HDEL", "HINCRBY", "ZADD", "ZREM", "ZINCRBY",
               "ZPOPMIN", "ZPOPMAX", "XADD", "XDEL", "XTRIM", "BLPOP", "BRPOP"]


def parse_aof(data):
    """-> (frames, problem). Every frame must be a complete array of bulk strings."""
    frames = []
    pos = 0
    while pos < len(data):
        try:
            v, pos2 = resp.parse(data, pos)
        except resp.Incomplete:
            return frames, "incomplete frame at offset %d of %d: %r" % (pos, len(data), data[pos:pos + 60])
        except resp.ProtocolError as e:
            return frames, "undecodable bytes at offset %d: %s: %r" % (pos, e, data[pos:pos + 60])
        if not isinstance(v, list) or not v or not all(isinstance(x, bytes) for x in v):
            return frames, "frame at offset %d is not an array of bulk strings: %s" % (pos, resp.show(v, 40))
        frames.append(v)
        pos = pos2
    return frames, None


def write_cmd(rng, m, db):
    """A state-changing command (ASCII only for script paths is decided by the caller)."""
    for _ in range(200):
        a = gen_any(rng, m, db)
        n = a[0].upper().decode("latin1")
        if n in WRITE_NAMES and n not in ("BLPOP", "BRPOP"):
            # auto stream IDs and ~ trimming are fine: the log must replay to the same outcome
            return a
    return [b"INCR", b"k1"]


def ascii_write(rng, m, db):
    akeys = [b"k1", b"k2", b"key:3", b"k1x", b"K1", b"0"]
    for _ in range(60):
        k = rng.choice(akeys)
        u = b"%d" % rng.randrange(10 ** 6)
        cand = rng.choice([[b"SET", k, b"v" + u], [b"RPUSH", k, b"e" + u], [b"LPUSH", k, b"e" + u], [b"INCRBY", k, b"7"],
                           [b"APPEND", k, b"+" + u], [b"SADD", k, b"m" + u], [b"HSET", k, b"f", b"v" + u], [b"ZADD", k, b"3", b"m" + u],
                           [b"DEL", k], [b"LPOP", k], [b"HINCRBY", k, b"n", b"2"], [b"ZINCRBY", k, b"1.5", b"m"], [b"XADD", k, b"%d-1" % rng.randrange(1, 10 ** 9), b"f", u],
                           [b"EXPIRE", k, b"5000"], [b"PERSIST", k], [b"RENAME", k, rng.choice(akeys)], [b"SETEX", k, b"9000", u],
                           [b"MSET", k, u, rng.choice(akeys), u], [b"GETSET", k, u], [b"HMSET", k, b"g", u], [b"PEXPIRE", k, b"9000000"],
                           [b"SREM", k, b"m1"], [b"LTRIM", k, b"0", b"1"], [b"ZPOPMIN", k], [b"SETRANGE", k, b"2", b"zz"]])
        import copy
        saved = m.dbs[db]
        m.dbs[db] = copy.deepcopy(saved)
        try:
            r0 = m.apply(db, cand)
        finally:
            m.dbs[db] = saved
        if not isinstance(r0, Err):
            return cand
    return [b"INCR", b"k2"]


class Env:
    def __init__(self, binary):
        self.live = server.Server(binary, appendonly=True, config_text="save \"\"\n").start()
        self.replay = server.Server(binary, config_text="save \"\"\n").start()
        self.binary = binary

    def aof_bytes(self):
        p = os.path.join(self.live.dir, "appendonly.aof")
        try:
            with open(p, "rb") as f:
                return f.read()
        except FileNotFoundError:
            return b""

    def fresh(self):
        """New live server with an empty log (the log has no truncation command)."""
        self.live.cleanup()
        self.live = server.Server(self.binary, appendonly=True, config_text="save \"\"\n").start()

    def close(self):
        self.live.cleanup()
        self.replay.cleanup()


def quiescent_check(env, res, c, paths_used, hist):
    """Every command so far was acknowledged: the file must be complete and replay to the live dataset."""
    data = env.aof_bytes()
    frames, problem = parse_aof(data)
    res.evaluations += 1
    res.count("aof_frames_checked", len(frames))
    ptag = "+".join(sorted(paths_used)) or "none"
    if problem:
        res.violation("frame/%s" % problem.split(" ")[0], "AOF at a quiescent point: %s" % problem, {"history": hist[-60:]})
        return False
    rc = env.replay.client(timeout=60)
    try:
        rc.cmd("FLUSHALL")
        rc.cmd("SCRIPT", "FLUSH")
        # replay in file order; replies are not judged (the log records attempts too), only the outcome
        for i in range(0, len(frames), 100):
            rc.send_raw(b"".join(resp.encode(f) for f in frames[i:i + 100]))
            for _ in frames[i:i + 100]:
                try:
                    rc.recv(timeout=20)
                except Timeout:
                    res.violation("nonreplayable/blocks", "replaying the AOF blocks at one of the frames %s" % resp.show(frames[i:i + 100][:5], 40), {"history": hist[-60:]})
                    return False
        live = snap_only(dump_all(c))
        rep = snap_only(dump_all(rc))
    finally:
        rc.close()
    if live != rep:
        diff = sorted(k for k in set(live) | set(rep) if live.get(k) != rep.get(k))
        k = diff[0]
        # which recent commands touched that key?
        touching = [h for h in hist if k[1] in h][-6:]
        names = sorted(set(h.split(b" ")[1].upper().decode("latin1") if h.startswith(b"[") else h.split(b" ")[0].upper().decode("latin1") for h in touching)) if touching else []
        kind = "wrong-db" if any(kk[1] == k[1] and kk[0] != k[0] and (rep.get(kk) == live.get(k) or live.get(kk) == rep.get(k)) for kk in set(live) | set(rep)) else "dataset"
        res.violation("replay-differs/%s" % kind,
                      "(paths used: " + ptag + ") replaying the %d logged frames gives a different dataset for %d key(s), e.g. db %d key %s: live %s, replayed %s\nrecent commands on that key: %s\nlogged frames naming it: %s" % (
                          len(frames), len(diff), k[0], resp.show(k[1]), resp.show(list(live.get(k, ("none",))), 40), resp.show(list(rep.get(k, ("none",))), 40),
                          resp.show(touching, 80), resp.show([f for f in frames if k[1] in f][-6:], 40)),
                      {"history": [h.decode("latin1") for h in hist[-80:]]})
        return False
    return True


RANDOM_SCRIPTS = [
    (b"redis.call('SADD','rs','a','b','c','d','e','f') return redis.call('SPOP','rs')", "spop"),
    (b"return redis.call('XADD','rx','*','f','v')", "xadd-auto-id"),
    (b"redis.call('SADD','rs2','a','b','c','d','e','f','g','h') local m = redis.call('SRANDMEMBER','rs2') redis.call('SET','picked',m) return m", "srandmember"),
    (b"local t = redis.call('TIME') redis.call('SET','now',t[1]..'.'..t[2]) return 1", "time"),
    (b"redis.call('SET','rnd',tostring(math.random(1000000))) return 1", "math-random"),
]


def script_random(env, rng, res, c, other):
    """Scripts whose effect depends on a random / time-dependent outcome must be logged in a form that replays
    to the same outcome."""
    try:
        for script, tag in RANDOM_SCRIPTS:
            env.fresh()
            cc = env.live.client(timeout=30)
            for _ in range(6):
                cc.cmd(b"EVAL", script, b"0")
                time.sleep(0.002)
            res.cell("script-random", tag)
            data = env.aof_bytes()
            frames, problem = parse_aof(data)
            res.evaluations += 1
            if problem:
                res.violation("frame/script", problem)
                continue
            rc = env.replay.client(timeout=30)
            rc.cmd("FLUSHALL")
            for f in frames:
                rc.cmd(*f)
            live = snap_only(dump_all(cc))
            rep = snap_only(dump_all(rc))
            rc.close()
            cc.close()
            if live != rep:
                k = sorted(k for k in set(live) | set(rep) if live.get(k) != rep.get(k))[0]
                res.violation("replay-differs/script-random-outcome/%s" % tag,
                              "6 x EVAL %r: replaying the log gives %s = %s, live %s" % (script[:80], resp.show(k[1]), resp.show(list(rep.get(k, ("none",))), 40), resp.show(list(live.get(k, ("none",))), 40)))
    finally:
        c.close()
        other.close()


def history(env, rng, res, hn):
    env.fresh()
    srv = env.live
    c = srv.client(timeout=30)
    other = srv.client(timeout=30)
    m = Model()
    db = 0
    hist = []
    paths_used = set()
    loaded = False
    scenario = rng.choice(["direct", "direct", "multi", "script", "blocking", "mixed", "mixed", "multi-db", "script-random"])
    if scenario == "script-random":
        return script_random(env, rng, res, c, other)
    nsteps = rng.randrange(20, 120)
    try:
        for argv in gen.seed_commands(rng):
            m.apply(db, argv)
            c.cmd(*argv)
            hist.append(b" ".join(argv)[:120])
        rewrite_at = rng.randrange(nsteps) if rng.random() < 0.3 else -1
        for step in range(nsteps):
            if step == rewrite_at:
                # a log rewrite in the middle: what is written afterwards belongs in the file that replaces it
                c.cmd("BGREWRITEAOF")
                time.sleep(0.05)
                hist.append(b"BGREWRITEAOF")
                paths_used.add("bgrewriteaof")
                res.cell("bgrewriteaof", "mid-history")
            path = scenario if scenario not in ("mixed", "multi-db") else rng.choice(["direct", "direct", "multi", "script", "blocking"])
            if scenario == "multi-db" and rng.random() < 0.2:
                db = rng.choice([0, 1, 2, 15])
                c.cmd("SELECT", db)
                paths_used.add("select")
                hist.append(b"SELECT %d" % db)
                continue
            if path == "direct":
                a = write_cmd(rng, m, db)
                try:
                    m.apply(db, a)
                except Exception:
                    pass
                c.cmd(*a)
                hist.append(b" ".join(a)[:120])
                res.cell("direct", a[0].upper().decode("latin1"))
            elif path == "multi":
                cmds = [write_cmd(rng, m, db) for _ in range(rng.randrange(1, 4))]
                c.cmd("MULTI")
                for a in cmds:
                    c.cmd(*a)
                r = c.cmd("EXEC")
                for a in cmds:
                    try:
                        m.apply(db, a)
                    except Exception:
                        pass
                    hist.append(b"[multi] " + b" ".join(a)[:110])
                    res.cell("multi", a[0].upper().decode("latin1"))
            elif path == "script":
                a = ascii_write(rng, m, db)
                try:
                    m.apply(db, a)
                except Exception:
                    pass
                if rng.random() < 0.3:
                    fs, tag = rng.choice(FAILING_SCRIPTS)
                    c.cmd("RPUSH", "c11:alist", "seed")
                    if rng.random() < 0.7:
                        c.cmd(b"EVAL", fs, b"0", *a)
                    else:
                        c.cmd("MULTI")
                        c.cmd(b"EVAL", fs, b"0", *a)
                        c.cmd("EXEC")
                    hist.append(b"[eval, fails after writing: " + tag.encode() + b"] " + b" ".join(a)[:90])
                    res.cell("eval-failing", tag)
                    paths_used.add("eval-failing")
                elif rng.random() < 0.5:
                    c.cmd(b"EVAL", SCRIPT, b"0", *a)
                    hist.append(b"[eval] " + b" ".join(a)[:110])
                    res.cell("eval", a[0].upper().decode("latin1"))
                    paths_used.add("eval")
                else:
                    if not loaded:
                        c.cmd(b"SCRIPT", b"LOAD", SCRIPT)
                        loaded = True
                    # the digest in the spelling a client may use (servers that accept upper case must log it too)
                    sha = SHA if rng.random() < 0.7 else (SHA.upper() if rng.random() < 0.6 else SHA[:20].upper() + SHA[20:])
                    c.cmd(b"EVALSHA", sha, b"0", *a)
                    hist.append(b"[evalsha] " + b" ".join(a)[:110])
                    res.cell("evalsha", a[0].upper().decode("latin1"))
                    paths_used.add("evalsha")
                continue
            else:
                key = rng.choice([b"bl1", b"bl2"])
                op = rng.choice([b"BLPOP", b"BRPOP"])
                if rng.random() < 0.5:
                    # fast path: an element is there
                    c.cmd("RPUSH", key, b"fast-%d" % step, b"fast2-%d" % step)
                    r = c.cmd(op, key, b"1")
                    hist.append(b"RPUSH %s x y; %s %s 1 (fast path)" % (key, op, key))
                    res.cell("blocking-fast-path", op.decode())
                    paths_used.add("blocking-fast")
                else:
                    if other.cmd("SELECT", db) != OK:
                        raise RuntimeError("select")
                    other.send(op, key, b"0")
                    server.wait_loops(c, 4)
                    if rng.random() < 0.4:
                        # the serving push travels in one write with traffic for ANOTHER database: the pop done
                        # for the waiter is logged after it and must still carry its own database
                        odb = rng.choice([x for x in (0, 1, 2, 15) if x != db])
                        c.pipeline([[b"RPUSH", key, b"served-%d" % step, b"stays-%d" % step], [b"SELECT", b"%d" % odb],
                                    [b"SET", b"other-db-traffic", b"%d" % step], [b"SELECT", b"%d" % db]])
                        paths_used.add("blocking-served-with-other-db-traffic")
                    else:
                        c.cmd("RPUSH", key, b"served-%d" % step, b"stays-%d" % step)
                    try:
                        got = other.recv(timeout=10)
                    except Timeout:
                        raise RuntimeError("waiter not served within 10 s: db=%r key=%r op=%r LRANGE=%r BLOCKED=%r" % (
                            db, key, op, c.cmd("LRANGE", key, 0, -1), c.cmd("VERIF", "BLOCKED")))
                    hist.append(b"[blocked %s %s] RPUSH %s a b -> served" % (op, key, key))
                    res.cell("blocking-served", op.decode())
                    paths_used.add("blocking-served")
                continue
            paths_used.add(path)
            if (step + 1) % 50 == 0:
                if not quiescent_check(env, res, c, paths_used, hist):
                    return
                c.cmd("SELECT", db)      # the dump walks all databases and ends in 0
        quiescent_check(env, res, c, paths_used, hist)
        if hn <= 2:
            res.sample([h.decode("latin1")[:80] for h in hist[-8:]])
    finally:
        c.close()
        other.close()


def worker(wseed, binary, budget_s):
    rng = util.rng_for(wseed, "C11")
    res = Result()
    env = Env(binary)
    try:
        t_end = time.time() + budget_s
        n = 0
        while time.time() < t_end:
            n += 1
            try:
                history(env, rng, res, n)
            except (Closed, Timeout, RuntimeError) as e:
                if not env.live.alive():
                    res.violation("server-died", "AOF-enabled server exited %s\n%s" % (env.live.exit_status(), env.live.stderr_tail(1200)))
                else:
                    import traceback
                    res.inconclusive.append("history %d: %r at %s" % (n, e, " <- ".join(
                        "%s:%d" % (f.name, f.lineno) for f in traceback.extract_tb(e.__traceback__)[-3:])))
                env.close()
                env = Env(binary)
        res.count("histories", n)
    finally:
        env.close()
    return res


def run(tier):
    t0 = time.time()
    seed = util.seed_from_env()
    binary, bt = server.build("dev")
    n = util.jobs()
    res = util.run_workers(worker, [seed * 1000 + i for i in range(n)], dict(binary=binary, budget_s=25 if tier == "quick" else 300))
    return util.finish("C11", tier, seed, "exploration", res,
                       "histories of 20-120 state-changing commands from the full write catalogue (%d names, mostly non-idempotent "
                       "with unique operands, random-outcome commands included) through direct / MULTI-EXEC / EVAL / EVALSHA / "
                       "blocking-pop fast path / served blocking pop, one scenario switching databases; at quiescent points "
                       "(every 50 commands and at the end, each on a fresh AOF) the file is parsed by an independent RESP reader "
                       "(complete arrays of bulk strings) and replayed in order over TCP into a fresh plain child whose canonical "
                       "dump of all 16 DBs (values; TTL presence) must equal the live server's; cell = (path, command)" % len(WRITE_NAMES), t0,
                       assumptions=["replay replies are not judged, only the resulting dataset", "consumer-group state is not part of the dump"],
                       min_cells=30)

"""E5(c): ThreadSanitizer pass — the server built with -Zsanitizer=thread
(-Zbuild-std, so std and every crate are instrumented) is driven by a workload
that keeps every background thread busy on data the command thread is mutating:

 * mode "save":   BGSAVE / SAVE / BGREWRITEAOF in a loop while clients mutate
                  sorted sets, streams (+ groups), lists, hashes, strings — the
                  values the snapshot thread shares by Arc (C10).
 * mode "expire": thousands of keys of every type with 1..300 ms TTLs re-created,
                  renamed, persisted and read while the sweeper deletes (C02).

Oracle: report blocks in the child's stderr (counted from the log, exit code
not trusted). halt_on_error=0, so one run collects every distinct report;
signatures are the first in-repo frames of the two stacks.
"""
import random
import threading
import time

from .. import resp, sanitize, server, util
from ..resp import Closed, Timeout
from ..util import Result


def _client_loop(srv, mode, seed, t_end, counters, idx):
    rng = random.Random(seed)
    try:
        c = srv.client(timeout=60.0)
    except OSError:
        return
    n = 0
    keys = [b"k%d" % i for i in range(24)]
    try:
        while time.time() < t_end:
            k = rng.choice(keys)
            r = rng.random()
            batch = []
            if mode == "save":
                typ = k[-1] % 6
                if typ == 0:
                    batch.append([b"ZADD", b"z" + k, str(rng.randrange(50)), b"m%d" % rng.randrange(300)])
                    batch.append([b"ZREM", b"z" + k, b"m%d" % rng.randrange(300)])
                    batch.append([b"ZINCRBY", b"z" + k, b"1.5", b"m%d" % rng.randrange(300)])
                    if r < 0.1:
                        batch.append([b"ZPOPMIN", b"z" + k])
                    if r < 0.01:
                        batch.append([b"DEL", b"z" + k])
                elif typ == 1:
                    batch.append([b"XADD", b"x" + k, b"*", b"f", b"v%d" % n])
                    if r < 0.3:
                        batch.append([b"XGROUP", b"CREATE", b"x" + k, b"g", b"0"])
                        batch.append([b"XREADGROUP", b"GROUP", b"g", b"c%d" % idx, b"COUNT", b"3", b"STREAMS", b"x" + k, b">"])
                    if r < 0.1:
                        batch.append([b"XTRIM", b"x" + k, b"MAXLEN", b"50"])
                    if r < 0.05:
                        batch.append([b"XACK", b"x" + k, b"g", b"0-1"])
                elif typ == 2:
                    batch.append([b"RPUSH", b"l" + k, b"e%d" % n])
                    batch.append([b"LPOP", b"l" + k])
                    batch.append([b"LPUSH", b"l" + k, b"a", b"b"])
                    if r < 0.2:
                        batch.append([b"LTRIM", b"l" + k, b"0", b"40"])
                elif typ == 3:
                    batch.append([b"HSET", b"h" + k, b"f%d" % rng.randrange(100), b"v%d" % n])
                    batch.append([b"HDEL", b"h" + k, b"f%d" % rng.randrange(100)])
                elif typ == 4:
                    batch.append([b"SADD", b"s" + k, b"m%d" % rng.randrange(200)])
                    batch.append([b"SPOP", b"s" + k])
                else:
                    batch.append([b"SET", b"t" + k, b"v%d" % n, b"PX", str(rng.randrange(50, 5000)).encode()])
                    batch.append([b"APPEND", b"t" + k, b"x" * rng.randrange(100)])
                if idx == 0 and n % 40 == 0:
                    batch.append(rng.choice([[b"BGSAVE"], [b"BGSAVE"], [b"SAVE"], [b"BGREWRITEAOF"]]))
            else:
                ttl = str(rng.choice([1, 2, 5, 20, 80, 300])).encode()
                kk = rng.choice([b"s", b"l", b"h", b"z", b"e", b"x"]) + k
                t = kk[:1]
                if t == b"s":
                    batch.append([b"SET", kk, b"v", b"PX", ttl])
                elif t == b"l":
                    batch.append([b"RPUSH", kk, b"a"])
                elif t == b"h":
                    batch.append([b"HSET", kk, b"f", b"v"])
                elif t == b"z":
                    batch.append([b"ZADD", kk, b"1", b"m"])
                elif t == b"e":
                    batch.append([b"SADD", kk, b"m"])
                else:
                    batch.append([b"XADD", kk, b"*", b"f", b"v"])
                batch.append([b"PEXPIRE", kk, ttl])
                if r < 0.2:
                    batch.append([b"RENAME", kk, kk + b"r"])
                if r < 0.1:
                    batch.append([b"PERSIST", kk])
                if r < 0.5:
                    batch.append([b"EXISTS", kk, kk + b"r"])
                    batch.append([b"PTTL", kk])
                if r < 0.05:
                    batch.append([b"KEYS", b"*"])
                    batch.append([b"DBSIZE"])
                if r < 0.02:
                    batch.append([b"SCAN", b"0", b"COUNT", b"100"])
            c.pipeline(batch)
            n += len(batch)
    except (Closed, Timeout, OSError):
        counters["client_errors"] = counters.get("client_errors", 0) + 1
    finally:
        counters["cmds"] = counters.get("cmds", 0) + n
        c.close()


def run_soup(prop, seed, seconds, mode, nclients=6):
    res = Result()
    try:
        binary, env, bt = sanitize.build("tsan")
    except server.BuildError as e:
        res.inconclusive.append("tsan build failed (stage skipped): " + str(e)[-600:])
        return res
    res.extra["tsan_build_s"] = round(bt, 1)
    srv = server.Server(binary, extra_env=env, appendonly=(mode == "save"), start_timeout=90.0).start()
    counters = {}
    try:
        t_end = time.time() + seconds
        ths = [threading.Thread(target=_client_loop, args=(srv, mode, seed * 100 + i, t_end, counters, i))
               for i in range(nclients)]
        for t in ths:
            t.start()
        for t in ths:
            t.join(seconds + 120)
        alive = srv.alive()
        saves = passes = None
        if alive:
            try:
                c = srv.client(timeout=60.0)
                saves = c.cmd("VERIF", "RDB", "SAVES")
                passes = c.cmd("VERIF", "SWEEPER", "PASSES")
                c.close()
            except (Closed, Timeout, OSError):
                pass
        res.evaluations += counters.get("cmds", 0)
        res.count("tsan_%s_commands" % mode, counters.get("cmds", 0))
        if isinstance(saves, list) and len(saves) == 2:
            res.count("tsan_%s_saves_started" % mode, saves[0])
            res.count("tsan_%s_saves_finished" % mode, saves[1])
            if mode == "save" and saves[1] < 2:
                res.inconclusive.append("tsan save workload completed only %r saves" % (saves,))
        if isinstance(passes, int):
            res.count("tsan_%s_sweeper_passes" % mode, passes)
        res.cell("tsan", mode, "ran")
        n = sanitize.record(res, prop, srv.stderr_text(), "tsan")
        if not alive and n == 0:
            res.violation("server-died/tsan-%s" % mode, "server exited %s under the TSan %s workload\n%s" % (
                srv.exit_status(), mode, srv.stderr_tail(2000)))
        if counters.get("cmds", 0) < 1000:
            res.inconclusive.append("tsan %s workload executed only %d commands" % (mode, counters.get("cmds", 0)))
    finally:
        srv.cleanup()
    return res


if __name__ == "__main__":
    import sys
    r = run_soup("C10", 1, float(sys.argv[2]) if len(sys.argv) > 2 else 20, sys.argv[1])
    print(r.evaluations, r.extra, r.inconclusive)
    for v in r.violations[:10]:
        print(v["sig"])
        print(v["detail"][:2500])

"""C07 — MULTI/EXEC runs the queued commands atomically, in order, or not at all.

Monitor A (sequential + a second interleaved connection): queued lists drawn
from all data-type generators incl. commands that fail at run time; EXEC array
compared slot by slot with the model; DISCARD, nested MULTI, EXEC/DISCARD
without MULTI, state not inherited by other connections, nothing visible before
EXEC, disconnect before EXEC => no effect, disconnect right after the EXEC bytes
=> all or none.
Monitor B (free-running contention): transaction writers, plain writers and
script writers on shared keys, single-command readers; unique values make
every observation attributable; linear-time oracles."""
import threading
import time

from .. import server, util, resp, gen
from ..diff import Differ, Abandon
from ..model import Model, matches, Err
from ..resp import OK, QUEUED, NULL_ARRAY, Closed, Timeout
from ..util import Result
from .c18 import gen_any

TYPES_SEED = [None, [b"SET", "K", b"v"], [b"SET", "K", b"5"], [b"RPUSH", "K", b"a"], [b"SADD", "K", b"a"],
              [b"HSET", "K", b"f", b"v"], [b"ZADD", "K", b"1", b"a"], [b"XADD", "K", b"1-1", b"f", b"v"]]


def is_runtime_only(argv):
    """True unless the command is refused whatever the key holds (arity / syntax /
    bad literal): Redis refuses those at queue time, which the statement does not
    cover, so they are not queued."""
    if len(argv) < 2:
        return argv[0].upper() in (b"DBSIZE", b"RANDOMKEY", b"FLUSHDB", b"FLUSHALL", b"PING")
    for seedcmd in TYPES_SEED:
        m = Model()
        if seedcmd is not None:
            m.apply(0, [argv[1] if x == "K" else x for x in seedcmd])
        try:
            r = m.apply(0, argv)
        except KeyError:
            return False
        if not isinstance(r, Err):
            return True
    return False


def seq_history(d, srv, rng, res):
    m = d.model
    c = d.c
    other = srv.client()
    open_waiters = []
    try:
        for argv in gen.seed_commands(rng):
            d.step(argv, probe=False, cellinfo=False)
        for _ in range(rng.randrange(2, 8)):
            kind = rng.choice(["exec", "exec", "exec", "discard", "nested", "nomulti", "interleaved", "disconnect",
                               "disconnect-after-exec", "blocked-waiter", "blocked-waiter", "after-watch-abort"])
            cmds = []
            for _j in range(rng.randrange(0, 7)):
                a = gen_any(rng, m, 0)
                if a[0].upper() in (b"BLPOP", b"BRPOP", b"FLUSHALL", b"RANDOMKEY", b"SPOP", b"SRANDMEMBER"):
                    continue
                if not is_runtime_only(a):
                    continue
                cmds.append(a)
            d.history.append([b"<%s>" % kind.encode()] + [b" ".join(x)[:50] for x in cmds])
            if kind == "nomulti":
                for name in ("EXEC", "DISCARD"):
                    r = c.cmd(name)
                    res.evaluations += 1
                    if not isinstance(r, Err):
                        d.diverge("no-multi/%s" % name, "%s without MULTI -> %s" % (name, resp.show(r)))
                res.cell("nomulti")
                continue
            if kind in ("disconnect", "disconnect-after-exec"):
                t = srv.client()
                marker = b"marker:%d" % rng.randrange(10 ** 9)
                wr = [[b"SET", marker, b"1"], [b"RPUSH", marker + b":l", b"x"], [b"INCR", marker + b":n"]]
                data = resp.encode([b"MULTI"]) + b"".join(resp.encode(w) for w in wr)
                if kind == "disconnect":
                    t.send_raw(data)
                    # make sure the server has read the commands before the socket closes
                    for _i in range(1 + len(wr)):
                        t.recv()
                    t.close()
                else:
                    t.send_raw(data + resp.encode([b"EXEC"]))
                    t.close()
                server.wait_loops(c, 5)
                vals = c.pipeline([[b"EXISTS", marker], [b"EXISTS", marker + b":l"], [b"EXISTS", marker + b":n"]])
                res.evaluations += 1
                res.cell(kind, str(sum(vals)))
                if kind == "disconnect" and vals != [0, 0, 0]:
                    d.diverge("effect-after-disconnect", "MULTI + 3 writes, socket closed before EXEC: EXISTS -> %s" % vals)
                if kind == "disconnect-after-exec":
                    if vals not in ([0, 0, 0], [1, 1, 1]):
                        d.diverge("partial-after-disconnect", "MULTI + 3 writes + EXEC then close: EXISTS -> %s (neither all nor none)" % vals)
                    if vals == [1, 1, 1]:
                        for w in wr:
                            m.apply(0, w)
                continue
            if kind == "after-watch-abort":
                # a transaction refused because a watched key changed leaves nothing behind: not its
                # effects, and not its queue - the next transaction on this connection runs its own commands only
                wk = rng.choice(gen.KEYS)
                c.cmd("WATCH", wk)
                wcmd = [b"SET", wk, b"changed-by-other-%d" % rng.randrange(10 ** 6)]
                other.cmd(*wcmd)
                m.apply(0, wcmd)
                c.cmd("MULTI")
                doomed = [[b"SET", b"doomed:%d" % j, b"x"] for j in range(rng.randrange(1, 4))] + [[b"RPUSH", b"doomed:l", b"x"]]
                for a in doomed:
                    c.cmd(*a)
                ex0 = c.cmd("EXEC")
                res.evaluations += 1
                res.cell("after-watch-abort", "aborted" if ex0 is NULL_ARRAY else "not-aborted")
                if ex0 is not NULL_ARRAY:
                    d.diverge("watch-abort/exec-reply", "WATCH %s; [other] SET %s; MULTI; ...; EXEC -> %s, expected nil" % (resp.show(wk), resp.show(wk), resp.show(ex0, 40)))
                d.history.append([b"<aborted by WATCH>"] + [b" ".join(x) for x in doomed])
            waiter = None
            if kind == "blocked-waiter":
                # a third client parked in a blocking pop on keys the transaction is going to push to:
                # it must be served after EXEC as a whole, never between two queued commands
                absent = [k for k in gen.KEYS if m.snapshot_key(0, k)[0] == "none"]
                if absent:
                    wkeys = rng.sample(absent, min(len(absent), rng.choice([1, 1, 2])))
                    wpop = rng.choice([b"BLPOP", b"BRPOP"])
                    waiter = srv.client(timeout=5)
                    open_waiters.append(waiter)
                    waiter.send(wpop, *wkeys, b"0")
                    server.wait_loops(c, 3)
                    # make it likely that the transaction feeds the waiter
                    for wk in wkeys:
                        if rng.random() < 0.8:
                            pos = rng.randrange(len(cmds) + 1)
                            cmds[pos:pos] = [[rng.choice([b"RPUSH", b"LPUSH"]), wk, b"w%d" % rng.randrange(1000), b"w2"],
                                             rng.choice([[b"LLEN", wk], [b"LRANGE", wk, b"0", b"-1"], [b"LPOP", wk], [b"RPUSH", wk, b"w3"]])]
                    d.history.append([b"<waiter>", wpop] + wkeys)
            r = c.cmd("MULTI")
            if r != OK:
                d.diverge("multi-reply", "MULTI -> %s" % resp.show(r))
            before = {k: m.snapshot_key(0, k) for k in gen.KEYS}
            for i, a in enumerate(cmds):
                if kind == "nested" and i == len(cmds) // 2:
                    rn = c.cmd("MULTI")
                    res.evaluations += 1
                    if not isinstance(rn, Err):
                        d.diverge("nested-multi", "MULTI inside MULTI -> %s" % resp.show(rn))
                q = c.cmd(*a)
                res.evaluations += 1
                if q != QUEUED:
                    d.diverge("not-queued/%s" % a[0].upper().decode("latin1"), "inside MULTI %s -> %s" % (resp.show(a), resp.show(q)))
                if kind == "interleaved":
                    # another connection: not in a transaction, sees the old state
                    k = rng.choice(gen.KEYS)
                    from ..diff import server_key_snapshot, snap_equal
                    ss = server_key_snapshot(other, k)
                    if not snap_equal(before[k], ss):
                        d.diverge("visible-before-exec", "other connection sees key %s = %s while the transaction is only queued (expected %s)" % (
                            resp.show(k), resp.show(list(ss)), resp.show(list(before[k]))))
                    r2 = other.cmd("PING")
                    if r2 != resp.PONG:
                        d.diverge("state-leak", "another connection's PING during someone's MULTI -> %s" % resp.show(r2))
            if kind == "discard":
                r = c.cmd("DISCARD")
                res.evaluations += 1
                res.cell("discard", min(len(cmds), 3))
                if r != OK:
                    d.diverge("discard-reply", "DISCARD -> %s" % resp.show(r))
                r = c.cmd("EXEC")
                if not isinstance(r, Err):
                    d.diverge("discard-keeps-state", "EXEC after DISCARD -> %s" % resp.show(r))
                d.probe_keys(gen.KEYS, "DISCARD")
                continue
            ex = c.cmd("EXEC")
            res.evaluations += 1
            if not isinstance(ex, list) or len(ex) != len(cmds):
                d.diverge("exec-reply/shape", "EXEC of %d queued commands -> %s" % (len(cmds), resp.show(ex, 40)))
            nerr = 0
            for i, (a, act) in enumerate(zip(cmds, ex)):
                exp = m.apply(0, a)
                nerr += isinstance(act, Err)
                if not matches(exp, act):
                    d.diverge("exec-reply/slot/%s" % a[0].upper().decode("latin1"),
                              "transaction %s: slot %d (%s) -> %s, expected %r" % (resp.show(cmds, 30), i, resp.show(a), resp.show(act), exp))
            res.cell(kind, min(len(cmds), 4), "with-runtime-error" if nerr else "clean")
            if kind == "after-watch-abort":
                left = c.cmd("EXISTS", "doomed:0", "doomed:1", "doomed:2", "doomed:l")
                if left != 0:
                    d.diverge("watch-abort/effects-later", "commands of a transaction refused by WATCH took effect during the NEXT transaction on the connection: "
                              "EXISTS doomed:* -> %r" % (left,))
            if waiter is not None:
                server.wait_loops(c, 3)
                ready = [wk for wk in wkeys if m.snapshot_key(0, wk)[0] == "list"]
                got = waiter.try_recv(2.0 if ready else 0.05)
                if ready:
                    # which of several ready keys serves the client is not stated (Redis: the first one
                    # written; key order is as defensible): any ready key, but the element must be the
                    # end of that list as EXEC left it
                    res.cell("blocked-waiter", "served-after-exec", "one-ready" if len(ready) == 1 else "several-ready")
                    okk = isinstance(got, list) and len(got) == 2 and got[0] in ready
                    if okk:
                        lst = m.snapshot_key(0, got[0])[1]
                        okk = got[1] == (lst[0] if wpop == b"BLPOP" else lst[-1])
                    if not okk:
                        waiter.close()
                        d.diverge("waiter-after-exec/%s" % ("not-served" if got is resp.NOTHING else "wrong-element"),
                                  "a client blocked in %s %s before the transaction %s must be served after EXEC from the %s of one of %s as EXEC left them, got %s" % (
                                      wpop.decode(), resp.show(wkeys), resp.show(cmds, 30), "head" if wpop == b"BLPOP" else "tail",
                                      resp.show([(k, m.snapshot_key(0, k)[1]) for k in ready], 30), resp.show(got)))
                    m.apply(0, [b"LPOP" if wpop == b"BLPOP" else b"RPOP", got[0]])
                else:
                    res.cell("blocked-waiter", "still-blocked")
                    if got is not resp.NOTHING:
                        waiter.close()
                        d.diverge("waiter-after-exec/served-from-nothing", "a client blocked on %s got %s although none of its keys holds a list after %s" % (
                            resp.show(wkeys), resp.show(got), resp.show(cmds, 30)))
                waiter.close()
                server.wait_loops(c, 3)
            # state cleared: the next command executes immediately
            r = c.cmd("PING")
            if r != resp.PONG:
                d.diverge("state-not-cleared", "PING after EXEC -> %s" % resp.show(r))
            d.probe_keys(gen.KEYS, "EXEC")
        d.full_compare(dbs=[0])
        if len(res.samples) < 2:
            res.sample([resp.show(x, 40) for x in d.history[-8:]])
    finally:
        other.close()
        if open_waiters:
            for w in open_waiters:
                w.close()
            try:
                server.wait_loops(other if not other.closed else srv.client(), 3)
            except Exception:
                try:
                    t = srv.client()
                    server.wait_loops(t, 3)
                    t.close()
                except Exception:
                    pass


def seq_worker(wseed, binary, budget_s):
    rng = util.rng_for(wseed, "C07A")
    res = Result()
    known = util.Known()
    srv = server.Server(binary).start()
    try:
        d = Differ(srv, res, "C07", known)
        t_end = time.time() + budget_s
        n = 0
        while time.time() < t_end:
            n += 1
            try:
                d.reset()
                seq_history(d, srv, rng, res)
            except Abandon:
                continue
            except (Closed, Timeout) as e:
                died, what = d.recover()
                try:
                    d.diverge("connection/%s" % ("server-died" if died else type(e).__name__.lower()),
                              "connection problem: %r%s\nlast: %s" % (e, what, resp.show(d.history[-3:], 40)))
                except Abandon:
                    pass
        res.count("sequential_histories", n)
    finally:
        srv.cleanup()
    return res


# --------------------------------------------------------------------------- Monitor B
def contention_worker(wseed, binary, budget_s):
    rng = util.rng_for(wseed, "C07B")
    res = Result()
    srv = server.Server(binary).start()
    stop = threading.Event()
    lock = threading.Lock()
    problems = []
    stats = {"tx": 0, "reads": 0, "plain": 0, "script": 0, "versions": set(), "overlap_reads": 0}
    npairs = 3
    tx_brackets = []

    def note(sig, detail):
        with lock:
            problems.append((sig, detail))

    def tx_writer(tid, mode):
        c = srv.client(timeout=20)
        r = util.rng_for(wseed, "txw", tid)
        n = 0
        try:
            while not stop.is_set():
                n += 1
                p = r.randrange(npairs)
                u = b"t%d.%d" % (tid, n)
                dlt = r.randrange(1, 100)
                cmds = [[b"MULTI"], [b"SET", b"a%d" % p, u], [b"SET", b"c", u], [b"GET", b"c"],
                        [b"INCRBY", b"x%d" % p, b"%d" % dlt], [b"SET", b"b%d" % p, u], [b"DECRBY", b"y%d" % p, b"%d" % dlt],
                        [b"EXEC"]]
                t0 = time.monotonic()
                if mode == "stepwise":
                    reps = [c.cmd(*x) for x in cmds]
                elif mode == "pipeline":
                    reps = c.pipeline(cmds)
                else:
                    data = b"".join(resp.encode(x) for x in cmds)
                    cut = sorted(r.sample(range(1, len(data)), 3))
                    prev = 0
                    for ct in cut + [len(data)]:
                        c.send_raw(data[prev:ct])
                        prev = ct
                        if r.random() < 0.5:
                            time.sleep(0.0005)
                    reps = [c.recv() for _ in cmds]
                t1 = time.monotonic()
                ex = reps[-1]
                with lock:
                    stats["tx"] += 1
                    if len(tx_brackets) < 200000:
                        tx_brackets.append((t0, t1))
                if reps[0] != OK or any(q != QUEUED for q in reps[1:-1]):
                    note("not-queued/contention", "transaction replies %s" % resp.show(reps, 30))
                    continue
                if not isinstance(ex, list) or len(ex) != 6:
                    note("exec-reply/contention", "EXEC -> %s" % resp.show(ex, 30))
                    continue
                if ex[2] != u:
                    note("effect-inside/%s" % mode, "transaction %s: its own GET c between its SET c and the end returned %s: "
                         "another client's write took effect inside the transaction" % (u.decode(), resp.show(ex[2])))
                if ex[0] != OK or ex[1] != OK or ex[4] != OK or not isinstance(ex[3], int) or not isinstance(ex[5], int):
                    note("exec-reply/order", "EXEC slots out of order / wrong: %s" % resp.show(ex, 30))
                elif ex[3] + ex[5] != 0:
                    note("effect-inside/accounts", "x and y of pair %d differ inside one transaction: %s" % (p, resp.show(ex)))
        except (Closed, Timeout) as e:
            note("connection/tx-writer", repr(e))

    def plain_writer(tid, script):
        c = srv.client(timeout=20)
        n = 0
        try:
            while not stop.is_set():
                n += 1
                u = b"p%d.%d" % (tid, n)
                if script:
                    r = c.cmd(b"EVAL", b"return redis.call('SET','c',ARGV[1])", b"0", u)
                else:
                    r = c.cmd(b"SET", b"c", u)
                with lock:
                    stats["script" if script else "plain"] += 1
                if isinstance(r, Err):
                    note("plain-writer-error", "%r" % (r,))
        except (Closed, Timeout) as e:
            note("connection/plain-writer", repr(e))

    def reader(tid):
        c = srv.client(timeout=20)
        last = {}
        try:
            while not stop.is_set():
                keys = []
                for p in range(npairs):
                    keys += [b"a%d" % p, b"b%d" % p, b"x%d" % p, b"y%d" % p]
                t0 = time.monotonic()
                r = c.cmd(b"MGET", *keys)
                t1 = time.monotonic()
                with lock:
                    stats["reads"] += 1
                if not isinstance(r, list) or len(r) != len(keys):
                    note("reader-reply", resp.show(r))
                    continue
                for p in range(npairs):
                    a, b, x, y = r[4 * p:4 * p + 4]
                    if a != b:
                        note("visible-inside/pair", "reader saw a%d=%s but b%d=%s: a state between two queued commands" % (
                            p, resp.show(a), p, resp.show(b)))
                    xv = int(x) if x is not None else 0
                    yv = int(y) if y is not None else 0
                    if xv + yv != 0:
                        note("visible-inside/accounts", "reader saw x%d=%s y%d=%s (sum must be 0)" % (p, x, p, y))
                    if a is not None:
                        with lock:
                            stats["versions"].add(a)
        except (Closed, Timeout) as e:
            note("connection/reader", repr(e))

    threads = []
    modes = ["stepwise", "pipeline", "segmented", "pipeline"]
    for i in range(4):
        threads.append(threading.Thread(target=tx_writer, args=(i, modes[i])))
    threads.append(threading.Thread(target=plain_writer, args=(10, False)))
    threads.append(threading.Thread(target=plain_writer, args=(11, False)))
    threads.append(threading.Thread(target=plain_writer, args=(12, True)))
    for i in range(4):
        threads.append(threading.Thread(target=reader, args=(20 + i,)))
    try:
        for t in threads:
            t.daemon = True
            t.start()
        time.sleep(budget_s)
        stop.set()
        for t in threads:
            t.join(timeout=25)
        res.evaluations += stats["tx"] + stats["reads"] + stats["plain"] + stats["script"]
        res.count("transactions", stats["tx"])
        res.count("reader_observations", stats["reads"])
        res.count("plain_writes", stats["plain"])
        res.count("script_writes", stats["script"])
        res.count("distinct_versions_observed", len(stats["versions"]))
        for mname in set(modes):
            res.cell("contention", mname)
        res.cell("contention", "versions>100" if len(stats["versions"]) > 100 else "versions<=100")
        seen = set()
        for sig, detail in problems:
            if sig not in seen or len(seen) < 5:
                res.violation(sig, detail)
            seen.add(sig)
        if not srv.alive():
            res.violation("server-died/contention", srv.stderr_tail())
        res.sample("4 tx writers (stepwise/pipeline/segmented) + 3 writers on c + 4 MGET readers: %d transactions, %d reads, %d versions" % (
            stats["tx"], stats["reads"], len(stats["versions"])))
    finally:
        stop.set()
        srv.cleanup()
    return res


def combined(wseed, binary, budget_s, role):
    return seq_worker(wseed, binary, budget_s) if role == "seq" else contention_worker(wseed, binary, budget_s)


def _dispatch(arg, binary, budget_s):
    wseed, role = arg
    return combined(wseed, binary, budget_s, role)


def run(tier):
    t0 = time.time()
    seed = util.seed_from_env()
    binary, bt = server.build("dev")
    n = util.jobs()
    budget = 20 if tier == "quick" else 200
    args = [((seed * 1000 + i), "seq") for i in range(max(1, n - 3))] + [((seed * 1000 + 100 + i), "con") for i in range(min(3, n))]
    res = util.run_workers(_dispatch, args, dict(binary=binary, budget_s=budget), nproc=n)
    return util.finish("C07", tier, seed, "exploration", res,
                       "A: sequential transactions of 0-6 queued commands from all data-type generators (run-time failures "
                       "included, queue-time refusals excluded), EXEC array compared slot by slot with the model, DISCARD, "
                       "nested MULTI, EXEC/DISCARD without MULTI, a second connection probing keys between queued commands, "
                       "disconnect before / right after EXEC (unique marker keys, event-loop progress instead of sleeps); "
                       "B: 20 s free-running contention of 4 transaction writers (stepwise / one pipeline / split TCP "
                       "segments), 3 plain+script writers on the contended key and 4 single-MGET readers with globally "
                       "unique values; oracles: own GET inside EXEC returns own value, readers see a=b and x+y=0, slots in "
                       "queue order; cell = (scenario, size, error class)", t0,
                       assumptions=["reference model", "queue-time validation (arity/syntax inside MULTI) is not judged"],
                       min_cells=10)

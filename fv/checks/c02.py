"""C02 — expiration is exact: never early, never observable late, never spurious.

Monitor A: timed histories with an interval model. A TTL T acknowledged in the
client-side bracket [s, r] gives a deadline in [s+T, r+T]; a later request with
bracket [s', r'] is decisive-before if r' < s+T, decisive-after if s' > r+T,
otherwise don't-care. Probes are placed at ~T/2 and ~T+max(60 ms, T/2).
Monitor B: the sweeper is parked between its collect and delete phases (sync
point) while a client re-creates / renames onto the collected keys.
Monitor C: the expiry index is dumped at quiescent points; an index entry that
disagrees with the stored deadline directs the driver to wait for that index
deadline plus two sweeper passes and look at the client boundary."""
import math
import time

from .. import server, util, resp
from ..diff import server_key_snapshot
from ..resp import Err, Status, OK, NULL_ARRAY, Closed, Timeout
from ..util import Result

TYPES = ["string", "list", "set", "hash", "zset", "stream"]
CREATE = {
    "string": [b"SET", "K", b"val"], "list": [b"RPUSH", "K", b"a", b"b"], "set": [b"SADD", "K", b"a", b"b"],
    "hash": [b"HSET", "K", b"f", b"v", b"n", b"5"], "zset": [b"ZADD", "K", b"1", b"a", b"2", b"b"], "stream": [b"XADD", "K", b"1-1", b"f", b"v"],
}
VALUE = {
    "string": ("string", b"val"), "list": ("list", [b"a", b"b"]), "set": ("set", [b"a", b"b"]),
    "hash": ("hash", [(b"f", b"v"), (b"n", b"5")]), "zset": ("zset", [(b"a", 1.0), (b"b", 2.0)]), "stream": ("stream", [((1, 1), [(b"f", b"v")])]),
}
# after-deadline probes: (family, type it applies to or None, argv template, expected reply, creates a fresh key?)
AFTER = [
    ("read", "string", [b"GET", "K"], None, False), ("read", None, [b"MGET", "K"], [None], False), ("read", "string", [b"STRLEN", "K"], 0, False),
    ("read", "string", [b"GETRANGE", "K", b"0", b"-1"], b"", False),
    ("read", "list", [b"LLEN", "K"], 0, False), ("read", "list", [b"LRANGE", "K", b"0", b"-1"], [], False), ("read", "list", [b"LINDEX", "K", b"0"], None, False),
    ("read", "set", [b"SCARD", "K"], 0, False), ("read", "set", [b"SMEMBERS", "K"], [], False), ("read", "set", [b"SISMEMBER", "K", b"a"], 0, False),
    ("read", "hash", [b"HGET", "K", b"f"], None, False), ("read", "hash", [b"HLEN", "K"], 0, False), ("read", "hash", [b"HGETALL", "K"], [], False),
    ("read", "zset", [b"ZCARD", "K"], 0, False), ("read", "zset", [b"ZSCORE", "K", b"a"], None, False), ("read", "zset", [b"ZRANGE", "K", b"0", b"-1"], [], False),
    ("read", "stream", [b"XLEN", "K"], 0, False), ("read", "stream", [b"XRANGE", "K", b"-", b"+"], [], False),
    ("typecheck", None, [b"TYPE", "K"], Status(b"none"), False), ("typecheck", None, [b"EXISTS", "K"], 0, False),
    ("typecheck", None, [b"TTL", "K"], -2, False), ("typecheck", None, [b"PTTL", "K"], -2, False),
    ("condition", None, [b"SET", "K", b"new", b"XX"], None, False), ("condition", None, [b"SET", "K", b"new", b"NX"], OK, True),
    ("condition", None, [b"SETNX", "K", b"new"], 1, True), ("condition", None, [b"RENAMENX", "K", b"dest-x"], "ERR", False),
    ("condition", None, [b"RENAMENX", b"live-src", "K"], 1, True),
    ("counter", "string", [b"INCR", "K"], 1, True), ("counter", "string", [b"DECRBY", "K", b"3"], -3, True),
    ("counter", "hash", [b"HINCRBY", "K", b"n", b"7"], 7, True), ("counter", "zset", [b"ZINCRBY", "K", b"2.5", b"a"], b"2.5", True),
    ("create", "string", [b"APPEND", "K", b"xy"], 2, True), ("create", "string", [b"SETRANGE", "K", b"0", b"xy"], 2, True),
    ("create", "list", [b"LPUSH", "K", b"n"], 1, True), ("create", "list", [b"RPUSH", "K", b"n"], 1, True),
    ("create", "set", [b"SADD", "K", b"n"], 1, True), ("create", "hash", [b"HSET", "K", b"nf", b"nv"], 1, True),
    ("create", "zset", [b"ZADD", "K", b"9", b"n"], 1, True), ("create", "stream", [b"XADD", "K", b"7-7", b"f", b"n"], b"7-7", True),
    ("keyop", None, [b"EXPIRE", "K", b"100"], 0, False), ("keyop", None, [b"PEXPIRE", "K", b"100000"], 0, False),
    ("keyop", None, [b"PERSIST", "K"], 0, False), ("keyop", None, [b"DEL", "K"], 0, False), ("keyop", None, [b"RENAME", "K", b"dest-y"], "ERR", False),
    ("pop", "list", [b"LPOP", "K"], None, False), ("pop", "set", [b"SPOP", "K"], None, False), ("pop", "zset", [b"ZPOPMIN", "K"], "EMPTY", False),
    ("scan", None, [b"KEYS", b"*"], "NOTIN", False), ("scan", None, [b"SCAN", b"0", b"COUNT", b"1000"], "NOTINSCAN", False),
    ("scan", None, [b"DBSIZE"], "DBSIZE", False), ("setop", "set", [b"SUNION", "K", b"other-set"], [b"o"], False),
    ("write-noop", "list", [b"LREM", "K", b"0", b"a"], 0, False), ("write-noop", "set", [b"SREM", "K", b"a"], 0, False),
    ("write-noop", "hash", [b"HDEL", "K", b"f"], 0, False), ("write-noop", "zset", [b"ZREM", "K", b"a"], 0, False),
    ("write-noop", "stream", [b"XDEL", "K", b"1-1"], 0, False), ("write-noop", "list", [b"LSET", "K", b"0", b"z"], "ERR", False),
]
# in-place updates that must keep the TTL
INPLACE = {"string": [b"APPEND", "K", b"+"], "list": [b"RPUSH", "K", b"c"], "set": [b"SADD", "K", b"c"], "hash": [b"HSET", "K", b"g", b"w"],
           "zset": [b"ZADD", "K", b"3", b"c"], "stream": [b"XADD", "K", b"2-1", b"f", b"w"]}


def sub(t, key):
    return [key if x == "K" else x for x in t]


class Timed:
    def __init__(self, c):
        self.c = c

    def cmd(self, *argv):
        s = time.monotonic()
        r = self.c.cmd(*argv)
        return r, s, time.monotonic()


def set_ttl(tc, rng, key, typ, T_ms):
    """Create `key` of `typ` with a TTL of T_ms through a randomly chosen form. Returns (method, s, r)."""
    forms = ["PEXPIRE"]
    if T_ms % 1000 == 0:
        forms.append("EXPIRE")
    if typ == "string":
        forms += ["SET-PX", "PSETEX"] + (["SET-EX", "SETEX"] if T_ms % 1000 == 0 else [])
    m = rng.choice(forms)
    if m == "SET-PX":
        r, s, e = tc.cmd(b"SET", key, b"val", b"PX", b"%d" % T_ms)
    elif m == "SET-EX":
        r, s, e = tc.cmd(b"SET", key, b"val", b"EX", b"%d" % (T_ms // 1000))
    elif m == "PSETEX":
        r, s, e = tc.cmd(b"PSETEX", key, b"%d" % T_ms, b"val")
    elif m == "SETEX":
        r, s, e = tc.cmd(b"SETEX", key, b"%d" % (T_ms // 1000), b"val")
    else:
        tc.cmd(*sub(CREATE[typ], key))
        if m == "PEXPIRE":
            r, s, e = tc.cmd(b"PEXPIRE", key, b"%d" % T_ms)
        else:
            r, s, e = tc.cmd(b"EXPIRE", key, b"%d" % (T_ms // 1000))
    return m, s, e


def norm_snapshot(ss):
    t, v, ttl = ss
    if t == "hash" or t == "set":
        v = sorted(v) if isinstance(v, list) else v
    return (t, v)


def timed_round(srv, rng, res, rn):
    c = srv.client(timeout=10)
    tc = Timed(c)
    c.cmd("FLUSHALL")
    c.cmd("SET", "live-src", "x")
    c.cmd("SADD", "other-set", "o")
    if rng.random() < 0.35:
        # a script that failed some time before has nothing to do with when keys die (whatever a script does
        # to the clock it sees must end with the script, however the script ends)
        c.cmd(*rng.choice([[b"EVAL", b"error('script fails')", b"0"],
                           [b"EVAL", b"return redis.call('INCR', KEYS[1])", b"1", b"other-set"],
                           [b"EVAL", b"redis.call('GET', 'live-src') return redis.call('NOSUCHCOMMAND')", b"0"],
                           [b"EVAL", b"this is not lua", b"0"]]))
        res.cell("round-after-failed-script")
    events = []          # (due time, kind, payload)
    keys = {}
    nkeys = 24
    for i in range(nkeys):
        typ = rng.choice(TYPES)
        T_ms = rng.choice([60, 100, 150, 250, 400, 1000, 1000, 2000])
        key = b"k%d:%s" % (i, typ.encode())
        scenario = rng.choice(["plain", "plain", "plain", "inplace", "overwrite", "persist", "extend", "rename", "recreate", "shorten"])
        method, s, r = set_ttl(tc, rng, key, typ, T_ms)
        T = T_ms / 1000.0
        info = dict(key=key, typ=typ, T=T, s=s, r=r, method=method, scenario=scenario, alive_value=VALUE[typ], ttl=True)
        keys[key] = info
        res.cell("ttl-set", method, typ, "T=%d" % T_ms)
        if scenario == "plain":
            events.append((s + T * 0.5, "before", info))
            events.append((r + T + max(0.06, T * 0.5), "after", info))
        elif scenario == "inplace":
            events.append((s + T * 0.3, "inplace", info))
            events.append((s + T * 0.6, "before-ttl-only", info))
            events.append((r + T + max(0.06, T * 0.5), "after", info))
        elif scenario in ("overwrite", "persist", "recreate"):
            events.append((s + T * 0.4, scenario, info))
            events.append((r + T + 0.06, "must-survive", info))
        elif scenario == "extend":
            events.append((s + T * 0.4, "extend", info))
        elif scenario == "shorten":
            events.append((s + T * 0.2, "shorten", info))
        elif scenario == "rename":
            events.append((s + T * 0.4, "rename", info))
    events.sort(key=lambda e: e[0])
    passes_at = {}
    i = 0
    while i < len(events):
        due, kind, info = events[i]
        i += 1
        now = time.monotonic()
        if due > now:
            time.sleep(due - now)
        key, typ, T, s, r = info["key"], info["typ"], info["T"], info["s"], info["r"]
        sigbase = "%s/%s" % (typ, info["method"])
        if kind in ("before", "before-ttl-only"):
            # visible with its value intact; TTL/PTTL report the remaining time
            p, ps, pr = tc.cmd(b"PTTL", key)
            t, ts, tr = tc.cmd(b"TTL", key)
            ss = server_key_snapshot(c, key)
            e_end = time.monotonic()
            res.evaluations += 3
            if e_end < s + T:
                res.count("decisive_before")
                res.cell("before", typ, info["scenario"])
                if ss[0] == "none":
                    res.violation("early/%s" % sigbase, "key %s (%s, TTL %.3fs set via %s in [%.4f,%.4f]) is absent at %.4f, before its earliest possible deadline %.4f" % (
                        resp.show(key), typ, T, info["method"], s, r, e_end, s + T))
                    continue
                if kind == "before" and norm_snapshot(ss) != (VALUE[typ][0], sorted(VALUE[typ][1]) if typ in ("hash", "set") else VALUE[typ][1]):
                    res.violation("value-changed/%s" % sigbase, "key %s before its deadline holds %s, expected %s" % (resp.show(key), resp.show(list(ss), 40), resp.show(list(VALUE[typ]), 40)))
                    continue
                lo = T * 1000 - (pr - s) * 1000 - 2
                hi = T * 1000 - (ps - r) * 1000 + 2
                if not (isinstance(p, int) and lo <= p <= hi):
                    res.violation("ttl-reply/PTTL/%s" % sigbase, "PTTL %s -> %r, remaining time must be within [%.1f, %.1f] ms" % (resp.show(key), p, lo, hi))
                lo_s = T * 1000 - (tr - s) * 1000 - 2
                hi_s = T * 1000 - (ts - r) * 1000 + 2
                if not (isinstance(t, int) and math.floor(lo_s / 1000.0) <= t <= math.ceil(hi_s / 1000.0)):
                    res.violation("ttl-reply/TTL/%s" % sigbase, "TTL %s -> %r, remaining time is within [%.1f, %.1f] ms" % (resp.show(key), t, lo_s, hi_s))
            else:
                res.count("indecisive_probes")
        elif kind == "inplace" and time.monotonic() <= s + T - 0.015:
            rr, a, b = tc.cmd(*sub(INPLACE[typ], key))
            res.evaluations += 1
            res.cell("inplace-update", typ)
        elif kind == "after":
            fam_choices = [a for a in AFTER if a[1] in (None, typ)]
            fam, _, tmpl, expect, creates = rng.choice(fam_choices)
            argv = sub(tmpl, key)
            if argv[0] == b"RENAMENX" and argv[1] == b"live-src":
                # a fresh live source for every probe
                argv[1] = b"live-src:" + key
                c.cmd(b"SET", argv[1], b"x")
                round_extra[0] += 1
            rr, a0, a1 = tc.cmd(*argv)
            res.evaluations += 1
            if a0 <= r + T:
                res.count("indecisive_probes")
                continue
            res.count("decisive_after")
            name = argv[0].decode()
            res.cell("after", fam, name, typ)
            ok = True
            if expect == "ERR":
                ok = isinstance(rr, Err)
            elif expect == "EMPTY":
                ok = rr == [] or rr is NULL_ARRAY
            elif expect == "NOTIN":
                ok = isinstance(rr, list) and key not in rr
            elif expect == "NOTINSCAN":
                ok = isinstance(rr, list) and len(rr) == 2 and key not in rr[1]
            elif expect == "DBSIZE":
                # every key of this round whose latest possible deadline has passed must not be counted
                alive_max = 2 + sum(1 for k2, inf in keys.items() if not (inf.get("ttl") and a0 > inf["r"] + inf["T"] and not inf.get("gone_ok_unknown")))
                ok = isinstance(rr, int) and rr <= alive_max + info.get("extra_keys", 0) + round_extra[0]
            elif isinstance(expect, bytes) and name == "ZINCRBY":
                ok = isinstance(rr, bytes) and float(rr) == float(expect)
            elif name in ("HGETALL", "SMEMBERS", "LRANGE", "ZRANGE", "XRANGE", "MGET", "SUNION"):
                ok = rr == expect
            else:
                ok = rr == expect
            if not ok:
                res.violation("late/%s/%s" % (name, typ), "key %s (%s, TTL %.3fs via %s, acknowledged at %.4f) %.0f ms after its latest possible deadline: %s -> %s, expected %s (the key must be absent to every command)" % (
                    resp.show(key), typ, T, info["method"], r, (a0 - (r + T)) * 1000, resp.show(argv), resp.show(rr, 40), "an error" if expect == "ERR" else resp.show(expect) if not isinstance(expect, str) else expect))
                info["ttl"] = False
                info["gone_ok_unknown"] = True
                continue
            if creates:
                # a fresh value was created on top of the dead key: it has no TTL and must survive the sweeper
                info["ttl"] = False
                pz = c.cmd("VERIF", "SWEEPER", "PASSES")
                events.append((time.monotonic() + 0.01, "fresh-check", dict(info, passes=pz, created_by=name, argv=argv)))
                events.sort(key=lambda e: e[0])
        elif kind == "fresh-check":
            # two more completed sweeper passes (re-queued, never blocking the schedule), then the fresh value must
            # still be there without a TTL
            if c.cmd("VERIF", "SWEEPER", "PASSES") < info["passes"] + 2 and time.monotonic() < info.setdefault("give_up", time.monotonic() + 8):
                events.append((time.monotonic() + 0.2, "fresh-check", info))
                events.sort(key=lambda e: e[0])
                continue
            ex = c.cmd("EXISTS", key)
            pt = c.cmd("PTTL", key)
            res.evaluations += 1
            res.cell("fresh-survives", info["created_by"], typ)
            if ex != 1 or pt != -1:
                res.violation("spurious/recreated-on-dead-key/%s" % info["created_by"], "%s on the dead key %s created a fresh value; two sweeper passes later EXISTS -> %r, PTTL -> %r (must be 1, -1)" % (
                    resp.show(info["argv"]), resp.show(key), ex, pt))
        elif kind in ("overwrite", "persist", "recreate", "extend", "shorten", "rename", "inplace") and time.monotonic() > s + T - 0.015:
            res.count("actions_skipped_too_late")
            info["ttl"] = False
            info["gone_ok_unknown"] = True
            continue
        elif kind in ("overwrite", "persist", "recreate"):
            if kind == "overwrite":
                how = rng.choice(["SET", "GETSET", "MSET", "SET-XX", "SET-via-script", "SET-XX-via-script"]) if typ == "string" else \
                    rng.choice(["SET", "MSET", "SET-XX", "SET-via-script"])
                argv = {"SET": [b"SET", key, b"over"], "GETSET": [b"GETSET", key, b"over"], "MSET": [b"MSET", key, b"over"],
                        "SET-XX": [b"SET", key, b"over", b"XX"],
                        "SET-via-script": [b"EVAL", b"return redis.call('SET', KEYS[1], 'over')", b"1", key],
                        "SET-XX-via-script": [b"EVAL", b"return redis.call('SET', KEYS[1], 'over', 'XX')", b"1", key]}[how]
                tc.cmd(*argv)
                info["how"] = how
                info["expect_after"] = ("string", b"over")
            elif kind == "persist":
                rr, _, _ = tc.cmd(b"PERSIST", key)
                info["how"] = "PERSIST"
                info["expect_after"] = None
                if rr != 1:
                    res.violation("ttl-reply/PERSIST/%s" % typ, "PERSIST on a key with a TTL -> %r" % (rr,))
            else:
                # empty the collection (the key disappears) and re-create it: the new one has no TTL
                if typ == "string":
                    tc.cmd(b"DEL", key)
                elif typ == "list":
                    tc.cmd(b"LTRIM", key, b"5", b"9")
                elif typ == "set":
                    tc.cmd(b"SREM", key, b"a", b"b")
                elif typ == "hash":
                    tc.cmd(b"HDEL", key, b"f", b"n")
                elif typ == "zset":
                    tc.cmd(b"ZREM", key, b"a", b"b")
                else:
                    tc.cmd(b"DEL", key)
                tc.cmd(*sub(CREATE[typ], key))
                info["how"] = "emptied-and-recreated"
                info["expect_after"] = None
            info["ttl"] = False
            if time.monotonic() > s + T - 0.003:
                res.count("actions_skipped_too_late")
                del info["how"]
                info["gone_ok_unknown"] = True
                continue
            p2 = c.cmd("PTTL", key)
            res.evaluations += 1
            res.cell("ttl-removed", info["how"], typ)
            if p2 != -1:
                res.violation("ttl-reply/after-%s/%s" % (info["how"], typ), "after %s the key %s must have no TTL, PTTL -> %r" % (info["how"], resp.show(key), p2))
            info["passes_mark"] = c.cmd("VERIF", "SWEEPER", "PASSES")
        elif kind == "must-survive":
            # past the OLD deadline: two more sweeper passes (re-queued, not blocking), the key must still exist
            if "how" not in info:
                continue          # the TTL-removing action came too late and was skipped
            base = info.setdefault("survive_base", c.cmd("VERIF", "SWEEPER", "PASSES"))
            if c.cmd("VERIF", "SWEEPER", "PASSES") < base + 2 and time.monotonic() < info.setdefault("give_up", time.monotonic() + 8):
                events.append((time.monotonic() + 0.2, "must-survive", info))
                events.sort(key=lambda e: e[0])
                continue
            ex = c.cmd("EXISTS", key)
            pt = c.cmd("PTTL", key)
            res.evaluations += 1
            res.cell("survives-old-deadline", info.get("how", "?"), typ)
            if ex != 1 or pt != -1:
                res.violation("spurious/%s/%s" % (info.get("how", "?"), typ), "key %s had its TTL removed by %s before the deadline; two sweeper passes after the OLD deadline: EXISTS -> %r, PTTL -> %r" % (
                    resp.show(key), info.get("how"), ex, pt))
        elif kind == "extend":
            newT = T + 1.0
            rr, s2, r2 = tc.cmd(b"PEXPIRE", key, b"%d" % int(newT * 1000))
            res.cell("extend", typ)
            info2 = dict(info, T=newT, s=s2, r=r2, method="PEXPIRE-extend", scenario="plain")
            keys[key] = info2
            events.append((r + T + 0.08, "before", info2))      # after the OLD deadline, before the new one
            events.append((r2 + newT + 0.3, "after", info2))
            events.sort(key=lambda e: e[0])
        elif kind == "shorten":
            newT = 0.08
            rr, s2, r2 = tc.cmd(b"PEXPIRE", key, b"80")
            res.cell("shorten", typ)
            info2 = dict(info, T=newT, s=s2, r=r2, method="PEXPIRE-shorten", scenario="plain")
            keys[key] = info2
            events.append((r2 + newT + 0.1, "after", info2))
            events.sort(key=lambda e: e[0])
        elif kind == "rename":
            new = key + b":renamed"
            rr, s2, r2 = tc.cmd(b"RENAME", key, new)
            res.cell("rename", typ)
            if rr != OK:
                res.violation("rename-reply/%s" % typ, "RENAME of a live key with a TTL -> %r" % (rr,))
                continue
            info["ttl"] = False
            info["gone_ok_unknown"] = True
            info2 = dict(info, key=new, scenario="plain", method=info["method"] + "+RENAME")
            keys[new] = info2
            events.append((time.monotonic() + 0.005, "before", info2))
            events.append((r + T + max(0.06, T * 0.5), "after", info2))
            events.sort(key=lambda e: e[0])
    c.close()


round_extra = [0]


def sweeper_window(srv, rng, res):
    """Monitor B: park the sweeper after it collected dead keys; re-create / rename onto them; release."""
    c = srv.client(timeout=15)
    c.cmd("FLUSHALL")
    c.cmd("VERIF", "SWEEPER", "RELEASE")
    actions = ["recreate-no-ttl", "recreate-long-ttl", "rename-onto", "leave", "recreate-other-type", "append-fresh", "lpush-fresh", "mset"]
    keys = {a: b"w:%s:%d" % (a.encode(), rng.randrange(10 ** 6)) for a in actions}
    c.cmd("SET", "w:live", "live-value")
    c.cmd("VERIF", "SWEEPER", "HOLD")
    for a, k in keys.items():
        c.cmd("SET", k, "old", "PX", "40")
    # do not touch the keys: wait until the sweeper reports it is parked with some of them collected
    t_end = time.monotonic() + 6
    parked = None
    while time.monotonic() < t_end:
        st = c.cmd("VERIF", "SWEEPER", "STATE")
        if st[0] == b"parked":
            parked = st
            break
        time.sleep(0.01)
    if parked is None:
        c.cmd("VERIF", "SWEEPER", "RELEASE")
        res.inconclusive.append("sweeper never parked")
        c.close()
        return
    collected = set(parked[2])
    res.count("sweeper_holds")
    did = {}
    for a, k in keys.items():
        if k not in collected:
            continue      # other shard: collected in a later step of the same pass, not parked now
        if a == "recreate-no-ttl":
            c.cmd("SET", k, "new")
            did[a] = ("string", b"new", False)
        elif a == "recreate-long-ttl":
            c.cmd("SET", k, "new", "EX", "1000")
            did[a] = ("string", b"new", True)
        elif a == "rename-onto":
            c.cmd("RENAME", "w:live", k)
            did[a] = ("string", b"live-value", False)
        elif a == "recreate-other-type":
            c.cmd("DEL", k)
            c.cmd("RPUSH", k, "x")
            did[a] = ("list", [b"x"], False)
        elif a == "append-fresh":
            c.cmd("APPEND", k, "fresh")
            did[a] = ("string", b"fresh", False)     # the dead value must not be appended to
        elif a == "lpush-fresh":
            c.cmd("DEL", k)
            c.cmd("LPUSH", k, "y")
            did[a] = ("list", [b"y"], False)
        elif a == "mset":
            c.cmd("MSET", k, "m")
            did[a] = ("string", b"m", False)
        else:
            did[a] = ("none", None, False)
    p0 = parked[1]
    c.cmd("VERIF", "SWEEPER", "RELEASE")
    t_end = time.monotonic() + 6
    while c.cmd("VERIF", "SWEEPER", "PASSES") < p0 + 1 and time.monotonic() < t_end:
        time.sleep(0.02)
    for a, want in did.items():
        ss = server_key_snapshot(c, keys[a])
        res.evaluations += 1
        res.cell("sweeper-window", a)
        if (ss[0], ss[1], ss[2]) != want:
            res.violation("window/%s" % a, "sweeper parked after collecting %s (dead); client action '%s'; after the sweeper's delete phase the key is %s, expected %s" % (
                resp.show(keys[a]), a, resp.show(list(ss), 40), resp.show(list(want), 40)))
    c.close()


def index_agreement(srv, res, c):
    """Monitor C: entries of the expiry index whose deadline is earlier than (or missing from) the stored value."""
    rows = c.cmd("VERIF", "EXPIRY")
    res.count("index_rows_seen", len(rows))
    suspicious = []
    for db, key, present, stored, index in rows:
        if present == 1 and index < 2 ** 62 and (stored is None or stored > index + 50):
            suspicious.append((db, key, stored, index))
    if not suspicious:
        return
    res.count("index_disagreements_followed", len(suspicious))
    horizon = max(ix for _, _, _, ix in suspicious)
    if horizon > 3000:
        suspicious = [x for x in suspicious if x[3] <= 3000]
        if not suspicious:
            return
        horizon = max(ix for _, _, _, ix in suspicious)
    time.sleep(max(0, horizon) / 1000.0 + 0.01)
    base = c.cmd("VERIF", "SWEEPER", "PASSES")
    t_end = time.monotonic() + 6
    while c.cmd("VERIF", "SWEEPER", "PASSES") < base + 2 and time.monotonic() < t_end:
        time.sleep(0.05)
    for db, key, stored, index in suspicious:
        c.cmd("SELECT", db)
        ex = c.cmd("EXISTS", key)
        res.evaluations += 1
        res.cell("index-followed", "no-stored-deadline" if stored is None else "later-stored-deadline")
        if ex != 1:
            res.violation("spurious/stale-index", "key %s (db %d) has %s but the sweeper's index said %d ms: after that index deadline and two sweeper passes the key is gone" % (
                resp.show(key), db, "no TTL" if stored is None else "a deadline %d ms away" % stored, index))
    c.cmd("SELECT", 0)


def index_scenarios(srv, rng, res):
    """Directed scenarios that leave index entries behind, followed by Monitor C."""
    c = srv.client(timeout=15)
    c.cmd("FLUSHALL")
    n = rng.randrange(10 ** 6)
    k = lambda s: b"ix:%s:%d" % (s.encode(), n)
    c.cmd("SET", k("set-over"), "v", "PX", "300"); c.cmd("SET", k("set-over"), "v2")
    c.cmd("SET", k("getset"), "v", "PX", "300"); c.cmd("GETSET", k("getset"), "v2")
    c.cmd("SET", k("mset"), "v", "PX", "300"); c.cmd("MSET", k("mset"), "v2")
    c.cmd("SET", k("persist"), "v", "PX", "300"); c.cmd("PERSIST", k("persist"))
    c.cmd("SET", k("extend"), "v", "PX", "300"); c.cmd("PEXPIRE", k("extend"), "100000")
    c.cmd("RPUSH", k("emptied"), "a"); c.cmd("PEXPIRE", k("emptied"), "300"); c.cmd("LPOP", k("emptied")); c.cmd("RPUSH", k("emptied"), "b")
    c.cmd("SADD", k("spop"), "a"); c.cmd("PEXPIRE", k("spop"), "300"); c.cmd("SPOP", k("spop")); c.cmd("SADD", k("spop"), "b")
    c.cmd("SET", k("rename-src"), "v", "PX", "300"); c.cmd("SET", k("rename-dst"), "d"); c.cmd("RENAME", k("rename-dst"), k("rename-src"))
    c.cmd("SET", k("del-recreate"), "v", "PX", "300"); c.cmd("DEL", k("del-recreate")); c.cmd("SET", k("del-recreate"), "v2")
    c.cmd("SET", k("nx-dead"), "v", "PX", "30"); time.sleep(0.05); c.cmd("SET", k("nx-dead"), "v2", "NX")
    c.cmd("HSET", k("hdel"), "f", "v"); c.cmd("PEXPIRE", k("hdel"), "300"); c.cmd("HDEL", k("hdel"), "f"); c.cmd("HSET", k("hdel"), "g", "w")
    c.cmd("ZADD", k("zpop"), "1", "a"); c.cmd("PEXPIRE", k("zpop"), "300"); c.cmd("ZPOPMIN", k("zpop")); c.cmd("ZADD", k("zpop"), "1", "b")
    res.cell("index-scenarios")
    index_agreement(srv, res, c)
    c.close()


def across_restart(binary, res, rng):
    """Deadlines do not move when the dataset travels through a dump: keys with TTLs in a
    database that is written late in a save that takes a while (120k filler keys first),
    SAVE or BGSAVE, SIGKILL, restart; every deadline must be where it was (never early,
    never late: PTTL within the two-clock bracket, 3 ms + measured scheduling noise), and
    keys whose deadline passed while the server was down must be absent."""
    from .c09 import Jitter
    srv = server.Server(binary, config_text="save \"\"\n").start()
    try:
        c = srv.client(timeout=120)
        for i in range(0, 120000, 2000):
            c.cmd("MSET", *[x for j in range(i, i + 2000) for x in (b"fill:%d" % j, b"v")])
        c.cmd("SELECT", "9")
        keys = {}
        for i in range(40):
            typ = ["string", "list", "set", "hash", "zset", "stream"][i % 6]
            k = b"ttl:%d" % i
            {"string": lambda: c.cmd("SET", k, "v"), "list": lambda: c.cmd("RPUSH", k, "a"), "set": lambda: c.cmd("SADD", k, "a"),
             "hash": lambda: c.cmd("HSET", k, "f", "v"), "zset": lambda: c.cmd("ZADD", k, "1", "a"), "stream": lambda: c.cmd("XADD", k, "1-1", "f", "v")}[typ]()
            c.cmd("PEXPIRE", k, rng.choice([4000, 9000, 60000, 3600000]))
        for i in range(6):
            c.cmd("SET", b"dies:%d" % i, "v", "PX", "400")
        for i in range(40):
            k = b"ttl:%d" % i
            m0, w0 = time.monotonic(), time.time()
            p = c.cmd("PTTL", k)
            m1, w1 = time.monotonic(), time.time()
            keys[k] = (p, m0, m1, w0, w1)
        mode = rng.choice(["SAVE", "BGSAVE"])
        t_s = time.monotonic()
        with Jitter() as js:
            if mode == "SAVE":
                r = c.cmd("SAVE", timeout=120)
            else:
                r = c.cmd("BGSAVE")
                t_end = time.monotonic() + 120
                while time.monotonic() < t_end:
                    st = c.cmd("VERIF", "RDB", "SAVES")
                    if st[0] >= 1 and st[0] == st[1] and c.cmd("VERIF", "RDB", "INPROGRESS") == 0:
                        break
                    time.sleep(0.005)
        save_s = time.monotonic() - t_s
        if isinstance(r, Err):
            res.inconclusive.append("across-restart: %s refused: %r" % (mode, r))
            return
        srv.kill()
        time.sleep(max(0.0, 0.6 - (time.monotonic() - t_s)))
        with Jitter() as jl:
            srv.start()
            c = srv.client(timeout=120)
            c.cmd("SELECT", "9")
        noise = 1000.0 * (js.max + jl.max)
        res.count("across_restart_save_ms", int(save_s * 1000))
        res.cell("across-restart", mode, "save>50ms" if save_s > 0.05 else "save<=50ms")
        for i in range(6):
            res.evaluations += 1
            if c.cmd("EXISTS", b"dies:%d" % i) != 0:
                res.violation("late/after-restart", "a key with a 400 ms TTL is present after a >= 600 ms downtime (%s, restart)" % mode)
                break
        if noise > 50:
            res.count("across_restart_not_judged_machine_too_noisy")
            return
        tol = 3 + 2 * noise
        for k, (p1, a0, a1, wa0, wa1) in keys.items():
            b0, wb0 = time.monotonic(), time.time()
            p2 = c.cmd("PTTL", k)
            b1, wb1 = time.monotonic(), time.time()
            res.evaluations += 1
            lo = p1 - max(b1 - a0, wb1 - wa0) * 1000 - tol
            hi = p1 - min(b0 - a1, wb0 - wa1) * 1000 + tol
            if p2 == -2 and lo <= 0:
                # save + restart + load took longer than the key had left (loaded machine): absent is right
                res.count("across_restart_keys_whose_deadline_passed_meanwhile")
                continue
            if not isinstance(p2, int) or p2 < 0:
                res.violation("ttl-lost/after-restart", "key %s had PTTL %r before %s + restart, afterwards PTTL -> %r although at most %.0f ms had passed" % (
                    resp.show(k), p1, mode, p2, max(b1 - a0, wb1 - wa0) * 1000))
                break
            if not (lo <= p2 <= hi):
                res.violation("%s/after-restart" % ("early" if p2 < lo else "late"),
                              "key %s (db 9, written late in a %s that took %.0f ms): PTTL %d before, %d after the restart; its deadline moved by %+.0f ms "
                              "(allowed +-%.1f ms: clock granularity + 2 x %.2f ms scheduling noise)" % (
                                  resp.show(k), mode, save_s * 1000, p1, p2, p2 - (lo + hi) / 2, (hi - lo) / 2, noise))
                break
    finally:
        srv.cleanup()


# probes for the busy-sweeper scenario: (type, create argv, probe argv, reply that means "absent")
BUSY_PROBES = [
    ("list", [b"RPUSH", "K", b"a"], [b"LLEN", "K"], 0), ("list", [b"RPUSH", "K", b"a"], [b"LRANGE", "K", b"0", b"-1"], []),
    ("list", [b"RPUSH", "K", b"a"], [b"LINDEX", "K", b"0"], None), ("hash", [b"HSET", "K", b"f", b"v"], [b"HLEN", "K"], 0),
    ("hash", [b"HSET", "K", b"f", b"v"], [b"HGET", "K", b"f"], None), ("set", [b"SADD", "K", b"a"], [b"SCARD", "K"], 0),
    ("zset", [b"ZADD", "K", b"1", b"a"], [b"ZCARD", "K"], 0), ("zset", [b"ZADD", "K", b"1", b"a"], [b"ZSCORE", "K", b"a"], None),
    ("string", [b"SET", "K", b"v"], [b"TYPE", "K"], Status(b"none")), ("string", [b"SET", "K", b"v"], [b"PTTL", "K"], -2),
    ("string", [b"SET", "K", b"v"], [b"TTL", "K"], -2), ("string", [b"SET", "K", b"v"], [b"PERSIST", "K"], 0),
    ("string", [b"SET", "K", b"v"], [b"STRLEN", "K"], 0), ("string", [b"SET", "K", b"v"], [b"GET", "K"], None),
    ("string", [b"SET", "K", b"v"], [b"EXISTS", "K"], 0), ("list", [b"RPUSH", "K", b"a"], [b"TYPE", "K"], Status(b"none")),
    ("stream", [b"XADD", "K", b"1-1", b"f", b"v"], [b"XLEN", "K"], 0), ("set", [b"SADD", "K", b"a"], [b"SISMEMBER", "K", b"a"], 0),
]


def busy_sweeper(binary, res, rng, nbulk=160000, nprobe=6000):
    """The sweeper deletes a shard's batch of due keys under that shard's write lock; with ~10k due keys per
    shard the lock is held for many milliseconds, sixteen times per pass. Commands addressed to the locked
    shard wait - and what they see afterwards must still respect every deadline that had passed when they
    were sent, including the deadlines that passed after the sweeper's scan (those keys are not in its
    batch, only the access path can hide them)."""
    srv = server.Server(binary).start()
    try:
        c = srv.client(timeout=120)
        # how fast is this machine right now? (big pipelines for the bulk, small ones for the probe keys)
        w0 = time.monotonic()
        c.pipeline([[b"SET", b"warm:%d" % j, b"x", b"PX", b"1"] for j in range(4000)])
        w1 = time.monotonic()
        for _ in range(20):
            c.pipeline([[b"SET", b"warm:s", b"x", b"PX", b"1"]] * 32)
        w2 = time.monotonic()
        est = 1.6 * (w1 - w0) * nbulk / 4000.0 + 1.6 * (w2 - w1) * (2 * nprobe) / 640.0 + 0.8
        t0 = time.monotonic()
        due = t0 + max(6.0, min(est, 40.0))  # the moment (client clock) at which the bulk falls due
        res.extra["busy_sweeper_setup_estimate_s"] = round(est, 1)
        i = 0
        while i < nbulk:
            T = int((due - time.monotonic()) * 1000)
            if T < 300:
                break
            c.pipeline([[b"SET", b"bulk:%d" % j, b"x", b"PX", b"%d" % T] for j in range(i, min(nbulk, i + 4000))])
            i += 4000
        res.count("busy_sweeper_bulk_keys", i)
        # probe keys: deadlines spread evenly over the 2.4 s after `due` (one sweeper pass starts within 1 s
        # of it and takes a good part of a second); small batches keep the acknowledgement brackets narrow
        probes = []                          # (latest possible deadline, key, probe argv, absent reply, label)
        span = 2.4
        j = 0
        while j < nprobe:
            batch = []
            cmds = []
            s = time.monotonic()
            for q in range(j, min(nprobe, j + 16)):
                typ, create, probe, absent = BUSY_PROBES[q % len(BUSY_PROBES)]
                k = b"pk:%d" % q
                T = int((due + span * q / nprobe - s) * 1000)
                if T < 50:
                    continue
                cmds.append(sub(create, k))
                cmds.append([b"PEXPIRE", k, b"%d" % T])
                batch.append((T, k, sub(probe, k), absent, "%s/%s" % (typ, probe[0].decode())))
            if cmds:
                c.pipeline(cmds)
                r = time.monotonic()
                for T, k, probe, absent, label in batch:
                    probes.append((r + T / 1000.0, k, probe, absent, label))
            j += 16
        probes.sort(key=lambda x: x[0])
        p_start = c.cmd("VERIF", "SWEEPER", "PASSES")
        nxt = 0
        sent = 0
        late = 0
        longest_wait = 0.0
        stalled = 0
        while nxt < len(probes) and time.monotonic() < due + span + 1.5:
            now = time.monotonic()
            ready = []
            while nxt < len(probes) and probes[nxt][0] < now - 0.0002 and len(ready) < 8:
                ready.append(probes[nxt])
                nxt += 1
            if not ready:
                time.sleep(0.0002)
                continue
            s1 = time.monotonic()            # every probe of this batch is sent after its key's latest possible deadline
            out = c.pipeline([p[2] for p in ready])
            w = time.monotonic() - s1
            longest_wait = max(longest_wait, w)
            if w > 0.004:
                stalled += 1
            for (ub, k, probe, absent, label), got in zip(ready, out):
                sent += 1
                res.evaluations += 1
                if got != absent:
                    late += 1
                    res.violation("late/busy-sweeper/" + label,
                                  "%s sent %.1f ms after the latest possible deadline of %s (TTL acknowledged before; sweeper busy deleting %d bulk keys, "
                                  "this batch of %d probes took %.1f ms) answered %s instead of %s" % (
                                      resp.show(probe), (s1 - ub) * 1000, resp.show(k), i, len(ready), w * 1000, resp.show(got, 60), resp.show(absent)),
                                  replay={"kind": "check", "check": "C02"})
                    if late >= 3:
                        break
            if late >= 3:
                break
        passes = c.cmd("VERIF", "SWEEPER", "PASSES") - p_start
        left = c.cmd("DBSIZE")
        res.count("busy_sweeper_probes", sent)
        res.count("busy_sweeper_probe_batches_that_waited_over_4ms", stalled)
        res.extra["busy_sweeper_longest_probe_wait_ms"] = round(longest_wait * 1000, 1)
        res.cell("busy-sweeper", "probes-waited-on-a-locked-shard" if stalled else "no-probe-ever-waited")
        res.cell("busy-sweeper", "passes-during-probing>=1" if passes >= 1 else "no-pass-during-probing")
        if sent < 300 and not late:
            res.inconclusive.append("busy sweeper: only %d of %d probes could be placed (setup estimated %.1f s)" % (sent, nprobe, est))
        c.close()
    finally:
        srv.cleanup()


def worker(wseed, binary, budget_s, idx):
    rng = util.rng_for(wseed, "C02")
    res = Result()
    if idx == 5:
        try:
            across_restart(binary, res, rng)
        except (Closed, Timeout, RuntimeError) as e:
            res.inconclusive.append("across-restart scenario: %r" % (e,))
    if idx == 6:
        try:
            busy_sweeper(binary, res, rng)
        except (Closed, Timeout, RuntimeError) as e:
            res.inconclusive.append("busy-sweeper scenario: %r" % (e,))
    srv = server.Server(binary).start()
    try:
        t_end = time.time() + budget_s
        n = 0
        while time.time() < t_end:
            n += 1
            try:
                if idx % 4 == 3:
                    if n % 3 == 0:
                        index_scenarios(srv, rng, res)
                    else:
                        sweeper_window(srv, rng, res)
                else:
                    round_extra[0] = 0
                    timed_round(srv, rng, res, n)
                    cc = srv.client(timeout=15)
                    index_agreement(srv, res, cc)
                    cc.close()
            except (Closed, Timeout) as e:
                if not srv.alive():
                    res.violation("server-died", "exit %s\n%s" % (srv.exit_status(), srv.stderr_tail(1000)))
                    srv.restart()
                else:
                    res.inconclusive.append("round %d: %r" % (n, e))
        res.count("rounds", n)
        if idx == 0:
            res.sample("SET k val PX 250 acked in [s,r]; PTTL/TTL/full read at s+125ms (decisive-before if r' < s+0.25); one of %d command families at r+375ms (decisive-after if s' > r+0.25) must see the key absent" % len(AFTER))
    finally:
        srv.cleanup()
    return res


def _w(arg, binary, budget_s):
    return worker(arg[0], binary, budget_s, arg[1])


def run(tier):
    t0 = time.time()
    seed = util.seed_from_env()
    binary, bt = server.build("dev")
    n = util.jobs()
    res = util.run_workers(_w, [(seed * 1000 + i, i) for i in range(n)], dict(binary=binary, budget_s=30 if tier == "quick" else 400), nproc=n)
    dec = res.extra.get("decisive_before", 0) + res.extra.get("decisive_after", 0)
    if tier == "thorough":
        # E5(c): the sweeper deleting what the command thread re-creates, under ThreadSanitizer
        from . import tsan_soup
        res.merge(tsan_soup.run_soup("C02", seed, 90, "expire"))
    return util.finish("C02", tier, seed, "exploration", res,
                       "A: rounds of 24 keys of all six types given TTLs of 60-400 ms (PX/PEXPIRE/PSETEX) and 1-2 s (EX/EXPIRE/SETEX), "
                       "lock-step with client-side brackets; before the earliest possible deadline the key must be visible with its value "
                       "and TTL/PTTL within the bracket-implied interval; after the latest possible deadline one of %d command forms "
                       "(reads, type checks, NX/XX conditions, counters, create-or-update writes - whose fresh value must survive two "
                       "sweeper passes without a TTL -, key ops, pops, scans, no-op writes) must see it absent; lifecycle: in-place updates "
                       "keep the TTL, SET/GETSET/MSET/PERSIST/emptied-and-recreated remove it (key must outlive the old deadline by two "
                       "passes), extension, shortening, RENAME carries it; B: sweeper parked between collect and delete (sync point) while "
                       "a client re-creates / renames onto / appends to the collected keys; C: expiry-index dump, disagreements followed "
                       "to the client boundary; D: 40 keys of all types with TTLs in a late database behind 120k filler keys, SAVE or BGSAVE, "
                       "kill, restart: deadlines unmoved within the two-clock bracket, keys that died during the downtime absent; E: busy sweeper - 160k keys falling due at once keep the sweeper inside each shard's write lock for 10-20 ms, 6000 probe keys of all types with deadlines every 0.4 ms are probed once each right after their latest possible deadline (a command that waited for the locked shard must still see them absent); thorough: 90 s expire/re-create/rename workload against a ThreadSanitizer build (report blocks "
                       "counted from the child's log); cell = (phase, family, command, type)" % len(AFTER), t0,
                       extra_cov={"decisive_probes": dec},
                       assumptions=["client and server share CLOCK_MONOTONIC; probes whose bracket straddles the deadline interval are don't-care",
                                    "TTL (seconds) may be rounded in any direction"], min_cells=40)

"""C01 — string and key-space commands follow the Redis reference semantics."""
from . import modeldiff

RULE = ("seeded histories of 20-200 string/key-space commands over a 10-key pool pre-seeded with all six types, "
        "sent lock-step to a private server; every reply compared with the reference model, touched keys probed "
        "(TYPE + full read + PTTL) after every refused command, full dump compared at history end; "
        "cell = (command, pre-state type of first key, reply class)")


def run(tier):
    from . import expiry_mini
    return modeldiff.run("C01", tier, "gen:gen_string_cmd", RULE + "; plus the sweeper-window sync-point scenario of C02 with string / key-space commands as client actions; 4% of the commands travel through redis.pcall in a script (effect on the dataset = that of the direct command); in 1 of 30 histories the server is saved, killed and restarted on its dump at a random step", extra_fn=expiry_mini.strings_in_the_sweeper_window, script_prob=0.04, restart_prob=0.06)

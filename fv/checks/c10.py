"""C10 — the dump on disk is always a complete, loadable, per-key-consistent snapshot.

A. fault enumeration over every step of a save (open, every write, flush,
   rename): injected I/O error (SAVE and BGSAVE) and process abort; the
   previously completed dump must stay untouched / be what the restarted
   server loads; later saves must work.
B. concurrent save: the save thread is parked at sync points between its
   per-key steps while a client replaces / grows / empties / deletes / expires /
   renames the key; plus a free-running stress with uniquely versioned keys.
   Every dump must load and hold, per key, a (value, TTL-presence) pair the key
   had at one instant during the save.
C. loader robustness on truncated / corrupted files (in-process harness)."""
import os
import shutil
import threading
import time

from .. import server, util, resp, rsbin
from ..diff import server_key_snapshot
from ..resp import Err, OK, Closed, Timeout
from ..util import Result
from .c09 import dump_all


def snap_only(d):
    return {k: (v[0][0], v[0][1], v[0][2]) for k, v in d.items()}


def load_dump_in_second_child(binary, dump_bytes):
    """Start a throw-away child on a directory holding exactly these dump bytes."""
    srv = server.Server(binary, config_text="save \"\"\n")
    os.makedirs(srv.dir, exist_ok=True)
    with open(os.path.join(srv.dir, "dump.rdb"), "wb") as f:
        f.write(dump_bytes)
    srv.start()
    try:
        c = srv.client(timeout=30)
        d = snap_only(dump_all(c))
        log = srv.stderr_text()
        return d, log
    finally:
        srv.cleanup()


def read_dump(srv):
    p = os.path.join(srv.dir, "dump.rdb")
    try:
        with open(p, "rb") as f:
            return f.read()
    except FileNotFoundError:
        return None


def seed_dataset(c, which):
    c.cmd("FLUSHALL")
    c.cmd("SET", "s", "string-value")
    c.cmd("SET", "s:ttl", "v", "EX", "100000")
    c.cmd("RPUSH", "l", "a", "b", "c")
    c.cmd("SADD", "set", "m1", "m2")
    c.cmd("HSET", "h", "f1", "v1", "f2", "v2")
    c.cmd("ZADD", "z", "1", "a", "2.5", "b", "-inf", "c")
    c.cmd("XADD", "x", "1-1", "f", "v")
    c.cmd("XADD", "x", "2-0", "f", "w", "g", "u")
    if which >= 1:
        c.cmd("SELECT", 3)
        c.cmd("SET", "s", "in-db3")
        c.cmd("RPUSH", "l", *["e%d" % i for i in range(70)])
        c.cmd("EXPIRE", "l", "5000")
        c.cmd("SELECT", 0)
        c.cmd("SET", "big", "x" * 20000)
        c.cmd("ZADD", "z2", *[x for i in range(70) for x in (str(i), "m%d" % i)])


def saves_started(c):
    return c.cmd("VERIF", "RDB", "SAVES")[0]


def wait_saves_done(c, timeout=30.0, started_before=None):
    """All saves finished. BGSAVE answers before its thread has counted itself as
    started: pass the started-counter read before BGSAVE was sent to wait for that
    save too (otherwise a save that has not begun yet looks like 'all done')."""
    end = time.monotonic() + timeout
    while time.monotonic() < end:
        st = c.cmd("VERIF", "RDB", "SAVES")
        if st[0] == st[1] and (started_before is None or st[0] > started_before) and \
                c.cmd("VERIF", "RDB", "INPROGRESS") == 0:
            return True
        time.sleep(0.002)
    return False


# --------------------------------------------------------------------------- A
def fault_points(shard, nshards, binary, tier):
    res = Result()
    for which in ((0, 1) if tier == "quick" else (0, 1)):
        srv = server.Server(binary, config_text="save \"\"\n").start()
        try:
            c = srv.client(timeout=30)
            seed_dataset(c, which)
            assert c.cmd("SAVE") == OK
            nsteps = c.cmd("VERIF", "RDB", "COUNTSTEPS")
            res.extra["steps_dataset_%d" % which] = nsteps
            counter = 0
            c.cmd("SET", "change-counter", "%09d" % 0)
            assert c.cmd("SAVE") == OK
            nsteps = c.cmd("VERIF", "RDB", "COUNTSTEPS")
            res.extra["steps_dataset_%d" % which] = nsteps
            for n in range(nsteps):
                if n % nshards != shard:
                    continue
                for via in ("SAVE", "BGSAVE"):
                    before = read_dump(srv)
                    counter += 1
                    c.cmd("SET", "change-counter", "%09d" % counter)      # same length: the number of steps stays the same
                    c.cmd("VERIF", "RDB", "FAILSTEP", n)
                    if via == "SAVE":
                        r = c.cmd("SAVE")
                        failed_reported = isinstance(r, Err)
                    else:
                        started0 = saves_started(c)
                        r = c.cmd("BGSAVE")
                        if isinstance(r, Err):
                            res.violation("failpoint/bgsave-refused", "BGSAVE refused although none is in progress: %r (step %d)" % (r, n))
                            continue
                        if not wait_saves_done(c, started_before=started0):
                            res.violation("failpoint/bgsave-stuck", "after an injected failure at step %d the background save never finished / the in-progress flag stayed set" % n)
                            srv.restart()
                            c = srv.client(timeout=30)
                            seed_dataset(c, which)
                            c.cmd("SAVE")
                            continue
                        failed_reported = True
                    after = read_dump(srv)
                    res.evaluations += 1
                    stepclass = "open" if n == 0 else "rename" if n == nsteps - 1 else "flush" if n == nsteps - 2 else "write"
                    res.cell("fail", via, stepclass, "ds%d" % which)
                    if via == "SAVE" and not failed_reported:
                        res.violation("failpoint/%s/error-not-reported" % stepclass, "SAVE with an injected I/O failure at step %d of %d (%s) replied %r" % (n, nsteps, stepclass, r))
                    if after != before:
                        res.violation("failpoint/%s/dump-changed" % stepclass, "%s failed at step %d of %d (%s) but dump.rdb changed: %s -> %s bytes%s" % (
                            via, n, nsteps, stepclass, len(before) if before is not None else None, len(after) if after is not None else None,
                            "" if after is None else " (now loads to %s)" % ("?")))
                    # a later save still works, and produces a loadable dump of the current dataset
                    r2 = c.cmd("SAVE")
                    if r2 != OK:
                        res.violation("failpoint/%s/later-save-fails" % stepclass, "after a failed %s at step %d, a plain SAVE -> %r" % (via, n, r2))
                        continue
                    if n % 7 == 0:
                        live = snap_only(dump_all(c))
                        loaded, log = load_dump_in_second_child(binary, read_dump(srv))
                        res.count("dumps_loaded_and_compared")
                        if loaded != live:
                            diff = [k for k in set(live) | set(loaded) if live.get(k) != loaded.get(k)]
                            res.violation("failpoint/%s/later-dump-wrong" % stepclass, "after a failed %s at step %d and a successful SAVE the dump loads to a different dataset: %s" % (
                                via, n, resp.show([(k, live.get(k), loaded.get(k)) for k in diff[:3]], 40)))
                    leftovers = [f for f in os.listdir(srv.dir) if f.endswith(".tmp") or ".tmp" in f]
                    res.setadd("leftover_temp_files", ",".join(sorted(leftovers)) or "none")
            if shard == 0 and which == 0:
                res.sample("dataset 0: %d save steps; step n fails -> SAVE/BGSAVE must leave dump.rdb byte-identical, next SAVE must work" % nsteps)
        finally:
            srv.cleanup()
    return res


def os_faults(shard, nshards, binary, tier):
    """The same question asked one level further down: the *kernel* refuses (EFBIG) or kills
    (SIGXFSZ) the server at the write that takes the dump past a file-size limit set from
    outside (RLIMIT_FSIZE through prlimit). Unlike the hooked fail points, this reaches errors
    that surface inside buffered writers, implicit flushes on drop, and whatever else sits
    between the code and the file. Limits: every byte offset class of a small dump (one final
    buffer), and the neighbourhood of every 8 KB buffer boundary of a large one."""
    import resource
    res = Result()
    mode = "error" if shard % 2 == 0 else "kill"
    which = 0 if shard < 2 else 1
    INF = resource.RLIM_INFINITY
    srv = server.Server(binary, config_text="save \"\"\n", os_fault_mode=mode).start()
    try:
        c = srv.client(timeout=30)
        seed_dataset(c, which)
        if which == 1:
            c.cmd("SET", "big2", "y" * 50000)
        c.cmd("SET", "change-counter", "%09d" % 0)
        assert c.cmd("SAVE") == OK
        good = read_dump(srv)
        size = len(good)
        saved_state = snap_only(dump_all(c))
        limits = sorted(set([0, 1, 5, 9, 10, size // 3, size // 2, size - 100, size - 9, size - 8, size - 2, size - 1] +
                            [b + d for b in range(8192, size, 8192) for d in (-1, 0, 1)]))
        limits = [x for x in limits if 0 <= x < size]
        res.extra["os_fault_dump_size_ds%d" % which] = size
        counter = 0
        for i, lim in enumerate(limits):
            counter += 1
            c.cmd("SET", "change-counter", "%09d" % counter)
            via = "SAVE" if i % 3 else "BGSAVE"
            resource.prlimit(srv.proc.pid, resource.RLIMIT_FSIZE, (lim, INF))
            if mode == "kill":
                srv.expect_exit()
            r = None
            try:
                if via == "SAVE":
                    r = c.cmd("SAVE", timeout=30)
                else:
                    started0 = saves_started(c)
                    r = c.cmd("BGSAVE")
                    if not isinstance(r, Err):
                        wait_saves_done(c, 30, started_before=started0)
            except (Closed, Timeout, OSError):
                r = "connection lost"
            res.evaluations += 1
            cls = "last-buffer" if lim >= size - (size % 8192 or 8192) else "earlier-buffer"
            res.cell("os-fault", mode, via, cls, "ds%d" % which)
            if mode == "error":
                try:
                    resource.prlimit(srv.proc.pid, resource.RLIMIT_FSIZE, (INF, INF))
                except (ProcessLookupError, OSError):
                    pass
                if not srv.alive():
                    res.violation("osfault/error/server-died", "file-size limit %d of %d bytes, SIGXFSZ ignored, %s: the server exited %s\n%s" % (
                        lim, size, via, srv.exit_status(), srv.stderr_tail(1200)))
                    srv.start()
                    c = srv.client(timeout=30)
                    continue
                if via == "SAVE" and not isinstance(r, Err):
                    res.violation("osfault/error/%s/error-not-reported" % cls, "the kernel refused every write beyond byte %d of a %d-byte dump (EFBIG), SAVE replied %r" % (lim, size, r))
                now = read_dump(srv)
                if now != good:
                    res.violation("osfault/error/%s/dump-changed" % cls, "%s hit EFBIG at byte %d of %d, but dump.rdb changed: %d -> %s bytes" % (
                        via, lim, size, len(good), len(now) if now is not None else None))
                if via == "BGSAVE" and c.cmd("VERIF", "RDB", "INPROGRESS") != 0:
                    res.violation("osfault/error/in-progress-stuck", "BGSAVE failed with EFBIG at byte %d and the in-progress flag stayed set" % lim)
                r2 = c.cmd("SAVE", timeout=30)
                if r2 != OK:
                    res.violation("osfault/error/later-save-fails", "after a save that hit EFBIG at byte %d (limit lifted again), SAVE -> %r" % (lim, r2))
                    continue
                good = read_dump(srv)
                saved_state = snap_only(dump_all(c))
                if i % 5 == 0:
                    loaded, log = load_dump_in_second_child(binary, good)
                    res.count("dumps_loaded_and_compared")
                    if loaded != saved_state:
                        res.violation("osfault/error/later-dump-wrong", "after a save that hit EFBIG at byte %d the next successful SAVE loads to a different dataset" % lim)
            else:
                # the kernel kills the process at the offending write: a real crash point
                t_end = time.monotonic() + 10
                while srv.alive() and time.monotonic() < t_end:
                    time.sleep(0.01)
                if srv.alive():
                    res.inconclusive.append("file-size limit %d: the server was not killed (reply %r)" % (lim, r))
                    srv.kill()
                now = read_dump(srv)
                if now != good:
                    res.violation("osfault/kill/%s/dump-changed" % cls, "%s killed by SIGXFSZ at byte %d of %d: dump.rdb changed: %d -> %s bytes" % (
                        via, lim, size, len(good), len(now) if now is not None else None))
                srv.start()
                c = srv.client(timeout=30)
                got = snap_only(dump_all(c))
                if got != saved_state:
                    diff = [k for k in set(got) | set(saved_state) if got.get(k) != saved_state.get(k)]
                    res.violation("osfault/kill/restart-differs", "server killed by the kernel at byte %d of a save: after restart the dataset is not the last completed dump: %s\n%s" % (
                        lim, resp.show([(k, saved_state.get(k), got.get(k)) for k in diff[:3]], 40), srv.stderr_tail(400)))
                c.cmd("SET", "change-counter", "%09d" % counter)
                if c.cmd("SAVE", timeout=30) != OK:
                    res.violation("osfault/kill/later-save-fails", "after a restart following a kill at byte %d, SAVE failed" % lim)
                good = read_dump(srv)
                saved_state = snap_only(dump_all(c))
        res.count("os_fault_limits_%s" % mode, len(limits))
    finally:
        srv.cleanup()
    return res


def stale_expiry_records(binary, tier):
    """Every key that is alive when a save walks the key space is in the dump - also a key whose NAME carried
    a TTL earlier: collections with a TTL are emptied (the key goes away), re-created without a TTL, and
    SAVEs are taken through the time in which the old deadlines pass and the sweeper comes by."""
    res = Result()
    srv = server.Server(binary, config_text="save \"\"\n").start()
    try:
        c = srv.client(timeout=30)
        want = {}
        t0 = time.monotonic()
        for i in range(8):
            k = b"reborn:%d" % i
            kind = i % 3
            if kind == 0:
                c.cmd("RPUSH", k, "old")
            elif kind == 1:
                c.cmd("SADD", k, "old")
            else:
                c.cmd("HSET", k, "old", "v")
            c.cmd("PEXPIRE", k, str(250 + 170 * i))
            if kind == 0:
                c.cmd("LPOP", k)
                c.cmd("RPUSH", k, "new")
                want[k] = ("list", [b"new"], False)
            elif kind == 1:
                c.cmd("SREM", k, "old")
                c.cmd("SADD", k, "new")
                want[k] = ("set", [b"new"], False)
            else:
                c.cmd("HDEL", k, "old")
                c.cmd("HSET", k, "new", "v")
                want[k] = ("hash", [(b"new", b"v")], False)
        n = 0
        while time.monotonic() - t0 < (3.0 if tier == "quick" else 8.0):
            r = c.cmd("SAVE", timeout=30)
            if r != OK:
                res.violation("stale-records/save-failed", "SAVE -> %r" % (r,))
                break
            passes = c.cmd("VERIF", "SWEEPER", "PASSES")
            at = time.monotonic() - t0
            loaded, log = load_dump_in_second_child(binary, read_dump(srv))
            n += 1
            res.evaluations += 1
            missing = [k for k, w in want.items() if norm(loaded.get((0, k), ("none", None, False))) != norm(w)]
            if missing:
                res.violation("stale-records/live-key-missing-from-dump", "SAVE %.2f s after the keys were re-created without a TTL (old deadlines 0.25-1.44 s, sweeper passes so far %r): "
                              "the dump lacks / alters %s, e.g. %s restored as %s" % (at, passes, resp.show(missing), resp.show(missing[0]),
                                                                                      resp.show(list(loaded.get((0, missing[0]), ("none",))), 40)))
                break
        res.count("stale_record_saves", n)
        res.cell("stale-records", "saves-through-old-deadlines")
    finally:
        srv.cleanup()
    return res


def abort_points(shard, nshards, binary, tier):
    """process::abort() at the n-th step: after restart the server holds exactly the last completed dump."""
    res = Result()
    srv = server.Server(binary, config_text="save \"\"\n").start()
    try:
        c = srv.client(timeout=30)
        seed_dataset(c, 1)
        c.cmd("SET", "unsaved-change", "step-%06d" % 0)
        assert c.cmd("SAVE") == OK
        nsteps = c.cmd("VERIF", "RDB", "COUNTSTEPS")
        saved = snap_only(dump_all(c))
        stride = 1 if tier == "thorough" else 5
        for n in range(0, nsteps, stride):
            if (n // stride) % nshards != shard:
                continue
            c.cmd("SET", "unsaved-change", "step-%06d" % (n + 1))   # same length: same number of steps
            c.cmd("LSET", "l", "0", "A")
            c.cmd("VERIF", "RDB", "ABORTSTEP", n)
            srv.expect_exit()
            try:
                c.send("SAVE" if n % 2 == 0 else "BGSAVE")
                c.recv(timeout=10)
                time.sleep(0.2)
            except (Closed, Timeout):
                pass
            t_end = time.monotonic() + 10
            while srv.alive() and time.monotonic() < t_end:
                time.sleep(0.01)
            res.evaluations += 1
            res.cell("abort", "SAVE" if n % 2 == 0 else "BGSAVE", "step%%%d" % (n % 4))
            if srv.alive():
                res.inconclusive.append("abort point %d was not reached" % n)
                srv.kill()
                srv.start()
                c = srv.client(timeout=30)
                seed_dataset(c, 1)
                c.cmd("SET", "unsaved-change", "step-%06d" % 0)
                c.cmd("SAVE")
                saved = snap_only(dump_all(c))
                continue
            srv.start()
            c = srv.client(timeout=30)
            now = snap_only(dump_all(c))
            if now != saved:
                diff = [k for k in set(now) | set(saved) if now.get(k) != saved.get(k)]
                res.violation("abortpoint/restart-differs", "process killed at save step %d of %d: after restart the dataset is not the last completed dump: %s\n%s" % (
                    n, nsteps, resp.show([(k, saved.get(k), now.get(k)) for k in diff[:3]], 40), srv.stderr_tail(500)))
                seed_dataset(c, 1)
                c.cmd("SET", "unsaved-change", "step-%06d" % 0)
                c.cmd("SAVE")
                saved = snap_only(dump_all(c))
    finally:
        srv.cleanup()
    return res


# --------------------------------------------------------------------------- B
ACTIONS = ["replace-no-ttl", "replace-with-ttl", "persist", "expire", "grow", "shrink", "empty", "delete", "rename-away",
           "other-type", "delete-recreate"]
TYPESEED = {
    "string": [["SET", "K", "v0"]],
    "list": [["RPUSH", "K", "a0", "b0", "c0"]],
    "set": [["SADD", "K", "a0", "b0", "c0"]],
    "hash": [["HSET", "K", "f", "v0", "g", "w0"]],
    "zset": [["ZADD", "K", "1", "a0", "2", "b0", "3", "c0"]],
    "stream": [["XADD", "K", "1-1", "f", "v0"], ["XADD", "K", "2-1", "f", "w0"]],
}
GROW = {"string": ["APPEND", "K", "+grown"], "list": ["RPUSH", "K", "d1", "e1"], "set": ["SADD", "K", "d1", "e1"],
        "hash": ["HSET", "K", "h", "x1"], "zset": ["ZADD", "K", "4", "d1", "5", "e1"], "stream": ["XADD", "K", "3-1", "f", "x1"]}
SHRINK = {"string": ["SETRANGE", "K", "0", "V"], "list": ["LPOP", "K"], "set": ["SREM", "K", "a0"], "hash": ["HDEL", "K", "f"],
          "zset": ["ZREM", "K", "a0", "b0"], "stream": ["XDEL", "K", "1-1"]}
EMPTY = {"string": ["SET", "K", ""], "list": ["LTRIM", "K", "5", "9"], "set": ["SREM", "K", "a0", "b0", "c0"],
         "hash": ["HDEL", "K", "f", "g"], "zset": ["ZREM", "K", "a0", "b0", "c0"], "stream": ["XDEL", "K", "1-1", "2-1"]}


def key_state(c, key):
    s = server_key_snapshot(c, key)
    return (s[0], s[1] if not isinstance(s[1], list) else tuple(map(lambda x: tuple(x) if isinstance(x, list) else x, s[1])), s[2])


def norm(v):
    if isinstance(v, list):
        return tuple(norm(x) for x in v)
    if isinstance(v, tuple):
        return tuple(norm(x) for x in v)
    return v


def directed_holds(shard, nshards, binary, tier):
    res = Result()
    cases = []
    for typ in TYPESEED:
        for phase in ("between-get-and-ttl", "before-get", "after-key") + (("zset-len-range",) if typ == "zset" else ()):
            for act in ACTIONS:
                for with_ttl in (False, True):
                    cases.append((typ, phase, act, with_ttl))
    cases.append(("string", "between-get-and-ttl", "save-during-bgsave", False))
    cases.append(("list", "after-key", "save-during-bgsave", True))
    srv = server.Server(binary, config_text="save \"\"\n").start()
    try:
        c = srv.client(timeout=30)
        for i, (typ, phase, act, with_ttl) in enumerate(cases):
            if i % nshards != shard:
                continue
            K = b"K"
            c.cmd("FLUSHALL")
            c.cmd("SET", "bystander", "same")
            c.cmd("SET", "bystander:ttl", "same", "EX", "99999")
            for a in TYPESEED[typ]:
                c.cmd(*[K if x == "K" else x for x in a])
            if with_ttl:
                c.cmd("EXPIRE", K, "50000")
            timeline = [norm(key_state(c, K))]
            c.cmd("VERIF", "RDB", "HOLD", phase, K)
            started0 = saves_started(c)
            r = c.cmd("BGSAVE")
            if isinstance(r, Err):
                res.inconclusive.append("BGSAVE refused: %r" % (r,))
                continue
            parked = False
            t_end = time.monotonic() + 10
            while time.monotonic() < t_end:
                st = c.cmd("VERIF", "RDB", "STATE")
                if st[0] == b"parked":
                    parked = True
                    break
                time.sleep(0.001)
            if not parked:
                res.inconclusive.append("save thread never parked at %s for %s" % (phase, typ))
                c.cmd("VERIF", "RDB", "RELEASE")
                wait_saves_done(c, started_before=started0)
                continue
            # client script on K while the save thread is parked
            sub = lambda a: [K if x == "K" else x for x in a]
            if act == "replace-no-ttl":
                steps = [["DEL", "K"]] + TYPESEED[typ][:1]
                steps = [sub([y.replace("0", "9") if y not in ("K", "1-1", "2-1", "1", "2", "3") and isinstance(y, str) else y for y in s]) for s in steps]
            elif act == "replace-with-ttl":
                steps = [sub(["DEL", "K"]), sub([y.replace("0", "8") if isinstance(y, str) and y not in ("K", "1-1", "2-1") else y for y in TYPESEED[typ][0]]), sub(["EXPIRE", "K", "70000"])]
            elif act == "persist":
                steps = [sub(["PERSIST", "K"])]
            elif act == "expire":
                steps = [sub(["EXPIRE", "K", "60000"])]
            elif act == "grow":
                steps = [sub(GROW[typ])]
            elif act == "shrink":
                steps = [sub(SHRINK[typ])]
            elif act == "empty":
                steps = [sub(EMPTY[typ])]
            elif act == "delete":
                steps = [sub(["DEL", "K"])]
            elif act == "rename-away":
                steps = [sub(["RENAME", "K", "K-renamed"])]
            elif act == "other-type":
                steps = [sub(["DEL", "K"]), sub(["SET", "K", "now-a-string"]) if typ != "string" else sub(["RPUSH", "K", "now-a-list"])]
            elif act == "delete-recreate":
                steps = [sub(["DEL", "K"])] + [sub(a) for a in TYPESEED[typ]]
            else:
                steps = []
            save_reply = None
            if act == "save-during-bgsave":
                steps = [sub(["APPEND", "K", "x"]) if typ == "string" else sub(["RPUSH", "K", "x"])]
            for s in steps:
                c.cmd(*s)
                timeline.append(norm(key_state(c, K)))
            if act == "save-during-bgsave":
                save_reply = c.cmd("SAVE")
            c.cmd("VERIF", "RDB", "RELEASE")
            if not wait_saves_done(c, started_before=started0):
                res.violation("pair/save-never-finished", "BGSAVE parked at %s for a %s key and released never finished" % (phase, typ))
                srv.restart()
                c = srv.client(timeout=30)
                continue
            dump = read_dump(srv)
            res.evaluations += 1
            res.cell("hold", typ, phase, act, "ttl" if with_ttl else "nottl")
            sig_tail = "%s/%s/%s" % (typ, phase, act)
            if dump is None:
                res.violation("pair/no-dump/" + sig_tail, "no dump.rdb after BGSAVE completed")
                continue
            try:
                loaded, log = load_dump_in_second_child(binary, dump)
            except Exception as e:
                res.violation("pair/unloadable/" + sig_tail, "dump written while the client ran %s on the key does not load: %r" % (resp.show(steps, 30), e))
                continue
            if "Failed to load RDB" in log or "panicked" in log:
                res.violation("pair/unloadable/" + sig_tail, "dump written while the client ran %s (save thread parked at %s) fails to load: %s" % (
                    resp.show(steps, 30), phase, log[-400:]))
                continue
            got = norm(loaded.get((0, K), ("none", None, False)))
            # renamed-away copies are a different key: only K is judged, plus the bystanders
            if got not in timeline:
                res.violation("pair/" + sig_tail + ("/ttl" if with_ttl else "/nottl"),
                              "BGSAVE parked at %s(%s); client ran %s; the dump holds %s = %s which the key never was at any instant; its timeline: %s" % (
                                  phase, typ, resp.show(steps, 30), resp.show(K), resp.show(list(got), 40), resp.show([list(t) for t in timeline], 40)))
            for bk, want in ((b"bystander", ("string", b"same", False)), (b"bystander:ttl", ("string", b"same", True))):
                if norm(loaded.get((0, bk), ("none", None, False))) != want:
                    res.violation("pair/bystander/" + sig_tail, "untouched key %s restored as %s; dump (%d bytes) loads to keys %s; live server has %s; loader log: %s" % (
                        resp.show(bk), resp.show(list(loaded.get((0, bk), ("none",))), 40), len(dump), resp.show(sorted(loaded)), resp.show(c.cmd("KEYS", "*")), log[-300:]))
            if act == "save-during-bgsave" and isinstance(save_reply, Err):
                res.count("save_during_bgsave_refused")
        if shard == 0:
            res.sample("HOLD between-get-and-ttl K; BGSAVE; [parked] DEL K; SET K v9; RELEASE -> dump must hold K as (v0, ttl0) or absent or (v9, no ttl)")
    finally:
        srv.cleanup()
    return res


def stress(wseed, binary, budget_s, auto=False):
    """4 writers rewriting uniquely versioned keys, BGSAVE in a loop (or, with auto=True, the
    server's own auto-save rule `save 1 1` firing about once a second), every dump loaded and checked."""
    res = Result()
    srv = server.Server(binary, config_text="save 1 1\n" if auto else "save \"\"\n").start()
    stop = threading.Event()
    hist = {}          # key -> list of (version repr, has_ttl, t_send, t_ack)
    lock = threading.Lock()
    nkeys = 60

    def writer(tid):
        c = srv.client(timeout=30)
        r = util.rng_for(wseed, "w", tid)
        n = 0
        try:
            while not stop.is_set():
                n += 1
                k = b"sk:%d" % (tid * 1000 + r.randrange(nkeys // 4))
                kind = r.choice(["string", "string-ttl", "list", "hash", "zset", "del"])
                u = b"%d.%d" % (tid, n)
                if kind == "string":
                    cmds, val, ttl = [[b"SET", k, u]], ("string", u), False
                elif kind == "string-ttl":
                    cmds, val, ttl = [[b"SET", k, u, b"EX", b"90000"]], ("string", u), True
                elif kind == "list":
                    cmds, val, ttl = [[b"MULTI"], [b"DEL", k], [b"RPUSH", k, u, u + b".2"], [b"EXEC"]], ("list", (u, u + b".2")), False
                elif kind == "hash":
                    cmds, val, ttl = [[b"MULTI"], [b"DEL", k], [b"HSET", k, b"f", u], [b"EXPIRE", k, b"80000"], [b"EXEC"]], ("hash", ((b"f", u),)), True
                elif kind == "zset":
                    cmds, val, ttl = [[b"MULTI"], [b"DEL", k], [b"ZADD", k, b"1", u, b"2", u + b".b"], [b"EXEC"]], ("zset", ((u, 1.0), (u + b".b", 2.0))), False
                else:
                    cmds, val, ttl = [[b"DEL", k]], ("none", None), False
                t0 = time.monotonic()
                c.pipeline(cmds)
                t1 = time.monotonic()
                with lock:
                    hist.setdefault(k, []).append((val, ttl, t0, t1))
        except (Closed, Timeout):
            pass

    # one long-lived sorted set whose members are only ever re-scored (single-member ZADD of an existing
    # member: one critical section of the skip list): the save thread walks it through the shared Arc, so
    # every dump must hold each of the NZ members exactly once, with a score the member had during the save
    NZ = 4000
    zhist = [[[float(i), 0.0, 0.0]] for i in range(NZ)]     # member -> versions [score, t_send, t_ack]

    def rescorer():
        c = srv.client(timeout=30)
        r = util.rng_for(wseed, "z")
        try:
            while not stop.is_set():
                picks = r.sample(range(NZ), 8)
                scores = [r.randrange(10 * NZ) for _ in picks]
                t0 = time.monotonic()
                entries = [[float(sc), t0, float("inf")] for sc in scores]
                with lock:
                    for i, e in zip(picks, entries):      # recorded before it is sent: an update in flight is admissible
                        zhist[i].append(e)
                c.pipeline([[b"ZADD", b"cz", b"%d" % sc, b"m:%d" % i] for i, sc in zip(picks, scores)])
                t1 = time.monotonic()
                with lock:
                    for e in entries:
                        e[2] = t1
        except (Closed, Timeout):
            pass

    threads = [threading.Thread(target=writer, args=(i,)) for i in range(4)] + [threading.Thread(target=rescorer)]
    try:
        ctl = srv.client(timeout=60)
        for i in range(0, NZ, 1000):
            ctl.cmd("ZADD", "cz", *[x for j in range(i, i + 1000) for x in (b"%d" % j, b"m:%d" % j)])
        # untouched keys at the edges of the dump's length encodings (6 bit / 14 bit / 32 bit): every dump
        # taken under load must bring them back exactly - a length written wrong also derails what follows it
        edge = {}
        for n in (63, 64, 16383, 16384, 16385, 65536):
            k = b"edge:str:%d" % n
            ctl.cmd("SET", k, b"e" * n)
            edge[k] = ("string", b"e" * n, False)
        for n in (64, 16384):
            k = b"edge:list:%d" % n
            for i in range(0, n, 4096):
                ctl.cmd("RPUSH", k, *[b"%d" % j for j in range(i, min(n, i + 4096))])
            edge[k] = ("list", [b"%d" % j for j in range(n)], False)
        for t in threads:
            t.daemon = True
            t.start()
        t_end = time.time() + budget_s
        nsaves = 0
        while time.time() < t_end:
            s0 = time.monotonic()
            started0 = saves_started(ctl)
            if auto:
                # nobody asks for a save: the monitor thread must start one by itself; the window in
                # which it ran is only known to lie between these two observations
                if not wait_saves_done(ctl, 15, started_before=started0):
                    res.inconclusive.append("no auto-save completed within 15 s under write load (rule: save 1 1)")
                    break
            else:
                r = ctl.cmd("BGSAVE")
                if isinstance(r, Err):
                    time.sleep(0.01)
                    continue
                if not wait_saves_done(ctl, 60, started_before=started0):
                    res.violation("stress/save-stuck", "BGSAVE under write load never finished")
                    break
            s1 = time.monotonic()
            dump = read_dump(srv)
            nsaves += 1
            loaded, log = load_dump_in_second_child(binary, dump)
            with lock:
                snapshot_hist = {k: list(v) for k, v in hist.items()}
            res.evaluations += 1
            if "Failed to load RDB" in log or "panicked" in log:
                res.violation("stress/unloadable", "dump taken under write load fails to load: %s" % log[-400:])
                continue
            checked = 0
            for k, versions in snapshot_hist.items():
                got = loaded.get((0, k), ("none", None, False))
                gv = (got[0], norm(got[1]) if got[0] != "string" else got[1]) if got[0] != "none" else ("none", None)
                if got[0] == "hash":
                    gv = ("hash", tuple(tuple(x) for x in got[1]))
                if got[0] == "list":
                    gv = ("list", tuple(got[1]))
                if got[0] == "zset":
                    gv = ("zset", tuple((m, s) for m, s in got[1]))
                admissible = []
                # before its first write the key was absent
                first_send = versions[0][2]
                if first_send >= s0:
                    admissible.append((("none", None), False))
                for i, (val, ttl, t0, t1) in enumerate(versions):
                    nxt_ack = versions[i + 1][3] if i + 1 < len(versions) else float("inf")
                    if t0 <= s1 and nxt_ack >= s0:
                        admissible.append((val, ttl))
                        if val[0] == "hash":
                            # written as MULTI/DEL/HSET/EXPIRE/EXEC: EXEC is indivisible for other
                            # clients (C07), but the save thread is not a client and the statement
                            # only asks for a pair the key had at one instant - between HSET and
                            # EXPIRE the key really holds this value without a TTL
                            admissible.append((val, False))
                        if val[0] == "zset":
                            # a multi-member ZADD takes the shard lock once per member, so the save
                            # thread can find the set after the first member only: a value the key
                            # did hold at that instant (observed on the pinned tree; DESIGN.md 7/C10)
                            admissible.append((("zset", val[1][:1]), ttl))
                checked += 1
                if got[0] == "none":
                    # the statement constrains the keys that ARE in the dump; a key the save thread found
                    # absent (e.g. between the DEL and the re-creation inside a writer's EXEC) is not judged
                    res.count("stress_keys_absent_in_dump")
                    continue
                if (gv, got[2]) not in admissible:
                    res.violation("stress/pair-never-existed/%s" % gv[0], "dump of BGSAVE #%d holds %s = %s (ttl %s) but the versions possibly current during the save were %s" % (
                        nsaves, resp.show(k), resp.show(list(gv), 40), got[2], resp.show([list(a) for a in admissible[:6]], 40)))
                    break
            res.count("stress_keys_checked", checked)
            with lock:
                zsnap = [[tuple(e) for e in vs] for vs in zhist]
            got = loaded.get((0, b"cz"), ("none", None, False))
            if got[0] != "zset":
                res.violation("stress/conserved-zset/lost", "dump of BGSAVE #%d holds the %d-member sorted set as %s" % (nsaves, NZ, resp.show(list(got), 40)))
            else:
                names = [m for m, sc in got[1]]
                want_names = set(b"m:%d" % i for i in range(NZ))
                if len(names) != NZ or set(names) != want_names:
                    missing = sorted(want_names - set(names))
                    twice = sorted(set(m for m in names if names.count(m) > 1)) if len(names) != len(set(names)) else []
                    res.violation("stress/conserved-zset/members", "members are only re-scored, never removed or added, yet the dump of BGSAVE #%d holds %d entries, "
                                  "%d distinct; missing %s, more than once %s" % (nsaves, len(names), len(set(names)), resp.show(missing[:5]), resp.show(twice[:5])))
                else:
                    moved = 0
                    for m, sc in got[1]:
                        vs = zsnap[int(m[2:])]
                        ok = False
                        for j, (vsc, ts, ta) in enumerate(vs):
                            nxt_ack = vs[j + 1][2] if j + 1 < len(vs) else float("inf")
                            if ts <= s1 and nxt_ack >= s0 and vsc == sc:
                                ok = True
                                break
                        if len(vs) > 1:
                            moved += 1
                        if not ok:
                            res.violation("stress/conserved-zset/score-never-held", "dump of BGSAVE #%d: member %s has score %r; scores possibly current during the save: %s" % (
                                nsaves, resp.show(m), sc, [v[0] for j, v in enumerate(vs) if v[1] <= s1 and (vs[j + 1][2] if j + 1 < len(vs) else float("inf")) >= s0][:6]))
                            break
                    res.count("stress_zset_members_checked", NZ)
                    res.extra["stress_zset_rescores_total"] = sum(len(v) - 1 for v in zsnap)
            for k, want in edge.items():
                got = loaded.get((0, k), ("none", None, False))
                if (got[0], got[1], got[2]) != want:
                    res.violation("stress/edge-length/%s" % k.decode(), "dump of BGSAVE #%d: untouched key %s (length at an encoding boundary) restored as %s" % (
                        nsaves, resp.show(k), resp.show(list(got), 40)))
                    break
        res.count("stress_saves", nsaves)
        res.cell("stress", "saves>5" if nsaves > 5 else "saves<=5")
        res.cell("stress", "auto-save-under-4-writers" if auto else "bgsave-under-4-writers")
        if auto:
            res.count("stress_auto_saves", nsaves)
    finally:
        stop.set()
        for t in threads:
            t.join(timeout=10)
        srv.cleanup()
    return res


# --------------------------------------------------------------------------- overlapping saves
def _ov_value(i, ver):
    """Value of static key i in dataset version `ver`: the length depends on both, so two versions lay the file out differently."""
    return b"%d.%d:" % (i, ver) + bytes([97 + (i + ver) % 26]) * (40 + (i * 37 + ver * 911) % 2500)


def _ov_judge(res, binary, dump, nkeys, versions, tag, what, shifters=None):
    """The dump must load and hold every static key with its value from one of `versions`; shifter keys
    (rewritten between saves) any value they were ever given."""
    res.evaluations += 1
    if dump is None:
        res.violation("overlap/%s/no-dump" % tag, "%s: no dump.rdb although a save had completed before" % what)
        return False
    try:
        loaded, log = load_dump_in_second_child(binary, dump)
    except Exception as e:
        res.violation("overlap/%s/unloadable" % tag, "%s: dump.rdb (%d bytes, %d zero bytes) does not load: %r" % (what, len(dump), dump.count(0), e))
        return False
    if "Failed to load RDB" in log or "panicked" in log:
        res.violation("overlap/%s/unloadable" % tag, "%s: dump.rdb (%d bytes, %d zero bytes) fails to load: %s" % (what, len(dump), dump.count(0), log[-300:]))
        return False
    seen_versions = set()
    for i in range(nkeys):
        got = loaded.get((0, b"o:%d" % i), ("none", None, False))
        ok = [v for v in versions if got == ("string", _ov_value(i, v), False)]
        if not ok:
            res.violation("overlap/%s/value-never-held" % tag, "%s: dump.rdb holds o:%d = %s; the key only ever held the values of versions %s (e.g. %s)" % (
                what, i, resp.show(list(got), 50), versions, resp.show(_ov_value(i, versions[-1]), 50)))
            return False
        seen_versions.update(ok)
    for k, vals in (shifters or {}).items():
        got = loaded.get((0, k), ("none", None, False))
        if got[0] != "string" or got[1] not in vals:
            res.violation("overlap/%s/shifter-never-held" % tag, "%s: dump.rdb holds %s = %s, not one of the %d values written to it" % (what, resp.show(k), resp.show(list(got), 50), len(vals)))
            return False
    extra = [k for (db, k) in loaded if not k.startswith(b"o:") and k not in (shifters or {})]
    if extra:
        res.violation("overlap/%s/unknown-keys" % tag, "%s: dump.rdb holds keys nobody wrote: %s" % (what, resp.show(extra[:5])))
        return False
    res.cell("overlap", tag, "versions-in-dump=" + "+".join(str(v) for v in sorted(seen_versions)))
    return True


def overlap_shutdown(binary, res, rng, rounds):
    """BGSAVE parked in the middle of its file, the data set rewritten, then SHUTDOWN (which saves on the command
    thread without waiting) and the release of the parked thread in one write: two saves of differently laid out
    snapshots run to their ends side by side. Whatever order they finish in and whenever the process leaves, the
    dump.rdb that remains must be one complete snapshot whose every key holds a value it had."""
    nkeys = 300
    for rnd in range(rounds):
        srv = server.Server(binary, config_text="save \"\"\n").start()
        try:
            c = srv.client(timeout=30)
            c.pipeline([[b"SET", b"o:%d" % i, _ov_value(i, 0)] for i in range(nkeys)])
            if c.cmd("SAVE") != OK:
                res.inconclusive.append("overlap/shutdown: initial SAVE refused")
                continue
            c.pipeline([[b"SET", b"o:%d" % i, _ov_value(i, 1)] for i in range(nkeys)])
            hold_key = b"o:%d" % rng.randrange(nkeys)
            phase = rng.choice(["after-key", "before-get", "between-get-and-ttl"])
            c.cmd("VERIF", "RDB", "HOLD", phase, hold_key)
            c.cmd("BGSAVE")
            t_end = time.monotonic() + 10
            parked = False
            while time.monotonic() < t_end:
                if c.cmd("VERIF", "RDB", "STATE")[0] == b"parked":
                    parked = True
                    break
                time.sleep(0.001)
            if not parked:
                res.inconclusive.append("overlap/shutdown: save thread never parked")
                continue
            c.pipeline([[b"SET", b"o:%d" % i, _ov_value(i, 2)] for i in range(nkeys)])
            srv.expect_exit()
            delay_release = rng.choice([0, 0, 0.01, 0.04])
            try:
                if delay_release:
                    c.send("SHUTDOWN")
                    time.sleep(delay_release)
                    c.send("VERIF", "RDB", "RELEASE")
                else:
                    c.send_raw(resp.encode([b"SHUTDOWN"]) + resp.encode([b"VERIF", b"RDB", b"RELEASE"]))
            except Closed:
                pass
            try:
                srv.proc.wait(timeout=20)
            except Exception:
                res.inconclusive.append("overlap/shutdown: the server did not leave within 20 s of SHUTDOWN")
                continue
            res.cell("overlap", "shutdown", "hold=" + phase, "release-delay=%s" % delay_release)
            # version 0 everywhere = the dump of the first SAVE survived (neither later save completed): complete, hence admissible
            _ov_judge(res, binary, read_dump(srv), nkeys, [0, 1, 2], "shutdown-during-bgsave",
                      "SHUTDOWN while a BGSAVE was parked at %s(%s), thread released right after" % (phase, resp.show(hold_key)))
            res.count("overlap_shutdown_rounds")
        finally:
            srv.cleanup()


def overlap_autosave(binary, res, rng, budget_s):
    """SAVE in a loop while the rule `save 1 1` lets the monitor thread start background saves by itself: a
    background save that starts while a SAVE is writing runs side by side with it (SAVE only looks for a running
    BGSAVE, not the other way round). One shifter key of unpredictable length is rewritten between the SAVEs, so
    any two snapshots lay the file out differently. dump.rdb is read after every reply; the dumps read around an
    observed overlap, and a sample of the others, are loaded in a second child."""
    nkeys = 1500
    srv = server.Server(binary, config_text="save 1 1\n").start()
    try:
        c = srv.client(timeout=60)
        c.pipeline([[b"SET", b"o:%d" % i, _ov_value(i, 5)] for i in range(nkeys)])
        shifters = {b"shift:%d" % j: {b"0:s"} for j in range(8)}
        c.pipeline([[b"SET", k, b"0:s"] for k in shifters])
        n = 0
        dumps = []          # (priority, n, bytes)
        overlaps = 0
        refused = 0
        errors = 0
        t_end = time.monotonic() + budget_s
        while time.monotonic() < t_end:
            n += 1
            k = b"shift:%d" % rng.randrange(8)
            v = b"%d:" % n + b"s" * rng.randrange(1, 6000)
            shifters[k].add(v)
            c.cmd("SET", k, v)
            st0 = c.cmd("VERIF", "RDB", "SAVES")
            r = c.cmd("SAVE")
            st1 = c.cmd("VERIF", "RDB", "SAVES")
            d = read_dump(srv)
            side_by_side = (st1[0] - st0[0] >= 2) or (st0[0] > st0[1]) or (st1[0] > st1[1])
            if isinstance(r, Err):
                if b"in progress" in r.s:
                    refused += 1
                else:
                    errors += 1
                    res.count("overlap_save_errors_on_a_healthy_disk")
                    res.sample("SAVE under rule `save 1 1` answered %s" % resp.show(r))
            if side_by_side and r == OK:
                overlaps += 1
            if d is not None:
                pri = 0 if (side_by_side or d.count(0) > 64) else 1
                dumps.append((pri, n, d))
            if overlaps >= 6 and n > 40:
                break
        wait_saves_done(c, 30)
        d = read_dump(srv)
        if d is not None:
            dumps.append((0, n + 1, d))
        res.count("overlap_autosave_saves", n)
        res.count("overlap_autosave_side_by_side", overlaps)
        res.count("overlap_autosave_save_refused_bgsave_running", refused)
        res.cell("overlap", "autosave", "side-by-side-observed" if overlaps else "never-side-by-side")
        first = [x for x in dumps if x[0] == 0]
        rest = [x for x in dumps if x[0] == 1]
        rng.shuffle(rest)
        seen = set()
        for pri, nn, d in first[:14] + rest[:4]:
            h = hash(d)
            if h in seen:
                continue
            seen.add(h)
            if not _ov_judge(res, binary, d, nkeys, [5], "save-beside-autosave",
                             "dump.rdb read after SAVE #%d of a loop under rule `save 1 1` (%s)" % (nn, "a background save ran side by side" if pri == 0 else "sampled"),
                             shifters=shifters):
                break
        c.close()
    finally:
        srv.cleanup()


# --------------------------------------------------------------------------- dispatch
def _w(arg, binary, tier, nshards, seed):
    role, shard = arg
    if role == "fault":
        return fault_points(shard, nshards, binary, tier)
    if role == "abort":
        return abort_points(shard, nshards, binary, tier)
    if role == "hold":
        return directed_holds(shard, nshards, binary, tier)
    if role == "osfault":
        return os_faults(shard, nshards, binary, tier)
    if role == "stale-records":
        return stale_expiry_records(binary, tier)
    if role == "resave":
        # "a later save still works": a save that answers +OK has written the dataset of that moment,
        # whatever path the changes since the previous save took (scenario shared with C09)
        from . import c09
        res = Result()
        plans = [[pth] for pth in c09.RESAVE_PATHS] + [None] * (3 if tier == "quick" else 40)
        for i, plan in enumerate(plans):
            try:
                c09.second_save(res, binary, util.rng_for(seed, "C10-resave", shard, i), prop_tag="resave", paths=plan)
            except (Closed, Timeout, RuntimeError) as e:
                res.inconclusive.append("resave scenario: %r" % (e,))
        return res
    if role == "overlap":
        res = Result()
        rng = util.rng_for(seed, "C10-overlap", shard)
        try:
            if shard == 0:
                overlap_shutdown(binary, res, rng, 8 if tier == "quick" else 60)
            else:
                overlap_autosave(binary, res, rng, 9 if tier == "quick" else 90)
        except (Closed, Timeout, RuntimeError) as e:
            res.inconclusive.append("overlap scenario: %r" % (e,))
        return res
    if role == "stress":
        return stress(seed * 10 + shard, binary, 15 if tier == "quick" else 120)
    if role == "stress-auto":
        return stress(seed * 10 + 5 + shard, binary, 12 if tier == "quick" else 60, auto=True)
    if role == "loader":
        rsbin_budget = 15 if tier == "quick" else 90
        return rsbin.worker((seed * 10 + shard, rsbin_budget, tier), "rdbload", [], rsbin_budget * 6 + 300, prefix="loader/")
    raise ValueError(role)


def run(tier):
    t0 = time.time()
    seed = util.seed_from_env()
    binary, bt = server.build("dev")
    rsbin.build()
    args = [("fault", i) for i in range(6)] + [("abort", i) for i in range(3)] + [("hold", i) for i in range(5)] + \
           [("stress", 0)] + [("stress-auto", 0)] + [("loader", 0)] + [("osfault", i) for i in range(4)] + [("resave", 0)] + [("stale-records", 0)] + [("overlap", 0), ("overlap", 1)]
    res = Result()
    for role, count in (("fault", 6), ("abort", 3), ("hold", 5)):
        pass
    # each role is sharded over its own number of workers
    def nsh(role):
        return {"fault": 6, "abort": 3, "hold": 5, "stress": 1, "stress-auto": 1, "loader": 1, "osfault": 4, "resave": 1, "stale-records": 1, "overlap": 2}[role]
    jobs = []
    for role, shard in args:
        jobs.append((role, shard))
    results = util.run_workers(_wrap, [(a, nsh(a[0])) for a in jobs], dict(binary=binary, tier=tier, seed=seed), nproc=util.jobs())
    if tier == "thorough":
        # E5(c): save thread vs command thread on Arc-shared values, under ThreadSanitizer
        from . import tsan_soup
        results.merge(tsan_soup.run_soup("C10", seed, 120, "save"))
    return util.finish("C10", tier, seed, "fault_enumeration", results,
                       "A: every step of a save (open, each write, flush, rename) of two datasets as the failure point: "
                       "injected I/O error through SAVE and BGSAVE (dump.rdb must stay byte-identical, error reported, in-"
                       "progress flag cleared, next SAVE works and every 7th resulting dump is loaded in a second child and "
                       "compared) and process abort (restart must load exactly the last completed dump); A2: the same with the kernel as "
                       "the fault source - RLIMIT_FSIZE set on the running server at every offset class of a small dump and around every "
                       "8 KB buffer boundary of a large one, once with SIGXFSZ ignored (writes fail with EFBIG: error reported, dump "
                       "byte-identical, flag cleared, next SAVE works) and once with the default action (the kernel kills the server at "
                       "that write: restart loads exactly the last completed dump); B: save thread parked "
                       "at {before-get, between-get-and-ttl, after-key, zset-len-range} x six types x 11 client actions x "
                       "{TTL, no TTL}, SAVE during a parked BGSAVE, and BGSAVE in a loop (and, separately, the auto-save rule `save 1 1`) under 4 writers of uniquely versioned "
                       "keys - every dump loaded in a second child, each key must be a (value, TTL-presence) pair it had at one "
                       "instant during the save, and a 4000-member sorted set that is only re-scored must be in every dump with each member exactly once and a score it had; "
                       "overlap: BGSAVE parked in mid-file + data set rewritten + SHUTDOWN and RELEASE in one write (two saves of different layouts finish side by side "
                       "while the process leaves: the remaining dump.rdb loads and holds one of each key's three versions), SAVE loop under rule `save 1 1` with dump.rdb read after every reply; "
                       "C: every prefix and 14 single-byte substitutions at every offset of 4 (quick) / "
                       "21 (thorough) valid dumps loaded in-process under catch_unwind + counting allocator + watchdog; thorough: "
                       "120 s of BGSAVE/SAVE/BGREWRITEAOF under 6 writers against a ThreadSanitizer build; "
                       "cell = (part, type, phase / step class, action)", t0,
                       extra_cov={"exhaustive": True},
                       assumptions=["fault points cover process death and injected write errors, not power loss (the code never fsyncs)",
                                    "the temp-file name and step numbering are those of the hooks in rdb.rs"], min_cells=40)


def _wrap(arg, binary, tier, seed):
    (role, shard), nshards = arg
    return _w((role, shard), binary, tier, nshards, seed)

"""C13 — blocking pops never lose, duplicate or strand elements or clients.

Monitor A (stepwise scheduler): the harness is the only source of
nondeterminism; one action at a time, then it waits for event-loop progress
(VERIF LOOPCOUNT, not time), reads VERIF BLOCKED, drains sockets and compares
with a small model of who must now hold a reply.
Monitor B (free-running stress): schedule-independent oracles only
(conservation, exactly-once, timeout lower bound, final quiescence)."""
import threading
import time

from .. import server, util, resp
from ..resp import Err, NULL_ARRAY, NOTHING, Closed, Timeout
from ..util import Result

KEYS = [b"q1", b"q2", b"q3"]


class Ambiguous(Exception):
    """A finite timeout raced an action on a loaded machine: the outcome is not decided by the model."""


class Cl:
    def __init__(self, srv, i):
        self.c = srv.client(timeout=10)
        self.i = i
        self.id = self.c.cmd("VERIF", "CONNID")
        self.blocked = None          # dict(keys, left, deadline, t_send, infinite)
        self.alive = True


class Sim:
    """Reference model: lists + FIFO of blocked clients; serve rule = Redis."""

    def __init__(self):
        self.lists = {k: [] for k in KEYS}
        self.waiters = []           # Cl in blocking order

    def serve(self):
        """After any push: while some key has elements and a waiter on it, serve the
        earliest-blocked waiter of that key. Returns list of (client, key, value)."""
        out = []
        progress = True
        while progress:
            progress = False
            for w in list(self.waiters):
                for k in w.blocked["keys"]:
                    if self.lists[k]:
                        v = self.lists[k].pop(0) if w.blocked["left"] else self.lists[k].pop()
                        out.append((w, k, v))
                        self.waiters.remove(w)
                        progress = True
                        break
                if progress:
                    break
        return out


def history(srv, rng, res, ctl, hn):
    clients = [Cl(srv, i) for i in range(rng.randrange(3, 7))]
    sim = Sim()
    log = []
    uniq = [0]
    delivered = {}       # element -> who
    pushed = []

    def elem():
        uniq[0] += 1
        e = b"e%d.%d" % (hn, uniq[0])
        return e

    def bad(sig, detail):
        res.violation(sig, detail + "\nhistory: " + "; ".join(log[-30:]), {"history": log})
        return False

    def settle(n=4):
        server.wait_loops(ctl, n)

    def expect_deliveries(served, cause):
        """Every (client, key, value) in served must now be readable on that client's socket; nobody else
        may have received anything."""
        settle(5)
        for (w, k, v) in served:
            got = w.c.try_recv(0.3)
            if got is NOTHING:
                # give it a generous number of further loop iterations before calling it stranded
                settle(60)
                got = w.c.try_recv(0.5)
            res.evaluations += 1
            if got is NOTHING:
                return bad("not-served/%s" % cause, "client c%d blocked on %s was not served although %s holds/held %s (model: must be served)" % (
                    w.i, resp.show(w.blocked["keys"]), k.decode(), v.decode()))
            if got is NULL_ARRAY and w.blocked["deadline"] is not None and time.monotonic() >= w.blocked["t_send"] + w.blocked["timeout"]:
                # the waiter the model serves had a finite timeout that fired before the push got there (the step took
                # longer than the 60 ms guard on a loaded machine): who gets the element now is not the model's to say
                raise Ambiguous()
            if got != [k, v]:
                return bad("wrong-delivery/%s" % cause, "client c%d expected [%s, %s], got %s" % (w.i, k.decode(), v.decode(), resp.show(got)))
            if v in delivered:
                return bad("duplicated/%s" % cause, "element %s delivered to c%d and c%d" % (v.decode(), delivered[v], w.i))
            delivered[v] = w.i
            w.blocked = None
        for cl in clients:
            if cl.alive and cl.blocked is not None:
                got = cl.c.try_recv(0.0)
                if got is not NOTHING:
                    if got is NULL_ARRAY and cl.blocked["deadline"] is not None and time.monotonic() >= cl.blocked["t_send"] + cl.blocked["timeout"]:
                        # its timeout fired meanwhile: legitimate
                        sim.waiters.remove(cl)
                        cl.blocked = None
                        continue
                    return bad("order/%s" % cause, "client c%d (blocked on %s, should still wait) received %s; model served %s" % (
                        cl.i, resp.show(cl.blocked["keys"]), resp.show(got), resp.show([(w.i, k, v) for w, k, v in served])))
        return True

    def check_registry(tag):
        """Registry entries <-> Blocked connections, at a quiescent point."""
        settle(3)
        r = ctl.cmd("VERIF", "BLOCKED")
        t_read = time.monotonic()
        reg, conns, pending = r
        res.count("registry_checks")
        # a waiter whose finite timeout has passed (or is about to) by the time the registry was read may
        # rightly be gone already - on a loaded machine a step can take longer than a 150 ms timeout
        maybe = {w.id for w in sim.waiters if not w.blocked["infinite"] and w.blocked["deadline"] <= t_read + 0.03}
        want = {}
        for w in sim.waiters:
            for k in w.blocked["keys"]:
                want.setdefault(k, []).append(w.id)
        got = {}
        for db, key, ids in reg:
            if ids:
                got[key] = list(ids)
        states = {cid: st for cid, st in conns}
        if pending:
            return True       # wake-ups still queued: not quiescent yet
        for k in set(want) | set(got):
            gs, ws = set(got.get(k, [])), set(want.get(k, []))
            if maybe and (ws - maybe) <= gs <= ws:
                res.count("registry_checks_with_expiring_waiters")
                continue
            if sorted(want.get(k, [])) != sorted(set(got.get(k, []))):
                return bad("residue/%s" % tag, "registry for %s holds connections %s, model says %s (blocked clients: %s)" % (
                    k.decode(), got.get(k, []), want.get(k, []), [(w.i, w.id) for w in sim.waiters]))
            if want.get(k, []) != got.get(k, []) and sorted(want.get(k, [])) == sorted(got.get(k, [])):
                return bad("residue-order/%s" % tag, "registry order for %s is %s, blocking order %s" % (k.decode(), got.get(k), want.get(k)))
        for w in sim.waiters:
            if w.id in maybe:
                continue
            if states.get(w.id) != b"blocked":
                return bad("residue/state/%s" % tag, "client c%d should be blocked, connection state is %r" % (w.i, states.get(w.id)))
        for cl in clients:
            if cl.alive and cl.blocked is None and states.get(cl.id) == b"blocked":
                return bad("residue/state/%s" % tag, "client c%d is not blocked in the model but its connection state is blocked" % cl.i)
        return True

    try:
        def resolve_near_timeouts():
            """Waiters whose finite deadline is about to pass (or just passed) make the next action's outcome
            ambiguous: let their timeout fire and consume the nil first."""
            for cl in list(sim.waiters):
                b = cl.blocked
                if b["infinite"] or b["deadline"] > time.monotonic() + 0.06:
                    continue
                try:
                    got = cl.c.recv(timeout=max(0.0, b["deadline"] - time.monotonic()) + 3.0)
                except Timeout:
                    return bad("stranded/timeout-never-fires", "c%d blocked with timeout %.2fs on %s got no reply 3 s after its deadline" % (
                        cl.i, b["timeout"], resp.show(b["keys"])))
                t1 = time.monotonic()
                res.evaluations += 1
                res.cell("timeout-fires")
                if got is not NULL_ARRAY and got is not None:
                    return bad("wrong-delivery/timeout", "c%d expected nil at its timeout, got %s" % (cl.i, resp.show(got)))
                if t1 < b["t_send"] + b["timeout"] - 0.002:
                    return bad("early-nil", "c%d got nil %.3fs after sending, timeout was %.3fs" % (cl.i, t1 - b["t_send"], b["timeout"]))
                sim.waiters.remove(cl)
                cl.blocked = None
                log.append("c%d's timeout fired" % cl.i)
            return True

        nact = rng.randrange(8, 40)
        for step in range(nact):
            if resolve_near_timeouts() is False:
                return False
            free = [cl for cl in clients if cl.alive and cl.blocked is None]
            blocked = [cl for cl in clients if cl.alive and cl.blocked is not None]
            act = rng.choice(["block", "block", "block", "push", "push", "push", "pop", "pipeline", "multi-push", "script-push",
                              "disconnect", "timeout", "block-fast", "rename-push", "block-in-multi"])
            if act in ("block", "block-fast") and free:
                cl = rng.choice(free)
                keys = rng.sample(KEYS, rng.choice([1, 1, 2, 3]))
                left = rng.random() < 0.5
                infinite = rng.random() < 0.6
                timeout = 0 if infinite else rng.choice([0.15, 0.25, 0.4])
                op = b"BLPOP" if left else b"BRPOP"
                log.append("c%d %s %s %s" % (cl.i, op.decode(), b" ".join(keys).decode(), timeout))
                t0 = time.monotonic()
                cl.c.send(op, *keys, b"%g" % timeout)
                # fast path?
                ready = [k for k in keys if sim.lists[k]]
                res.cell("block", "multi-key" if len(keys) > 1 else "single-key", "infinite" if infinite else "finite", "fast" if ready else "parks")
                if ready:
                    k = ready[0]
                    v = sim.lists[k].pop(0) if left else sim.lists[k].pop()
                    got = cl.c.recv(timeout=5)
                    res.evaluations += 1
                    if got != [k, v]:
                        return bad("fast-path", "c%d %s on %s with data: expected [%s,%s], got %s" % (cl.i, op.decode(), resp.show(keys), k.decode(), v.decode(), resp.show(got)))
                    if v in delivered:
                        return bad("duplicated/fast-path", "element %s delivered twice" % v.decode())
                    delivered[v] = cl.i
                else:
                    cl.blocked = dict(keys=keys, left=left, deadline=None if infinite else t0 + timeout, t_send=t0, timeout=timeout, infinite=infinite)
                    sim.waiters.append(cl)
                    settle(3)
            elif act in ("push", "multi-push", "script-push", "rename-push"):
                who = rng.choice(free) if free else None
                if who is None:
                    continue
                k = rng.choice(KEYS)
                if act == "rename-push" and sim.lists[k]:
                    act = "push"       # RENAME would replace what the key holds: only onto an empty key
                n = rng.choice([1, 1, 2, 3])
                elems = [elem() for _ in range(n)]
                leftpush = rng.random() < 0.5
                op = b"LPUSH" if leftpush else b"RPUSH"
                log.append("c%d %s%s %s %s" % (who.i, "[%s] " % act if act != "push" else "", op.decode(), k.decode(), b" ".join(elems).decode()))
                if act == "push":
                    r = who.c.cmd(op, k, *elems)
                elif act == "rename-push":
                    # the elements reach the key without any push command naming it
                    who.c.cmd("DEL", "c13:tmp")
                    who.c.cmd(op, b"c13:tmp", *elems)
                    r = who.c.cmd("RENAME", "c13:tmp", k)
                elif act == "multi-push":
                    who.c.cmd("MULTI")
                    who.c.cmd(op, k, *elems)
                    r = who.c.cmd("EXEC")
                else:
                    r = who.c.cmd(b"EVAL", b"return redis.call(unpack(ARGV))", b"0", op, k, *elems)
                pushed += elems
                for e in elems:
                    if leftpush:
                        sim.lists[k].insert(0, e)
                    else:
                        sim.lists[k].append(e)
                served = sim.serve()
                res.cell(act, "n=%d" % n, "waiters=%d" % min(2, sum(1 for w in blocked if k in w.blocked["keys"])))
                if not expect_deliveries(served, act + ("-multi-element" if n > 1 else "")):
                    return False
            elif act == "pop" and free:
                who = rng.choice(free)
                k = rng.choice(KEYS)
                left = rng.random() < 0.5
                log.append("c%d %s %s" % (who.i, "LPOP" if left else "RPOP", k.decode()))
                got = who.c.cmd(b"LPOP" if left else b"RPOP", k)
                exp = (sim.lists[k].pop(0) if left else sim.lists[k].pop()) if sim.lists[k] else None
                res.evaluations += 1
                res.cell("pop", "hit" if exp else "miss")
                if got != exp:
                    return bad("lost-or-extra/pop", "c%d pop on %s: expected %s, got %s" % (who.i, k.decode(), resp.show(exp), resp.show(got)))
                if got is not None:
                    if got in delivered:
                        return bad("duplicated/pop", "element %s delivered twice" % got.decode())
                    delivered[got] = who.i
            elif act == "pipeline" and free:
                # push + pop of the same key in one write: the pusher's own pop wins, waiters keep waiting
                who = rng.choice(free)
                k = rng.choice(KEYS)
                e = elem()
                log.append("c%d [pipeline] RPUSH %s %s + LPOP %s" % (who.i, k.decode(), e.decode(), k.decode()))
                had = list(sim.lists[k])
                rs = who.c.pipeline([[b"RPUSH", k, e], [b"LPOP", k]])
                pushed.append(e)
                sim.lists[k].append(e)
                # Redis: both commands execute back to back before any blocked client is served
                exp = sim.lists[k].pop(0)
                res.evaluations += 1
                res.cell("pipeline", "waiters=%d" % min(2, sum(1 for w in blocked if k in w.blocked["keys"])))
                if rs[1] != exp:
                    # admissible alternative: a waiter was served between the two commands
                    return bad("order/pipeline", "pipelined RPUSH+LPOP on %s: LPOP returned %s, expected %s" % (k.decode(), resp.show(rs[1]), resp.show(exp)))
                delivered[exp] = who.i
                served = sim.serve()
                if not expect_deliveries(served, "pipeline-push-pop"):
                    return False
            elif act == "block-in-multi" and free:
                # a blocking pop queued in a transaction never blocks: it pops what is there or answers nil, the
                # connection goes on answering, and nothing of it stays behind in the registry
                who = rng.choice(free)
                keys = rng.sample(KEYS, rng.choice([1, 2]))
                left = rng.random() < 0.5
                op = b"BLPOP" if left else b"BRPOP"
                log.append("c%d MULTI %s %s 0 EXEC" % (who.i, op.decode(), b" ".join(keys).decode()))
                who.c.cmd("MULTI")
                who.c.cmd(op, *keys, rng.choice([b"0", b"0.2"]))
                ex = who.c.cmd("EXEC")
                ready = [k for k in keys if sim.lists[k]]
                if ready:
                    k = ready[0]
                    v = sim.lists[k].pop(0) if left else sim.lists[k].pop()
                    want = [[k, v]]
                    delivered[v] = who.i
                else:
                    want = None
                res.evaluations += 1
                res.cell("block-in-multi", "pops" if ready else "nil")
                okk = (ex == want) if ready else (isinstance(ex, list) and len(ex) == 1 and (ex[0] is None or ex[0] is NULL_ARRAY))
                if not okk:
                    return bad("in-multi/exec-reply", "c%d MULTI; %s %s 0; EXEC -> %s, expected %s" % (who.i, op.decode(), resp.show(keys), resp.show(ex),
                                                                                                 resp.show(want) if ready else "[nil]"))
                try:
                    pong = who.c.cmd("PING", timeout=3)
                except Timeout:
                    return bad("stranded/after-blocking-pop-in-multi", "c%d: after MULTI; %s %s; EXEC -> %s the connection no longer answers (PING: no reply in 3 s)" % (
                        who.i, op.decode(), resp.show(keys), resp.show(ex)))
                if pong != resp.PONG:
                    return bad("in-multi/ping-after", "c%d: PING after the transaction -> %s" % (who.i, resp.show(pong)))
                settle(3)
            elif act == "disconnect" and blocked:
                cl = rng.choice(blocked)
                log.append("c%d disconnects while blocked on %s" % (cl.i, b" ".join(cl.blocked["keys"]).decode()))
                cl.c.close()
                cl.alive = False
                sim.waiters.remove(cl)
                cl.blocked = None
                res.cell("disconnect-while-blocked")
                settle(6)
            elif act == "timeout":
                fin = [cl for cl in blocked if not cl.blocked["infinite"]]
                if not fin:
                    continue
                cl = min(fin, key=lambda x: x.blocked["deadline"])
                log.append("wait for c%d's timeout (%.2fs)" % (cl.i, cl.blocked["timeout"]))
                try:
                    got = cl.c.recv(timeout=max(0.05, cl.blocked["deadline"] - time.monotonic()) + 3.0)
                except Timeout:
                    return bad("stranded/timeout-never-fires", "c%d blocked with timeout %.2fs on %s got no reply 3 s after its deadline" % (
                        cl.i, cl.blocked["timeout"], resp.show(cl.blocked["keys"])))
                t1 = time.monotonic()
                res.evaluations += 1
                res.cell("timeout-fires")
                if got is not NULL_ARRAY and got is not None:
                    return bad("wrong-delivery/timeout", "c%d expected nil at its timeout, got %s" % (cl.i, resp.show(got)))
                if t1 < cl.blocked["t_send"] + cl.blocked["timeout"] - 0.002:
                    return bad("early-nil", "c%d got nil %.3fs after sending, timeout was %.3fs" % (cl.i, t1 - cl.blocked["t_send"], cl.blocked["timeout"]))
                sim.waiters.remove(cl)
                cl.blocked = None
            else:
                continue
            # timeouts that fired on their own
            for cl in list(sim.waiters):
                if not cl.blocked["infinite"] and time.monotonic() > cl.blocked["deadline"] + 0.05:
                    got = cl.c.try_recv(0.3)
                    if got is NULL_ARRAY or got is None:
                        sim.waiters.remove(cl)
                        cl.blocked = None
                    elif got is NOTHING:
                        settle(100)
                        got = cl.c.try_recv(1.0)
                        if got is NOTHING:
                            return bad("stranded/timeout-never-fires", "c%d's finite timeout (%.2fs) passed, no reply after 100 more loop iterations" % (cl.i, cl.blocked["timeout"]))
                        sim.waiters.remove(cl)
                        cl.blocked = None
                    else:
                        return bad("order/late", "c%d received %s" % (cl.i, resp.show(got)))
            if rng.random() < 0.5:
                if resolve_near_timeouts() is False:
                    return False
                if not check_registry(act):
                    return False
        # quiescence: conservation
        if resolve_near_timeouts() is False:
            return False
        if not check_registry("end"):
            return False
        remaining = []
        for k in KEYS:
            r = ctl.cmd("LRANGE", k, 0, -1)
            if r != sim.lists[k]:
                return bad("lost-or-extra/conservation", "list %s is %s, model %s" % (k.decode(), resp.show(r), resp.show(sim.lists[k])))
            remaining += r
        if sorted(pushed) != sorted(list(delivered) + remaining):
            lost = set(pushed) - set(delivered) - set(remaining)
            return bad("lost/conservation", "pushed %d, delivered %d, remaining %d; lost: %s" % (len(pushed), len(delivered), len(remaining), resp.show(sorted(lost)[:5])))
        res.evaluations += 1
        if hn <= 2:
            res.sample(log[:14])
        return True
    finally:
        for cl in clients:
            if cl.alive:
                cl.c.close()
        for k in KEYS:
            try:
                ctl.cmd("DEL", k)
            except Exception:
                pass
        try:
            server.wait_loops(ctl, 5)
        except Exception:
            pass


STALLS = [
    ("sleep", lambda ms: [b"SLEEP", b"%d" % ms]),
    # a script that keeps the command thread busy for about that long (no SLEEP command needed)
    ("busy-script", lambda ms: [b"EVAL", b"local t = redis.call('TIME') local s = t[1] * 1000000 + t[2] repeat t = redis.call('TIME') "
                                b"until t[1] * 1000000 + t[2] - s > tonumber(ARGV[1]) * 1000 return 1", b"0", b"%d" % ms]),
]


def stalled_pass(srv, res, rng):
    """Disconnects that fall into the SAME event-loop pass as the push that would serve the
    waiter: the pusher sends [stall ~150 ms, PUSH] in one write; while the command thread is
    stalled, blocked clients close their sockets. When the loop resumes, the FIN and the push
    are both already there - whatever order the loop looks at them in, a pushed element must
    end up in the list or with a client that is still connected."""
    ctl = srv.client(timeout=20)
    for stall_name, stall in STALLS:
        for pop in (b"BLPOP", b"BRPOP"):
            for shape in ("only-waiter-dies", "first-dies-second-lives", "second-dies-first-lives", "both-die", "dies-multi-key"):
                for order in ("waiters-first", "pusher-first"):
                    key = b"sp:%d" % rng.randrange(10 ** 6)
                    key2 = key + b":2"
                    ctl.cmd("DEL", key, key2)
                    pusher = srv.client(timeout=20) if order == "pusher-first" else None
                    nw = 1 if shape in ("only-waiter-dies", "dies-multi-key") else 2
                    ws = [srv.client(timeout=20) for _ in range(nw)]
                    if pusher is None:
                        pusher = srv.client(timeout=20)
                    for w in ws:
                        w.send(pop, *([key2, key] if shape == "dies-multi-key" else [key]), b"0")
                        server.wait_loops(ctl, 3)
                    dying = {"only-waiter-dies": [0], "first-dies-second-lives": [0], "second-dies-first-lives": [1], "both-die": [0, 1],
                             "dies-multi-key": [0]}[shape]
                    elems = [b"e1-%d" % rng.randrange(10 ** 9), b"e2-%d" % rng.randrange(10 ** 9)]
                    pusher.send_raw(resp.encode(stall(150)) + resp.encode([b"RPUSH", key, elems[0]]) + resp.encode([b"RPUSH", key, elems[1]]))
                    time.sleep(0.04)             # the command thread is inside the stall now
                    for i in dying:
                        ws[i].close()
                    try:
                        pusher.recv(timeout=20)
                        pusher.recv(timeout=20)
                        pusher.recv(timeout=20)
                    except (Closed, Timeout):
                        pass
                    server.wait_loops(ctl, 5)
                    delivered = []
                    for i, w in enumerate(ws):
                        if i in dying:
                            continue
                        r = w.try_recv(1.0)
                        if isinstance(r, list) and len(r) == 2:
                            delivered.append(r[1])
                    remaining = ctl.cmd("LRANGE", key, 0, -1)
                    res.evaluations += 1
                    res.cell("stalled-pass", stall_name, pop.decode(), shape, order)
                    live = nw - len(dying)
                    if sorted(delivered + remaining) != sorted(elems):
                        lost = [e for e in elems if e not in delivered + remaining]
                        res.violation("lost/stalled-pass/%s" % shape if lost else "duplicated/stalled-pass/%s" % shape,
                                      "%s (%s, %s): pusher sent [%s, RPUSH %s, RPUSH %s] in one write, blocked client(s) %s closed during the stall; "
                                      "delivered to live clients %s, left in the list %s: %s" % (
                                          shape, pop.decode(), order, stall_name, resp.show(elems[0]), resp.show(elems[1]), dying, resp.show(delivered),
                                          resp.show(remaining), ("LOST " + resp.show(lost)) if lost else "duplicate"))
                    elif live and len(delivered) != live:
                        res.violation("not-served/stalled-pass/%s" % shape, "%s (%s, %s): a live blocked client was not served although %s remained in the list" % (
                            shape, pop.decode(), order, resp.show(remaining)))
                    for w in ws:
                        w.close()
                    pusher.close()
                    server.wait_loops(ctl, 3)
    # a blocking pop that reaches the server while a pass is stalled: its timeout runs from when the server
    # takes it up (at the earliest from when the client sent it), never from the start of that pass
    for stall_name, stall in STALLS:
        for pop in (b"BLPOP", b"BRPOP"):
            for order in ("staller-first", "waiter-first"):
                st = srv.client(timeout=20) if order == "staller-first" else None
                w = srv.client(timeout=20)
                if st is None:
                    st = srv.client(timeout=20)
                key = b"sp:t:%d" % rng.randrange(10 ** 6)
                st.send(*stall(300))
                time.sleep(0.12)
                t_send = time.monotonic()
                w.send(pop, key, b"0.4")
                try:
                    r = w.recv(timeout=10)
                    t_nil = time.monotonic()
                    st.recv(timeout=10)
                except (Closed, Timeout):
                    r, t_nil = "no reply", None
                res.evaluations += 1
                res.cell("stalled-pass", "timeout-from-stalled-pass", stall_name, pop.decode(), order)
                if r is not resp.NULL_ARRAY:
                    res.violation("timeout/stalled-pass/wrong-reply", "%s %s 0.4 sent while the command thread was stalled (%s) -> %s" % (pop.decode(), resp.show(key), stall_name, resp.show(r)))
                elif t_nil - t_send < 0.4 - 0.005:
                    res.violation("early-nil/stalled-pass", "%s %s 0.4 sent 120 ms into a 300 ms stall (%s, %s): nil arrived %.0f ms after the client sent the command, "
                                  "before the 400 ms it asked to wait" % (pop.decode(), resp.show(key), stall_name, order, (t_nil - t_send) * 1000))
                w.close()
                st.close()
                server.wait_loops(ctl, 3)
    reg = ctl.cmd("VERIF", "BLOCKED")
    if isinstance(reg, list) and reg and reg[0]:
        res.violation("residue/stalled-pass", "registrations left after all clients of the stalled-pass scenarios are gone: %s" % resp.show(reg[0]))
    ctl.close()


def stepwise_worker(wseed, binary, budget_s):
    rng = util.rng_for(wseed, "C13A")
    res = Result()
    srv = server.Server(binary).start()
    try:
        ctl = srv.client(timeout=20)
        if wseed % 1000 == 0:
            try:
                stalled_pass(srv, res, rng)
            except (Closed, Timeout) as e:
                if not srv.alive():
                    res.violation("server-died/stalled-pass", "exit %s\n%s" % (srv.exit_status(), srv.stderr_tail(1200)))
                    srv.restart()
                else:
                    res.inconclusive.append("stalled-pass scenarios: %r" % (e,))
                ctl = srv.client(timeout=20)
        t_end = time.time() + budget_s
        n = 0
        while time.time() < t_end:
            n += 1
            try:
                history(srv, rng, res, ctl, n)
            except Ambiguous:
                res.count("histories_abandoned_timeout_raced_an_action")
                ctl = srv.client(timeout=20)
            except (Closed, Timeout) as e:
                if not srv.alive():
                    res.violation("server-died", "exit %s\n%s" % (srv.exit_status(), srv.stderr_tail(1200)))
                    srv.restart()
                else:
                    res.inconclusive.append("history %d: %r" % (n, e))
                ctl = srv.client(timeout=20)
        res.count("stepwise_histories", n)
    finally:
        srv.cleanup()
    return res


def stress_worker(wseed, binary, budget_s):
    """8-12 clients hammering the action set; schedule-independent oracles only."""
    res = Result()
    srv = server.Server(binary).start()
    stop = threading.Event()
    lock = threading.Lock()
    pushed, delivered, problems = [], {}, []

    def note(sig, detail):
        with lock:
            problems.append((sig, detail))

    def got_elem(e, tid):
        with lock:
            if e in delivered:
                problems.append(("duplicated/stress", "element %s delivered to t%d and t%d" % (e.decode(), delivered[e], tid)))
            delivered[e] = tid

    def pusher(tid):
        c = srv.client(timeout=20)
        r = util.rng_for(wseed, "p", tid)
        n = 0
        try:
            while not stop.is_set():
                k = r.choice(KEYS)
                elems = []
                for _ in range(r.choice([1, 1, 2, 3])):
                    n += 1
                    elems.append(b"s%d.%d" % (tid, n))
                with lock:
                    pushed.extend(elems)
                mode = r.random()
                if mode < 0.6:
                    c.cmd(r.choice([b"LPUSH", b"RPUSH"]), k, *elems)
                elif mode < 0.8:
                    c.pipeline([[b"MULTI"], [b"RPUSH", k] + elems, [b"EXEC"]])
                else:
                    rs = c.pipeline([[b"RPUSH", k] + elems, [b"LPOP", k]])
                    if rs[1] is not None:
                        got_elem(rs[1], tid)
                time.sleep(r.random() * 0.003)
        except (Closed, Timeout) as e:
            note("connection/pusher", repr(e))

    def popper(tid):
        r = util.rng_for(wseed, "b", tid)
        c = srv.client(timeout=20)
        try:
            while not stop.is_set():
                if r.random() < 0.1:
                    c.close()                     # disconnect (possibly right after blocking)
                    c = srv.client(timeout=20)
                keys = r.sample(KEYS, r.choice([1, 2, 3]))
                timeout = r.choice([0.05, 0.1, 0.2])
                op = r.choice([b"BLPOP", b"BRPOP"])
                t0 = time.monotonic()
                got = c.cmd(op, *keys, b"%g" % timeout, timeout=15)
                t1 = time.monotonic()
                if got is NULL_ARRAY or got is None:
                    if t1 - t0 < timeout - 0.002:
                        note("early-nil/stress", "nil after %.3fs with timeout %.3fs" % (t1 - t0, timeout))
                elif isinstance(got, list) and len(got) == 2 and got[0] in keys:
                    got_elem(got[1], tid)
                else:
                    note("wrong-delivery/stress", "%s on %s -> %s" % (op.decode(), resp.show(keys), resp.show(got)))
        except Timeout:
            note("stranded/stress", "a blocking pop with a finite timeout got no reply within 15 s")
        except Closed as e:
            note("connection/popper", repr(e))

    threads = [threading.Thread(target=pusher, args=(i,)) for i in range(3)] + [threading.Thread(target=popper, args=(10 + i,)) for i in range(7)]
    try:
        for t in threads:
            t.daemon = True
            t.start()
        time.sleep(budget_s)
        stop.set()
        for t in threads:
            t.join(timeout=30)
        ctl = srv.client(timeout=20)
        server.wait_loops(ctl, 50)
        time.sleep(0.3)
        remaining = []
        for k in KEYS:
            remaining += ctl.cmd("LRANGE", k, 0, -1)
        # abandoned blocking calls whose connection was closed must not have consumed anything
        lost = set(pushed) - set(delivered) - set(remaining)
        dup = [e for e in remaining if e in delivered]
        res.evaluations += len(pushed)
        res.count("stress_pushed", len(pushed))
        res.count("stress_delivered", len(delivered))
        res.cell("stress", "pushed>1000" if len(pushed) > 1000 else "pushed<=1000")
        res.cell("stress", "conservation")
        if lost:
            res.violation("lost/stress", "%d of %d pushed elements are neither in a list nor were delivered to anyone, e.g. %s" % (len(lost), len(pushed), resp.show(sorted(lost)[:5])))
        if dup:
            res.violation("duplicated/stress", "elements both delivered and still in a list: %s" % resp.show(dup[:5]))
        reg = ctl.cmd("VERIF", "BLOCKED")
        if reg[0] and any(ids for _, _, ids in reg[0]):
            res.violation("residue/stress", "registry not empty after every client finished: %s" % resp.show(reg[0]))
        seen = set()
        for sig, detail in problems:
            if sig not in seen:
                res.violation(sig, detail)
            seen.add(sig)
        if not srv.alive():
            res.violation("server-died/stress", srv.stderr_tail(1200))
        res.sample("3 pushers (plain / MULTI / pipelined push+pop) + 7 blocking poppers with disconnects: %d pushed, %d delivered, %d remaining" % (len(pushed), len(delivered), len(remaining)))
    finally:
        stop.set()
        srv.cleanup()
    return res


def _w(arg, binary, budget_s):
    wseed, role = arg
    return stepwise_worker(wseed, binary, budget_s) if role == "step" else stress_worker(wseed, binary, budget_s)


def run(tier):
    t0 = time.time()
    seed = util.seed_from_env()
    binary, bt = server.build("dev")
    n = util.jobs()
    budget = 20 if tier == "quick" else 240
    args = [(seed * 1000 + i, "step") for i in range(max(1, n - 3))] + [(seed * 1000 + 500 + i, "stress") for i in range(min(3, n))]
    res = util.run_workers(_w, args, dict(binary=binary, budget_s=budget), nproc=n)
    return util.finish("C13", tier, seed, "exploration", res,
                       "A: stepwise histories of 3-6 clients x 3 keys x 8-40 actions from {BLPOP/BRPOP on 1-3 keys with timeout 0 or "
                       "150-400 ms, LPUSH/RPUSH of 1-3 unique elements, plain / inside MULTI-EXEC / from a script, LPOP/RPOP, pipelined "
                       "push+pop, disconnect of a blocked client, waiting for a timeout}; after each action the harness waits for event-"
                       "loop iterations (not time), drains sockets and compares with a FIFO model (who must hold which reply, who must "
                       "still wait), and compares VERIF BLOCKED (registry + connection states) with the model; conservation at the end; "
                       "B: 20 s free-running stress (3 pushers, 7 blocking poppers, random disconnects and abandoned calls): "
                       "multiset(pushed) = delivered + remaining, nothing delivered twice, no nil before the timeout, empty registry at "
                       "the end; C: disconnects that land in the same event-loop pass as the serving push (pusher sends [stall 150 ms, "
                       "RPUSH, RPUSH] in one write, blocked clients close during the stall; stall by SLEEP or by a busy script; 1-2 "
                       "waiters, single / multi key, both connection orders): conservation and service of the live waiter; "
                       "cell = (action, shape)", t0,
                       assumptions=["reference serving rule: earliest-blocked waiter of a key with data, after each command completes",
                                    "VERIF BLOCKED is read at quiescent points only (no wake-ups queued)"], min_cells=15)

"""C14 — Pub/Sub delivers each message exactly once per matching subscription.

Stepwise histories of 2-6 clients; model = per-client channel and pattern sets.
Every command is followed by a `PING <token>` fence on the issuing connection
and, after each PUBLISH, on every live subscriber: pushes are appended to a
subscriber's output buffer synchronously at publish time, so everything it will
ever get for that publish precedes the fence reply (no sleeps)."""
import time

from .. import server, util, resp
from ..model import glob_match
from ..resp import Err, Status, Closed, Timeout
from ..util import Result

CHANNELS = [b"news.a", b"news.b", b"news.*", b"x", b"", b"news.", b"bin\x00\r\nch", b"NEWS.a", b"news.ab",
            # channels named by (or like) the escape-only patterns below, with and without the backslash
            b"news\\.a", b"n\\ews.a", b"a\\b", b"*"]
PATTERNS = [b"*", b"news.*", b"n?ws.*", b"news.[ab]", b"news.a", b"*.a", b"\\*", b"news.\\*", b"[n]ews*", b"news.[^a]",
            b"news.[a-c]*", b"?", b"x*", b"bin*",
            # escapes without any wildcard (a literal after unescaping), escapes in front of a trailing star,
            # an escaped backslash, the pattern equal to a channel name, the empty pattern
            b"news\\.a", b"n\\ews.a", b"a\\\\b", b"news\\.*", b"\\n\\e\\w\\s.b", b"x", b""]
PAYLOADS = [b"hello", b"", b"\x00\xff", b"line\r\nbreak", b"+OK\r\n", b"*3\r\n$7\r\nmessage\r\n", b"p" * 70000]


class Cl:
    def __init__(self, srv, ident):
        self.c = srv.client(timeout=8.0)
        self.ident = ident
        self.chans = []      # ordered, unique
        self.pats = []
        self.fence_n = 0

    def fenced(self, argv):
        """Send argv (or nothing) and a PING fence; return every frame received
        before the fence reply."""
        self.fence_n += 1
        tok = b"fence-%d-%d" % (self.ident, self.fence_n)
        data = b""
        if argv is not None:
            data += resp.encode(argv)
        data += resp.encode([b"PING", tok])
        self.c.send_raw(data)
        out = []
        while True:
            f = self.c.recv()
            if f == tok or (isinstance(f, list) and len(f) == 2 and f[0] in (b"pong", b"PONG") and f[1] == tok):
                return out
            out.append(f)
            if len(out) > 10000:
                raise RuntimeError("no fence reply among 10000 frames")


def sig_shape(cl):
    return "%dch+%dpat" % (min(len(cl.chans), 2), min(len(cl.pats), 2))


def history(srv, rng, res, hist_no):
    clients = [Cl(srv, i) for i in range(rng.randrange(2, 6))]
    pub = Cl(srv, 99)
    log = []
    nact = rng.randrange(10, 40)
    uniq = 0

    def bad(sig, detail):
        res.violation(sig, detail + "\nhistory: " + "; ".join(log[-25:]), {"history": log})
        return False

    try:
        for step in range(nact):
            live = [c for c in clients if c is not None]
            if not live:
                clients.append(Cl(srv, len(clients)))
                continue
            act = rng.choice(["sub", "sub", "psub", "psub", "unsub", "punsub", "pub", "pub", "pub", "pub", "disc", "in-multi"])
            cl = rng.choice(live)
            if act == "in-multi":
                # (un)subscribing between MULTI and EXEC: whether the server acts at once or at EXEC, and what it answers, is
                # not judged - afterwards the subscription table is what the commands say, for THIS connection and nobody else
                kind = rng.choice([b"SUBSCRIBE", b"PSUBSCRIBE", b"UNSUBSCRIBE", b"PUNSUBSCRIBE"])
                lst = cl.chans if kind in (b"SUBSCRIBE", b"UNSUBSCRIBE") else cl.pats
                pool = CHANNELS if kind in (b"SUBSCRIBE", b"UNSUBSCRIBE") else PATTERNS
                if kind in (b"UNSUBSCRIBE", b"PUNSUBSCRIBE") and not lst:
                    continue
                nm = rng.choice(lst) if kind in (b"UNSUBSCRIBE", b"PUNSUBSCRIBE") else rng.choice(pool)
                log.append("c%d MULTI; %s %s; EXEC" % (cl.ident, kind.decode(), resp.show(nm)))
                cl.c.send_raw(resp.encode([b"MULTI"]) + resp.encode([kind, nm]) + resp.encode([b"EXEC"]))
                cl.fenced(None)
                if kind in (b"SUBSCRIBE", b"PSUBSCRIBE"):
                    if nm not in lst:
                        lst.append(nm)
                elif nm in lst:
                    lst.remove(nm)
                res.evaluations += 1
                res.cell("in-multi", kind.decode().lower())
                continue
            if act in ("sub", "psub"):
                pool = CHANNELS if act == "sub" else PATTERNS
                names = [rng.choice(pool) for _ in range(rng.randrange(1, 4))]
                argv = [b"SUBSCRIBE" if act == "sub" else b"PSUBSCRIBE"] + names
                log.append("c%d %s" % (cl.ident, resp.show(argv)))
                got = cl.fenced(argv)
                exp = []
                lst = cl.chans if act == "sub" else cl.pats
                for n in names:
                    if n not in lst:
                        lst.append(n)
                    exp.append([b"subscribe" if act == "sub" else b"psubscribe", n, len(cl.chans) + len(cl.pats)])
                res.evaluations += 1
                res.cell(act, "dups" if len(set(names)) < len(names) else "nodups", sig_shape(cl))
                if got != exp:
                    return bad("ack/%s" % act, "c%d %s: acknowledgements %s, expected %s" % (
                        cl.ident, resp.show(argv), resp.show(got), resp.show(exp)))
            elif act in ("unsub", "punsub"):
                lst = cl.chans if act == "unsub" else cl.pats
                pool = CHANNELS if act == "unsub" else PATTERNS
                kind = b"unsubscribe" if act == "unsub" else b"punsubscribe"
                mode = rng.choice(["named", "named", "all", "unknown"])
                if mode == "all":
                    names = []
                elif mode == "unknown":
                    names = [b"never-subscribed"]
                else:
                    names = [rng.choice(lst) if lst and rng.random() < 0.8 else rng.choice(pool)
                             for _ in range(rng.randrange(1, 3))]
                argv = [kind.upper()] + names
                log.append("c%d %s" % (cl.ident, resp.show(argv)))
                got = cl.fenced(argv)
                res.evaluations += 1
                res.cell(act, mode, "had%d" % min(len(lst), 2))
                if names:
                    exp = []
                    for n in names:
                        if n in lst:
                            lst.remove(n)
                        exp.append([kind, n, len(cl.chans) + len(cl.pats)])
                    if got != exp:
                        return bad("ack/%s/%s" % (act, mode), "c%d %s: acknowledgements %s, expected %s" % (
                            cl.ident, resp.show(argv), resp.show(got), resp.show(exp)))
                else:
                    if lst:
                        # one ack per current subscription of that kind, any order, counts descending
                        other = len(cl.pats) if act == "unsub" else len(cl.chans)
                        names_got = [g[1] for g in got if isinstance(g, list) and len(g) == 3 and g[0] == kind]
                        counts = [g[2] for g in got if isinstance(g, list) and len(g) == 3]
                        okk = len(got) == len(lst) and sorted(names_got) == sorted(lst) and \
                            counts == [other + len(lst) - 1 - i for i in range(len(lst))]
                        if not okk:
                            return bad("ack/%s/all" % act, "c%d %s with %s subscribed (+%d of the other kind): got %s" % (
                                cl.ident, resp.show(argv), resp.show(lst), other, resp.show(got)))
                        del lst[:]
                    else:
                        total = len(cl.chans) + len(cl.pats)
                        if got != [[kind, None, total]]:
                            return bad("ack/%s/all-none" % act,
                                       "c%d %s with nothing of that kind subscribed: got %s, expected one ack with a nil name and count %d" % (
                                           cl.ident, resp.show(argv), resp.show(got), total))
            elif act == "disc":
                log.append("c%d disconnects" % cl.ident)
                cl.c.close()
                clients[clients.index(cl)] = None
                res.cell("disconnect", sig_shape(cl))
                # make sure the server noticed before the next publish: a fresh connection round trip
                # is not enough, so wait for event-loop progress
                server.wait_loops(pub.c, 4)
                if rng.random() < 0.5:
                    clients.append(Cl(srv, len(clients)))
            else:
                ch = rng.choice(CHANNELS)
                uniq += 1
                payload = rng.choice(PAYLOADS) + b"#%d.%d" % (hist_no, uniq)
                sender = pub if rng.random() < 0.7 else cl
                log.append("c%d PUBLISH %s %s" % (sender.ident, resp.show(ch), resp.show(payload, 30)))
                pre = sender.fenced([b"PUBLISH", ch, payload])
                # replies to the sender: its own deliveries (if subscribed) and the integer
                expect = {}
                total = 0
                for c2 in [c for c in clients if c is not None]:
                    e = []
                    if ch in c2.chans:
                        e.append([b"message", ch, payload])
                    for p in c2.pats:
                        if glob_match(p, ch):
                            e.append([b"pmessage", p, ch, payload])
                    expect[c2.ident] = e
                    total += len(e)
                ints = [f for f in pre if isinstance(f, int) and not isinstance(f, bool)]
                pushes_sender = [f for f in pre if not (isinstance(f, int) and not isinstance(f, bool))]
                res.evaluations += 1
                shape = "ch%d/pat%d" % (min(2, sum(1 for c in clients if c and ch in c.chans)),
                                        min(3, sum(1 for c in clients if c for p in c.pats if glob_match(p, ch))))
                res.cell("publish", shape, "overlap" if any(len(e) > 1 for e in expect.values()) else "single")
                for c2 in [c for c in clients if c is not None]:
                    got = pushes_sender if c2 is sender else c2.fenced(None)
                    e = expect[c2.ident]
                    if sorted(map(repr, got)) != sorted(map(repr, e)) or (len(e) and got and got[0][0] == b"pmessage" and e[0][0] == b"message" and False):
                        kind = "missing" if len(got) < len(e) else "duplicate-or-extra" if len(got) > len(e) else "bytes"
                        subs = "%dch+%dpat-matching" % (1 if ch in c2.chans else 0, sum(1 for p in c2.pats if glob_match(p, ch)))
                        return bad("%s/%s" % (kind, subs),
                                   "PUBLISH %s: client c%d (channels %s, patterns %s) received %s, expected %s" % (
                                       resp.show(ch), c2.ident, resp.show(c2.chans), resp.show(c2.pats),
                                       resp.show(got, 40), resp.show(e, 40)))
                if ints != [total]:
                    return bad("count/publish", "PUBLISH %s replied %s, deliveries expected %d" % (resp.show(ch), resp.show(ints), total))
        # end: nothing unexpected is pending on any connection
        for c2 in [c for c in clients if c is not None] + [pub]:
            left = c2.fenced(None)
            if left:
                return bad("extra/at-end", "client c%d has unexpected frames at the end: %s" % (c2.ident, resp.show(left, 40)))
        if hist_no < 2:
            res.sample(log[:14])
        return True
    finally:
        for c in clients:
            if c is not None:
                c.c.close()
        # let the server notice the disconnects before the next history starts
        try:
            server.wait_loops(pub.c, 4)
        except Exception:
            pass
        pub.c.close()


def slow_subscriber(srv, res):
    """A subscriber that is owed more than the socket buffers hold and reads late: the server writes in pieces
    (partial writes, retries). Every message arrives once, whole, in publish order - for it and for a
    subscriber that reads promptly."""
    import socket as _socket
    raw = _socket.socket()
    raw.setsockopt(_socket.SOL_SOCKET, _socket.SO_RCVBUF, 32768)
    raw.connect(("127.0.0.1", srv.port))
    raw.sendall(resp.encode([b"SUBSCRIBE", b"slow:ch"]))
    time.sleep(0.05)
    fast = srv.client(timeout=30)
    fast.cmd("SUBSCRIBE", "slow:ch")
    pub = srv.client(timeout=30)
    nmsg, size = 30, 200 * 1024
    msgs = [(b"%06d|" % i) * (size // 7) for i in range(nmsg)]
    counts = []
    for m in msgs:
        counts.append(pub.cmd("PUBLISH", "slow:ch", m))
    res.evaluations += nmsg
    res.cell("slow-subscriber", "publish-counts")
    if counts != [2] * nmsg:
        res.violation("count/slow-subscriber", "PUBLISH to a channel with a slow and a prompt subscriber returned %s, expected 2 every time" % counts[:12])
    got_fast = []
    try:
        for _ in range(nmsg):
            got_fast.append(fast.recv(timeout=20))
    except (Closed, Timeout, resp.ProtocolError) as e:
        got_fast.append(type(e).__name__)
    # now the slow one reads everything it is owed
    raw.settimeout(20)
    buf = bytearray()
    got_slow = []
    pos = 0
    problem = None
    try:
        while len(got_slow) < nmsg + 1:
            try:
                v, pos2 = resp.parse(buf, pos)
                got_slow.append(v)
                pos = pos2
                continue
            except resp.Incomplete:
                pass
            d = raw.recv(1 << 20)
            if not d:
                problem = "connection closed after %d frames" % len(got_slow)
                break
            buf += d
    except resp.ProtocolError as e:
        problem = "stream broken after %d intact frames: %s" % (len(got_slow), e)
    except (OSError, _socket.timeout) as e:
        problem = "no more data after %d frames (%s)" % (len(got_slow), type(e).__name__)
    raw.close()
    fast.close()
    pub.close()
    want = [[b"message", b"slow:ch", m] for m in msgs]
    res.evaluations += 2 * nmsg
    res.cell("slow-subscriber", "delivery")
    if got_fast != want:
        i = next((j for j, (a, b) in enumerate(zip(got_fast, want)) if a != b), min(len(got_fast), len(want)))
        res.violation("slow-subscriber/prompt-reader", "the prompt subscriber's message #%d differs (%d of %d received): %s" % (i, len(got_fast), nmsg, resp.show(got_fast[i:i + 1], 40)))
    if problem or got_slow[1:] != want:
        i = next((j for j, (a, b) in enumerate(zip(got_slow[1:], want)) if a != b), min(len(got_slow) - 1, len(want)))
        res.violation("slow-subscriber/late-reader", "a subscriber with a 32 KB receive buffer that started reading after %d x %d KB had been published: %s; first difference at "
                      "message #%d: %s" % (nmsg, size // 1024, problem or "all frames parsed", i, resp.show(got_slow[1 + i:2 + i], 40)))


def worker(wseed, binary, budget_s):
    rng = util.rng_for(wseed, "C14")
    res = Result()
    srv = server.Server(binary).start()
    try:
        if wseed % 1000 == 0:
            try:
                slow_subscriber(srv, res)
            except (Closed, Timeout, OSError) as e:
                if not srv.settle():
                    res.violation("server-died/slow-subscriber", "server exited %s\n%s" % (srv.exit_status(), srv.stderr_tail()))
                    srv.restart()
                else:
                    res.inconclusive.append("slow-subscriber scenario: %r" % (e,))
        t_end = time.time() + budget_s
        n = 0
        while time.time() < t_end:
            n += 1
            try:
                history(srv, rng, res, n)
            except (Closed, Timeout) as e:
                if not srv.alive():
                    res.violation("server-died", "server exited %s during a pub/sub history\n%s" % (srv.exit_status(), srv.stderr_tail()))
                    srv.restart()
                else:
                    res.violation("silent/" + type(e).__name__.lower(), "connection %s during a pub/sub history (no fence reply)" % type(e).__name__)
        res.count("histories", n)
    finally:
        srv.cleanup()
    return res


def run(tier):
    t0 = time.time()
    seed = util.seed_from_env()
    binary, bt = server.build("dev")
    n = util.jobs()
    res = util.run_workers(worker, [seed * 1000 + i for i in range(n)],
                           dict(binary=binary, budget_s=15 if tier == "quick" else 180))
    return util.finish("C14", tier, seed, "exploration", res,
                       "stepwise histories of 2-6 clients x 10-40 actions from {SUBSCRIBE/PSUBSCRIBE of 1-3 names with "
                       "duplicates, UNSUBSCRIBE/PUNSUBSCRIBE named/unknown/all, disconnect, PUBLISH of unique payloads "
                       "(binary, CRLF, empty, 70 KB) on channels chosen to overlap the glob patterns}; PING-token fence "
                       "after every command and on every subscriber after each PUBLISH; oracle: received pushes per "
                       "client = one message per matching channel subscription + one pmessage per matching pattern, "
                       "PUBLISH integer = deliveries, every ack carries the model's remaining count; "
                       "cell = (action, subscription shape)", t0,
                       assumptions=["own byte-wise glob matcher (Redis stringmatchlen) decides pattern matches",
                                    "pushes are buffered synchronously at publish time (fence validity)"], min_cells=15)

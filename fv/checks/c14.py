"""C14 — Pub/Sub delivers each message exactly once per matching subscription.

Stepwise histories of 2-6 clients; model = per-client channel and pattern sets.
Every command is followed by a `PING <token>` fence on the issuing connection
and, after each PUBLISH, on every live subscriber: pushes are appended to a
subscriber's output buffer synchronously at publish time, so everything it will
ever get for that publish precedes the fence reply (no sleeps)."""
import time

from .. import server, util, resp
from ..model import glob_match
from ..resp import Err, Status, Closed, Timeout
from ..util import Result

CHANNELS = [b"news.a", b"news.b", b"news.*", b"x", b"", b"news.", b"bin\x00\r\nch", b"NEWS.a", b"news.ab",
            # channels named by (or like) the escape-only patterns below, with and without the backslash
            b"news\\.a", b"n\\ews.a", b"a\\b", b"*"]
PATTERNS = [b"*", b"news.*", b"n?ws.*", b"news.[ab]", b"news.a", b"*.a", b"\\*", b"news.\\*", b"[n]ews*", b"news.[^a]",
            b"news.[a-c]*", b"?", b"x*", b"bin*",
            # escapes without any wildcard (a literal after unescaping), escapes in front of a trailing star,
            # an escaped backslash, the pattern equal to a channel name, the empty pattern
            b"news\\.a", b"n\\ews.a", b"a\\\\b", b"news\\.*", b"\\n\\e\\w\\s.b", b"x", b""]
PAYLOADS = [b"hello", b"", b"\x00\xff", b"line\r\nbreak", b"+OK\r\n", b"*3\r\n$7\r\nmessage\r\n", b"p" * 70000]


class Cl:
    def __init__(self, srv, ident):
        self.c = srv.client(timeout=8.0)
        self.ident = ident
        self.chans = []      # ordered, unique
        self.pats = []
        self.fence_n = 0

    def fenced(self, argv):
        """Send argv (or nothing) and a PING fence; return every frame received
        before the fence reply."""
        self.fence_n += 1
        tok = b"fence-%d-%d" % (self.ident, self.fence_n)
        data = b""
        if argv is not None:
            data += resp.encode(argv)
        data += resp.encode([b"PING", tok])
        self.c.send_raw(data)
        out = []
        while True:
            f = self.c.recv()
            if f == tok or (isinstance(f, list) and len(f) == 2 and f[0] in (b"pong", b"PONG") and f[1] == tok):
                return out
            out.append(f)
            if len(out) > 10000:
                raise RuntimeError("no fence reply among 10000 frames")


def sig_shape(cl):
    return "%dch+%dpat" % (min(len(cl.chans), 2), min(len(cl.pats), 2))


def history(srv, rng, res, hist_no):
    clients = [Cl(srv, i) for i in range(rng.randrange(2, 6))]
    pub = Cl(srv, 99)
    log = []
    nact = rng.randrange(10, 40)
    uniq = 0

    def bad(sig, detail):
        res.violation(sig, detail + "\nhistory: " + "; ".join(log[-25:]), {"history": log})
        return False

    try:
        for step in range(nact):
            live = [c for c in clients if c is not None]
            if not live:
                clients.append(Cl(srv, len(clients)))
                continue
            act = rng.choice(["sub", "sub", "psub", "psub", "unsub", "punsub", "pub", "pub", "pub", "pub", "disc"])
            cl = rng.choice(live)
            if act in ("sub", "psub"):
                pool = CHANNELS if act == "sub" else PATTERNS
                names = [rng.choice(pool) for _ in range(rng.randrange(1, 4))]
                argv = [b"SUBSCRIBE" if act == "sub" else b"PSUBSCRIBE"] + names
                log.append("c%d %s" % (cl.ident, resp.show(argv)))
                got = cl.fenced(argv)
                exp = []
                lst = cl.chans if act == "sub" else cl.pats
                for n in names:
                    if n not in lst:
                        lst.append(n)
                    exp.append([b"subscribe" if act == "sub" else b"psubscribe", n, len(cl.chans) + len(cl.pats)])
                res.evaluations += 1
                res.cell(act, "dups" if len(set(names)) < len(names) else "nodups", sig_shape(cl))
                if got != exp:
                    return bad("ack/%s" % act, "c%d %s: acknowledgements %s, expected %s" % (
                        cl.ident, resp.show(argv), resp.show(got), resp.show(exp)))
            elif act in ("unsub", "punsub"):
                lst = cl.chans if act == "unsub" else cl.pats
                pool = CHANNELS if act == "unsub" else PATTERNS
                kind = b"unsubscribe" if act == "unsub" else b"punsubscribe"
                mode = rng.choice(["named", "named", "all", "unknown"])
                if mode == "all":
                    names = []
                elif mode == "unknown":
                    names = [b"never-subscribed"]
                else:
                    names = [rng.choice(lst) if lst and rng.random() < 0.8 else rng.choice(pool)
                             for _ in range(rng.randrange(1, 3))]
                argv = [kind.upper()] + names
                log.append("c%d %s" % (cl.ident, resp.show(argv)))
                got = cl.fenced(argv)
                res.evaluations += 1
                res.cell(act, mode, "had%d" % min(len(lst), 2))
                if names:
                    exp = []
                    for n in names:
                        if n in lst:
                            lst.remove(n)
                        exp.append([kind, n, len(cl.chans) + len(cl.pats)])
                    if got != exp:
                        return bad("ack/%s/%s" % (act, mode), "c%d %s: acknowledgements %s, expected %s" % (
                            cl.ident, resp.show(argv), resp.show(got), resp.show(exp)))
                else:
                    if lst:
                        # one ack per current subscription of that kind, any order, counts descending
                        other = len(cl.pats) if act == "unsub" else len(cl.chans)
                        names_got = [g[1] for g in got if isinstance(g, list) and len(g) == 3 and g[0] == kind]
                        counts = [g[2] for g in got if isinstance(g, list) and len(g) == 3]
                        okk = len(got) == len(lst) and sorted(names_got) == sorted(lst) and \
                            counts == [other + len(lst) - 1 - i for i in range(len(lst))]
                        if not okk:
                            return bad("ack/%s/all" % act, "c%d %s with %s subscribed (+%d of the other kind): got %s" % (
                                cl.ident, resp.show(argv), resp.show(lst), other, resp.show(got)))
                        del lst[:]
                    else:
                        total = len(cl.chans) + len(cl.pats)
                        if got != [[kind, None, total]]:
                            return bad("ack/%s/all-none" % act,
                                       "c%d %s with nothing of that kind subscribed: got %s, expected one ack with a nil name and count %d" % (
                                           cl.ident, resp.show(argv), resp.show(got), total))
            elif act == "disc":
                log.append("c%d disconnects" % cl.ident)
                cl.c.close()
                clients[clients.index(cl)] = None
                res.cell("disconnect", sig_shape(cl))
                # make sure the server noticed before the next publish: a fresh connection round trip
                # is not enough, so wait for event-loop progress
                server.wait_loops(pub.c, 4)
                if rng.random() < 0.5:
                    clients.append(Cl(srv, len(clients)))
            else:
                ch = rng.choice(CHANNELS)
                uniq += 1
                payload = rng.choice(PAYLOADS) + b"#%d.%d" % (hist_no, uniq)
                sender = pub if rng.random() < 0.7 else cl
                log.append("c%d PUBLISH %s %s" % (sender.ident, resp.show(ch), resp.show(payload, 30)))
                pre = sender.fenced([b"PUBLISH", ch, payload])
                # replies to the sender: its own deliveries (if subscribed) and the integer
                expect = {}
                total = 0
                for c2 in [c for c in clients if c is not None]:
                    e = []
                    if ch in c2.chans:
                        e.append([b"message", ch, payload])
                    for p in c2.pats:
                        if glob_match(p, ch):
                            e.append([b"pmessage", p, ch, payload])
                    expect[c2.ident] = e
                    total += len(e)
                ints = [f for f in pre if isinstance(f, int) and not isinstance(f, bool)]
                pushes_sender = [f for f in pre if not (isinstance(f, int) and not isinstance(f, bool))]
                res.evaluations += 1
                shape = "ch%d/pat%d" % (min(2, sum(1 for c in clients if c and ch in c.chans)),
                                        min(3, sum(1 for c in clients if c for p in c.pats if glob_match(p, ch))))
                res.cell("publish", shape, "overlap" if any(len(e) > 1 for e in expect.values()) else "single")
                for c2 in [c for c in clients if c is not None]:
                    got = pushes_sender if c2 is sender else c2.fenced(None)
                    e = expect[c2.ident]
                    if sorted(map(repr, got)) != sorted(map(repr, e)) or (len(e) and got and got[0][0] == b"pmessage" and e[0][0] == b"message" and False):
                        kind = "missing" if len(got) < len(e) else "duplicate-or-extra" if len(got) > len(e) else "bytes"
                        subs = "%dch+%dpat-matching" % (1 if ch in c2.chans else 0, sum(1 for p in c2.pats if glob_match(p, ch)))
                        return bad("%s/%s" % (kind, subs),
                                   "PUBLISH %s: client c%d (channels %s, patterns %s) received %s, expected %s" % (
                                       resp.show(ch), c2.ident, resp.show(c2.chans), resp.show(c2.pats),
                                       resp.show(got, 40), resp.show(e, 40)))
                if ints != [total]:
                    return bad("count/publish", "PUBLISH %s replied %s, deliveries expected %d" % (resp.show(ch), resp.show(ints), total))
        # end: nothing unexpected is pending on any connection
        for c2 in [c for c in clients if c is not None] + [pub]:
            left = c2.fenced(None)
            if left:
                return bad("extra/at-end", "client c%d has unexpected frames at the end: %s" % (c2.ident, resp.show(left, 40)))
        if hist_no < 2:
            res.sample(log[:14])
        return True
    finally:
        for c in clients:
            if c is not None:
                c.c.close()
        # let the server notice the disconnects before the next history starts
        try:
            server.wait_loops(pub.c, 4)
        except Exception:
            pass
        pub.c.close()


def worker(wseed, binary, budget_s):
    rng = util.rng_for(wseed, "C14")
    res = Result()
    srv = server.Server(binary).start()
    try:
        t_end = time.time() + budget_s
        n = 0
        while time.time() < t_end:
            n += 1
            try:
                history(srv, rng, res, n)
            except (Closed, Timeout) as e:
                if not srv.alive():
                    res.violation("server-died", "server exited %s during a pub/sub history\n%s" % (srv.exit_status(), srv.stderr_tail()))
                    srv.restart()
                else:
                    res.violation("silent/" + type(e).__name__.lower(), "connection %s during a pub/sub history (no fence reply)" % type(e).__name__)
        res.count("histories", n)
    finally:
        srv.cleanup()
    return res


def run(tier):
    t0 = time.time()
    seed = util.seed_from_env()
    binary, bt = server.build("dev")
    n = util.jobs()
    res = util.run_workers(worker, [seed * 1000 + i for i in range(n)],
                           dict(binary=binary, budget_s=15 if tier == "quick" else 180))
    return util.finish("C14", tier, seed, "exploration", res,
                       "stepwise histories of 2-6 clients x 10-40 actions from {SUBSCRIBE/PSUBSCRIBE of 1-3 names with "
                       "duplicates, UNSUBSCRIBE/PUNSUBSCRIBE named/unknown/all, disconnect, PUBLISH of unique payloads "
                       "(binary, CRLF, empty, 70 KB) on channels chosen to overlap the glob patterns}; PING-token fence "
                       "after every command and on every subscriber after each PUBLISH; oracle: received pushes per "
                       "client = one message per matching channel subscription + one pmessage per matching pattern, "
                       "PUBLISH integer = deliveries, every ack carries the model's remaining count; "
                       "cell = (action, subscription shape)", t0,
                       assumptions=["own byte-wise glob matcher (Redis stringmatchlen) decides pattern matches",
                                    "pushes are buffered synchronously at publish time (fence validity)"], min_cells=15)

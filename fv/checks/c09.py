"""C09 — an RDB snapshot restores exactly the dataset that was saved.

Build a dataset over TCP -> canonical dump D1 (with client-side brackets) ->
SAVE (or BGSAVE, completion read from the in-progress flag) -> SIGKILL ->
new child on the same directory -> dump D2 -> compare, TTL deadlines within
the measured brackets; keys whose deadline passes during the downtime must be
absent."""
import math
import threading
import time

from .. import server, util, resp
from ..diff import server_key_snapshot
from ..resp import Err, OK, Closed, Timeout
from ..util import Result

SIZES = [0, 1, 2, 63, 64, 65, 16383, 16384, 16385, 65535, 65536, 70000]
MARKER = b"__FERROUS_STREAM_MARKER__"
SPECIAL_BYTES = [b"", b"\x00", b"\xff\xfe\x00\x80", b"\r\n", MARKER, b"a b", b"\xfa", b"\xfe\x00", b"\xff", b"REDIS0009",
                 b"%d" % ((1 << 63) - 1), b"-1", b"0",
                 # integer look-alikes: real RDB writers store "integer" strings compactly (8/16/32 bit), so every
                 # width boundary and every spelling that parses as an integer but is not its canonical text
                 b"127", b"128", b"-128", b"-129", b"32767", b"32768", b"-32768", b"-32769", b"2147483647", b"2147483648",
                 b"-2147483648", b"-2147483649", b"-9223372036854775808", b"9223372036854775808", b"12345678901234567890",
                 b"007", b"00", b"+5", b"-0", b"+0", b" 1", b"1 ", b"0x10", b"1e3", b"1.0", b"01234", b"-007", b"1_000",
                 b"\xc0", b"\xc1\x00", b"\xc3abc", b"\xfe", b"\xfd\x00\x00\x00\x00", b"\xfc"]
SCORES = [b"0", b"-0", b"1", b"-1", b"1.5", b"inf", b"-inf", b"1e308", b"-1e308", b"5e-324", b"2.2250738585072014e-308",
          b"0.1", b"3.0000000000000004", b"123456789.123456789", b"-2.5e-10"]


def blob(rng, n):
    if n == 0:
        return b""
    r = rng.random()
    if r < 0.4:
        return bytes([rng.randrange(256)]) * n
    if r < 0.7:
        seedb = bytes(rng.randrange(256) for _ in range(min(n, 37)))
        return (seedb * (n // len(seedb) + 1))[:n]
    return (b"%d:" % rng.randrange(10 ** 6) * (n // 3 + 1))[:n]


def unique_members(rng, n, tag):
    specials = [s for s in SPECIAL_BYTES]
    rng.shuffle(specials)
    out = []
    seen = set()
    for s in specials[:min(n, rng.randrange(0, 5))]:
        if s not in seen:
            out.append(s)
            seen.add(s)
    i = 0
    while len(out) < n:
        m = b"%s%d" % (tag, i)
        i += 1
        if rng.random() < 0.05:
            m += b"\x00\xff"
        if m not in seen:
            out.append(m)
            seen.add(m)
    return out[:n]


def build_dataset(c, rng, res):
    """Returns list of (db, key, type, sizeclass)."""
    made = []
    dbs = sorted(set([0] + [rng.randrange(16) for _ in range(rng.randrange(0, 4))] + ([15] if rng.random() < 0.3 else [])))
    names = [b"k", b"same-name", b"\x00\xffbin", MARKER, b"key with space", b"", b"\xfe\xfd\xfc\xfb\xfa"]
    for db in dbs:
        assert c.cmd("SELECT", db) == OK
        nkeys = rng.randrange(1, 6)
        for ki in range(nkeys):
            key = rng.choice(names) if rng.random() < 0.7 else b"key:%d" % rng.randrange(1000)
            if key == b"":
                key = b"k-empty-name-not-generated"      # empty key names are refused by design (DONTCARE)
            typ = rng.choice(["string", "list", "set", "hash", "zset", "stream"])
            n = rng.choice(SIZES) if rng.random() < 0.5 else rng.choice([1, 2, 3, 5])
            if typ != "string" and n == 0:
                n = 1
            if typ in ("zset", "hash", "stream") and n > 16385:
                n = rng.choice([16385, 65536]) if rng.random() < 0.3 else 64
            c.cmd("DEL", key)
            cmds = []
            if typ == "string":
                v = rng.choice(SPECIAL_BYTES) if rng.random() < 0.3 else blob(rng, n)
                cmds.append([b"SET", key, v])
            elif typ == "list":
                elems = [rng.choice(SPECIAL_BYTES) if rng.random() < 0.2 else b"e%d" % i for i in range(n)]
                if rng.random() < 0.25 and elems:
                    elems[0] = MARKER
                if rng.random() < 0.1 and len(elems) > 1:
                    elems[1] = MARKER
                if n <= 3 and rng.random() < 0.3:
                    elems = [blob(rng, rng.choice(SIZES[1:]))] + elems[1:]
                for i in range(0, len(elems), 1000):
                    cmds.append([b"RPUSH", key] + elems[i:i + 1000])
            elif typ == "set":
                mem = unique_members(rng, n, b"m")
                for i in range(0, len(mem), 1000):
                    cmds.append([b"SADD", key] + mem[i:i + 1000])
            elif typ == "hash":
                fs = unique_members(rng, n, b"f")
                for i in range(0, len(fs), 500):
                    cmds.append([b"HSET", key] + [x for f in fs[i:i + 500] for x in (f, rng.choice(SPECIAL_BYTES) if rng.random() < 0.2 else b"v" + f[:8])])
            elif typ == "zset":
                mem = unique_members(rng, n, b"z")
                for i in range(0, len(mem), 500):
                    cmds.append([b"ZADD", key] + [x for m in mem[i:i + 500] for x in (rng.choice(SCORES) if rng.random() < 0.5 else b"%d" % rng.randrange(-5, 5), m)])
            else:
                ms = rng.randrange(1, 10 ** 12)
                for i in range(n):
                    if rng.random() < 0.2:
                        cmds.append([b"XADD", key, b"*", b"f", b"auto%d" % i])
                        continue
                    ms += rng.randrange(0, 3)
                    nf = rng.choice([1, 1, 2, 5])
                    fields = []
                    for j in range(nf):
                        fields += [b"f%d" % j if rng.random() < 0.8 else rng.choice(SPECIAL_BYTES[1:]) + b"%d" % j, rng.choice(SPECIAL_BYTES) if rng.random() < 0.3 else b"v%d" % i]
                    cmds.append([b"XADD", key, b"%d-%d" % (ms, i), *fields])
            ok = True
            for i in range(0, len(cmds), 200):
                rs = c.pipeline(cmds[i:i + 200])
                for a, r in zip(cmds[i:i + 200], rs):
                    if isinstance(r, Err) and not (a[0] == b"XADD" and a[2] == b"*"):
                        ok = False
            if not ok:
                c.cmd("DEL", key)
                continue
            sizeclass = "n=%d" % n if n in SIZES else "small"
            if typ == "stream" and n >= 1:
                mode = rng.random()
                if mode < 0.2:
                    # emptied stream
                    ids = [e[0] for e in c.cmd("XRANGE", key, "-", "+")]
                    for i in range(0, len(ids), 500):
                        c.cmd("XDEL", key, *ids[i:i + 500])
                    sizeclass = "emptied"
                elif mode < 0.4:
                    ids = [e[0] for e in c.cmd("XRANGE", key, "-", "+")]
                    c.cmd("XDEL", key, ids[-1])
                    sizeclass = "deleted-tail"
            r = rng.random()
            if r < 0.25:
                c.cmd("EXPIRE", key, rng.choice([3600, 86400, 100000]))
                ttlc = "long-ttl"
            elif r < 0.32:
                c.cmd("PEXPIRE", key, rng.choice([60000, 123456, 999999]))
                ttlc = "medium-ttl"
            else:
                ttlc = "no-ttl"
            made.append((db, key, typ, sizeclass, ttlc))
            res.cell(typ, sizeclass, ttlc, "db0" if db == 0 else "dbN")
    return made


def dump_all(c):
    """{(db, key): (snapshot, pttl, t_send, t_recv)}"""
    d = {}
    for db in range(16):
        c.cmd("SELECT", db)
        if c.cmd("DBSIZE") == 0:
            continue
        keys = c.cmd("KEYS", "*")
        for k in keys:
            snap = server_key_snapshot(c, k)
            t0, w0 = time.monotonic(), time.time()
            p = c.cmd("PTTL", k)
            t1, w1 = time.monotonic(), time.time()
            d[(db, k)] = (snap, p, t0, t1, w0, w1)
    c.cmd("SELECT", 0)
    return d


class Jitter:
    """Scheduling noise of this machine, measured while the server saves / loads:
    a thread sleeps 1 ms at a time and records the largest oversleep. The server
    reads two clocks per key (monotonic deadline, wall clock) when it writes and
    when it loads a TTL; a preemption between the two reads moves that deadline
    by the preemption time, which no client-side bracket can see."""

    def __init__(self):
        self.max = 0.0
        self._stop = False
        self._t = threading.Thread(target=self._run, daemon=True)

    def _run(self):
        while not self._stop:
            t = time.monotonic()
            time.sleep(0.001)
            d = time.monotonic() - t - 0.001
            if d > self.max:
                self.max = d

    def __enter__(self):
        self._t.start()
        return self

    def __exit__(self, *a):
        self._stop = True
        self._t.join(1.0)


def round_trip(rng, res, binary, rnd, candidates=None):
    """candidates: list that receives deadline deviations [(key, sig, detail)] instead
    of reporting them (they are confirmed by repeating the round)."""
    srv = server.Server(binary, config_text="save \"\"\n").start()
    jit_save = Jitter()
    jit_load = Jitter()
    try:
        c = srv.client(timeout=60)
        made = build_dataset(c, rng, res)
        mode = rng.choice(["SAVE", "SAVE", "BGSAVE"])
        # short-lived keys: must be gone after the downtime
        short = []
        d1 = dump_all(c)
        c.cmd("SELECT", 0)
        for i in range(rng.randrange(0, 3)):
            k = b"short:%d" % i
            typ = rng.choice(["string", "list", "zset", "hash"])
            {"string": lambda: c.cmd("SET", k, "v"), "list": lambda: c.cmd("RPUSH", k, "a"),
             "zset": lambda: c.cmd("ZADD", k, "1", "a"), "hash": lambda: c.cmd("HSET", k, "f", "v")}[typ]()
            c.cmd("PEXPIRE", k, rng.choice([300, 400, 500]))
            short.append((k, typ))
        t_save0 = time.monotonic()
        jit_save.__enter__()
        if mode == "SAVE":
            r = c.cmd("SAVE", timeout=120)
            if r != OK:
                res.violation("save-failed/%s" % mode, "SAVE -> %r" % (r,))
                return
        else:
            r = c.cmd("BGSAVE")
            if isinstance(r, Err):
                res.violation("save-failed/BGSAVE", "BGSAVE -> %r" % (r,))
                return
            t_end = time.monotonic() + 120
            # a save thread may not have started yet: wait until one started and all finished
            while time.monotonic() < t_end:
                st = c.cmd("VERIF", "RDB", "SAVES")
                if st[0] >= 1 and st[0] == st[1] and c.cmd("VERIF", "RDB", "INPROGRESS") == 0:
                    break
                time.sleep(0.005)
            else:
                res.inconclusive.append("BGSAVE did not finish within 120 s")
                return
        jit_save.__exit__()
        srv.kill()                       # SIGKILL: the dump must not depend on a clean exit
        if short:
            time.sleep(max(0.0, 0.7 - (time.monotonic() - t_save0)))
        with jit_load:
            srv.start()
            c = srv.client(timeout=60)
            c.cmd("PING")
        noise_ms = 1000.0 * (jit_save.max + jit_load.max)
        d2 = dump_all(c)
        res.evaluations += 1 + len(d1)
        res.cell("mode", mode)
        detail_base = "round %d (%s, %d keys)" % (rnd, mode, len(d1))
        for (k, typ) in short:
            res.cell("short-ttl", typ)
            if (0, k) in d2:
                res.violation("expired-during-downtime/%s" % typ, "%s: key %s (%s) with a TTL <= 500 ms set before %s is present after a >= 700 ms downtime: %s" % (
                    detail_base, resp.show(k), typ, mode, resp.show(list(d2[(0, k)][0]), 40)))
                return
        d2 = {kk: v for kk, v in d2.items() if not kk[1].startswith(b"short:")}
        info = {(db, k): (typ, sc, ttlc) for db, k, typ, sc, ttlc in made}
        for kk in d1:
            typ, sc, ttlc = info.get(kk, ("?", "?", "?"))
            if kk not in d2:
                res.violation("roundtrip/%s/%s/missing" % (d1[kk][0][0], sc), "%s: key %s in db %d (%s, %s) is missing after restart" % (
                    detail_base, resp.show(kk[1]), kk[0], d1[kk][0][0], sc))
                return
            s1, p1, a0, a1, wa0, wa1 = d1[kk]
            s2, p2, b0, b1, wb0, wb1 = d2[kk]
            if s1[0] != s2[0]:
                res.violation("roundtrip/%s/%s/type" % (s1[0], sc), "%s: key %s in db %d was %s, after restart %s: %s" % (
                    detail_base, resp.show(kk[1]), kk[0], s1[0], s2[0], resp.show(list(s2), 30)))
                return
            v1, v2 = s1[1], s2[1]
            if s1[0] == "zset":
                same = isinstance(v2, list) and len(v1) == len(v2) and all(
                    x[0] == y[0] and (x[1] == y[1] or (x[1] != x[1] and y[1] != y[1])) and
                    math.copysign(1, x[1]) == math.copysign(1, y[1]) or (x[0] == y[0] and x[1] == y[1] == 0) for x, y in zip(v1, v2))
            else:
                same = v1 == v2
            if not same:
                res.violation("roundtrip/%s/%s/value" % (s1[0], sc), "%s: key %s in db %d (%s %s): before %s, after %s" % (
                    detail_base, resp.show(kk[1]), kk[0], s1[0], sc, resp.show(v1, 30), resp.show(v2, 30)))
                return
            if (p1 >= 0) != (p2 >= 0):
                res.violation("roundtrip/%s/%s/ttl-presence" % (s1[0], ttlc), "%s: key %s: PTTL before %r, after %r" % (detail_base, resp.show(kk[1]), p1, p2))
                return
            if p1 >= 0:
                # A deadline lives on the monotonic clock while the server runs and travels
                # through the dump as wall-clock time: the elapsed time between the two PTTLs
                # is a mix of both clocks, which need not tick at the same rate (slewing).
                if noise_ms > 50:
                    res.count("ttl_deadlines_not_judged_machine_too_noisy")
                    continue
                tol = 3 + 2 * noise_ms
                lo = p1 - max(b1 - a0, wb1 - wa0) * 1000 - tol
                hi = p1 - min(b0 - a1, wb0 - wa1) * 1000 + tol
                res.count("ttl_deadlines_compared")
                if abs((b1 - a0) - (wb1 - wa0)) > 0.002:
                    res.count("ttl_deadlines_with_clock_disagreement_over_2ms")
                if not (lo <= p2 <= hi):
                    sig = "roundtrip/%s/%s/ttl-deadline" % (s1[0], ttlc)
                    detail = ("%s: key %s: PTTL before %d (asked %.3f..%.3f), after %d (asked %.3f..%.3f): deadline moved, "
                              "allowed [%.1f, %.1f] (3 ms granularity + 2 x %.2f ms scheduling noise measured during save and load)" % (
                                  detail_base, resp.show(kk[1]), p1, a0, a1, p2, b0, b1, lo, hi, noise_ms))
                    if candidates is not None:
                        candidates.append((kk, sig, detail))
                        continue
                    res.violation(sig, detail)
                    return
        extra = [kk for kk in d2 if kk not in d1]
        if extra:
            res.violation("roundtrip/extra-key", "%s: keys present only after restart: %s" % (detail_base, resp.show(extra[:4])))
            return
        if rnd <= 1:
            res.sample(["db%d %s %s %s %s" % (db, resp.show(k, 20), typ, sc, ttlc) for db, k, typ, sc, ttlc in made[:8]])
    finally:
        jit_save._stop = jit_load._stop = True
        srv.cleanup()


RESAVE_PATHS = ["blpop-fast", "brpop-fast", "blpop-served", "script-error", "exec", "direct", "expiry", "script"]


def second_save(res, binary, rng, prop_tag="resave", paths=None):
    """SAVE, then changes through every path a change can take (direct, transaction, script - also one
    that fails after writing -, blocking pop served at once, blocking pop served later by another
    client's push, expiry), then SAVE again, kill, restart: the dataset is the one of the SECOND save."""
    srv = server.Server(binary, config_text="save \"\"\n").start()
    try:
        c = srv.client(timeout=30)
        o = srv.client(timeout=30)
        c.cmd("RPUSH", "jobs", "j1", "j2", "j3", "j4")
        c.cmd("RPUSH", "jobs2", "k1", "k2")
        c.cmd("SET", "s", "v1")
        c.cmd("SADD", "set", "a", "b")
        c.cmd("SET", "dies", "v", "PX", "150")
        if c.cmd("SAVE", timeout=60) != OK:
            res.violation("save-failed/first", "first SAVE failed")
            return
        if paths is None:
            paths = rng.sample(RESAVE_PATHS, rng.randrange(1, 4))
        for pth in paths:
            if pth == "blpop-fast":
                c.cmd("BLPOP", "jobs", "0")
            elif pth == "brpop-fast":
                c.cmd("BRPOP", "jobs2", "jobs", "1")
            elif pth == "blpop-served":
                o.send("BLPOP", "empty-q", "0")
                server.wait_loops(c, 3)
                c.cmd("RPUSH", "empty-q", "x", "y")
                o.recv(timeout=10)
            elif pth == "script-error":
                c.cmd("EVAL", "redis.call('SET', 's', 'from-failing-script') error('fails after writing')", "0")
            elif pth == "script":
                c.cmd("EVAL", "return redis.call('SADD', 'set', 'from-script')", "0")
            elif pth == "exec":
                c.pipeline([["MULTI"], ["LPOP", "jobs"], ["SREM", "set", "a"], ["EXEC"]])
            elif pth == "direct":
                c.cmd("APPEND", "s", "+direct")
            elif pth == "expiry":
                time.sleep(0.25)
        live = snap_only_local(dump_all(c))
        r = c.cmd("SAVE", timeout=60)
        if r != OK:
            res.violation("save-failed/second", "second SAVE -> %r" % (r,))
            return
        srv.kill()
        if "expiry" in paths:
            time.sleep(0.2)
        srv.start()
        c = srv.client(timeout=30)
        got = snap_only_local(dump_all(c))
        live.pop((0, b"dies"), None)
        got_cmp = dict(got)
        if "expiry" in paths:
            pass
        else:
            got_cmp.pop((0, b"dies"), None)
        res.evaluations += 1
        for pth in paths:
            res.cell(prop_tag, pth)
        if got_cmp != live:
            diff = sorted(k for k in set(live) | set(got_cmp) if live.get(k) != got_cmp.get(k))
            res.violation("%s/second-save-stale/%s" % (prop_tag, "+".join(sorted(paths))),
                          "SAVE; then changes through %s; SAVE -> +OK; kill + restart: %d key(s) differ from what the server held at the second SAVE, e.g. %s: "
                          "at the second SAVE %s, after restart %s" % (paths, len(diff), resp.show(diff[0][1]), resp.show(list(live.get(diff[0], ("none",))), 40),
                                                                   resp.show(list(got_cmp.get(diff[0], ("none",))), 40)))
    finally:
        srv.cleanup()


def snap_only_local(d):
    return {k: (v[0][0], v[0][1], v[1] >= 0 if isinstance(v[1], int) else False) for k, v in d.items()}


def save_while_bgsave_parked(res, binary):
    """The same question with the order forced: the background save is parked (sync point) before
    its first key, a client writes and SAVEs, then the background save resumes and finishes LAST."""
    srv = server.Server(binary, config_text="save \"\"\n").start()
    try:
        c = srv.client(timeout=30)
        c.cmd("SET", "old", "v1")
        c.cmd("RPUSH", "list", "a", "b")
        c.cmd("VERIF", "RDB", "HOLD", "before-get", "old")
        r = c.cmd("BGSAVE")
        t_end = time.monotonic() + 10
        while c.cmd("VERIF", "RDB", "STATE")[0] != b"parked" and time.monotonic() < t_end:
            time.sleep(0.002)
        if c.cmd("VERIF", "RDB", "STATE")[0] != b"parked":
            res.inconclusive.append("save thread never parked before-get")
            c.cmd("VERIF", "RDB", "RELEASE")
            return
        c.cmd("SET", "old", "v2")
        c.cmd("SET", "fresh", "written-before-SAVE")
        c.cmd("RPUSH", "list", "c")
        try:
            r = c.cmd("SAVE", timeout=5)
        except Timeout:
            # an implementation may let SAVE wait for the background save: with the save thread parked by
            # this harness that wait cannot end - nothing to judge here (the free-running variant decides)
            res.count("save_waits_for_parked_bgsave")
            res.cell("save-while-bgsave", "parked", "save-waits")
            return
        refused = isinstance(r, Err)
        c.cmd("VERIF", "RDB", "RELEASE")
        t_end = time.monotonic() + 30
        while time.monotonic() < t_end:
            st = c.cmd("VERIF", "RDB", "SAVES")
            if st[0] == st[1] and c.cmd("VERIF", "RDB", "INPROGRESS") == 0:
                break
            time.sleep(0.005)
        if refused and c.cmd("SAVE", timeout=30) != OK:
            res.violation("save-failed/after-bgsave", "SAVE after the background save had finished failed")
            return
        res.evaluations += 1
        res.cell("save-while-bgsave", "parked", "refused" if refused else "accepted")
        srv.kill()
        srv.start()
        c = srv.client(timeout=30)
        got = [c.cmd("GET", "old"), c.cmd("GET", "fresh"), c.cmd("LRANGE", "list", 0, -1)]
        want = [b"v2", b"written-before-SAVE", [b"a", b"b", b"c"]]
        if got != want:
            res.violation("save-during-bgsave/acknowledged-write-lost",
                          "BGSAVE parked before its first key; SET old v2; SET fresh; RPUSH list c; SAVE -> %s; background save released and finished; "
                          "kill + restart -> [old, fresh, list] = %s, expected %s (the older snapshot replaced the newer dump)" % (
                              resp.show(r), resp.show(got, 30), resp.show(want, 30)))
    finally:
        srv.cleanup()


def save_while_bgsave_runs(res, binary, rng):
    """SAVE answered +OK means: a restart brings back everything acknowledged before it -
    also when a background save (which started earlier and knows less) is still running
    and finishes afterwards."""
    srv = server.Server(binary, config_text="save \"\"\n").start()
    try:
        c = srv.client(timeout=120)
        c.cmd("SET", "big", b"x" * (48 << 20))
        c.cmd("RPUSH", "list", "a", "b")
        c.cmd("SET", "old", "v1")
        r = c.cmd("BGSAVE")
        if isinstance(r, Err):
            res.inconclusive.append("BGSAVE refused: %r" % (r,))
            return
        time.sleep(0.02)
        c.cmd("SET", "old", "v2")
        c.cmd("SET", "fresh", "written-before-SAVE")
        c.cmd("RPUSH", "list", "c")
        overlapped = c.cmd("VERIF", "RDB", "INPROGRESS") == 1
        r = c.cmd("SAVE", timeout=120)
        refused = isinstance(r, Err)
        t_end = time.monotonic() + 120
        while time.monotonic() < t_end:
            st = c.cmd("VERIF", "RDB", "SAVES")
            if st[0] == st[1] and c.cmd("VERIF", "RDB", "INPROGRESS") == 0:
                break
            time.sleep(0.01)
        if refused:
            # like Redis: not while a background save runs. Then the next one must do.
            r2 = c.cmd("SAVE", timeout=120)
            if r2 != OK:
                res.violation("save-failed/after-bgsave", "SAVE after the background save had finished -> %r" % (r2,))
                return
        res.evaluations += 1
        res.cell("save-while-bgsave", "overlapped" if overlapped else "not-overlapped", "refused" if refused else "accepted")
        res.count("save_while_bgsave_overlapped", int(overlapped))
        srv.kill()
        srv.start()
        c = srv.client(timeout=120)
        got = [c.cmd("GET", "old"), c.cmd("GET", "fresh"), c.cmd("LRANGE", "list", 0, -1), c.cmd("STRLEN", "big")]
        want = [b"v2", b"written-before-SAVE", [b"a", b"b", b"c"], 48 << 20]
        if got != want:
            res.violation("save-during-bgsave/acknowledged-write-lost",
                          "BGSAVE of a 48 MB dataset; SET old v2; SET fresh; RPUSH list c; SAVE -> %s (%s); after the background save finished: kill + restart "
                          "-> [old, fresh, list, strlen(big)] = %s, expected %s" % (resp.show(r), "still in progress at SAVE time" if overlapped else "already finished",
                                                                                   resp.show(got, 30), resp.show(want, 30)))
    finally:
        srv.cleanup()


def worker(wseed, binary, budget_s):
    res = Result()
    if wseed % 1000 in (2, 3, 4, 5, 6, 7):
        try:
            # every path alone once per run (spread over six workers), plus random combinations
            mine = [pth for i, pth in enumerate(RESAVE_PATHS) if i % 6 == wseed % 1000 - 2]
            for pth in mine:
                second_save(res, binary, util.rng_for(wseed, "C09-resave", pth), paths=[pth])
            second_save(res, binary, util.rng_for(wseed, "C09-resave", "mix"))
        except (Closed, Timeout, AssertionError, RuntimeError) as e:
            res.inconclusive.append("second-save scenario: harness/connection problem %r" % (e,))
    if wseed % 1000 in (0, 1):
        try:
            save_while_bgsave_runs(res, binary, util.rng_for(wseed, "C09-swb"))
            save_while_bgsave_parked(res, binary)
        except (Closed, Timeout, AssertionError, RuntimeError) as e:
            res.inconclusive.append("save-while-bgsave scenario: harness/connection problem %r" % (e,))
    t_end = time.time() + budget_s
    n = 0
    while time.time() < t_end:
        n += 1
        try:
            cands = []
            round_trip(util.rng_for(wseed, "C09", n), res, binary, n, cands)
            if cands:
                # A deadline that moved by more than the tolerance: a defect moves it every
                # time, a preempted server thread does not. Repeat the identical round twice.
                res.count("ttl_deadline_candidates", len(cands))
                still = {kk: (sig, detail) for kk, sig, detail in cands}
                for rep in range(2):
                    again = []
                    round_trip(util.rng_for(wseed, "C09", n), res, binary, n, again)
                    seen = {kk for kk, _, _ in again}
                    still = {kk: v for kk, v in still.items() if kk in seen}
                    if not still:
                        break
                res.count("ttl_deadline_candidates_confirmed", len(still))
                for kk, (sig, detail) in sorted(still.items())[:3]:
                    res.violation(sig, detail + " [same key moved again in 2 identical repeat rounds]")
        except (Closed, Timeout, AssertionError, RuntimeError) as e:
            res.inconclusive.append("round %d: harness/connection problem %r" % (n, e))
    res.count("rounds", n)
    return res


def run(tier):
    t0 = time.time()
    seed = util.seed_from_env()
    binary, bt = server.build("dev")
    n = util.jobs()
    res = util.run_workers(worker, [seed * 1000 + i for i in range(n)], dict(binary=binary, budget_s=25 if tier == "quick" else 300))
    return util.finish("C09", tier, seed, "exploration", res,
                       "rounds of: dataset built over TCP (six types x element counts / lengths in {0,1,2,63,64,65,16383,16384,"
                       "16385,65535,65536,70000}, binary and marker-equal strings as values / first and later list elements / "
                       "members / fields / key names, several DBs incl. 15 with equal key names, scores +-inf/-0/subnormal/1e308, "
                       "streams with explicit and auto IDs, deleted tail, emptied, multi-field; TTLs of hours, minutes and "
                       "300-500 ms) -> canonical dump with brackets -> SAVE or BGSAVE (completion via the in-progress flag) -> "
                       "SIGKILL -> restart on the same directory -> dump -> compare; PTTL within the client-side bracket (both clocks) +-3 ms + 2 x measured scheduling noise, a deviation must repeat in two identical rounds; "
                       "short-TTL keys absent after >= 700 ms downtime; plus SAVE issued while a BGSAVE of a 48 MB dataset is still running "
                       "(writes acknowledged before the +OK must survive kill + restart after both saves ended); SAVE, changes through 1-3 of 8 paths "
                       "(direct, EXEC, script, failing script, blocking pop served at once / later, expiry), SAVE again, kill, restart = state at the second SAVE; "
                       "cell = (type, size class, ttl class, db class)", t0,
                       assumptions=["dumps are taken with the server's own read commands", "empty key names are not generated (refused by design)",
                                    "stream field order inside an entry is not compared"], min_cells=20)

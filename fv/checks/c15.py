"""C15 — streams are append-only logs with strictly increasing IDs and exact ranges."""
from . import modeldiff

RULE = ("seeded histories of XADD (auto IDs, explicit IDs greater/equal/smaller than the last, ahead of the wall clock, "
        "at the sequence and millisecond edges), XDEL, XTRIM, XRANGE/XREVRANGE/XREAD with bounds placed below/on/"
        "between/above stored IDs with and without COUNT, XLEN, on never-created/emptied streams and wrong-type keys; "
        "every reply compared with a sorted-map model whose last-id is the maximum ever added (auto IDs must exceed "
        "it and are adopted); stream walker (VERIF CHECK) every 10 commands; cell = (command, pre-state, reply class)")


def run(tier):
    return modeldiff.run("C15", tier, "gen:gen_stream_cmd", RULE + "; in 1 of 12 histories the server is saved, killed and restarted on its dump at a random step (IDs must keep increasing across the reload)", check_every=10, hist_len=(30, 150), restart_prob=0.08, script_prob=0.04)

"""Seeded, stratified command generators (shared by C01/C03/C04/C07/C11/C12/C15/C18)."""
import math
import struct

I64_MAX = (1 << 63) - 1
I64_MIN = -(1 << 63)

KEYS = [b"k1", b"k2", b"key:3", b"\x00\xffbin", b"a b", b"cr\r\nlf", b"k1x", b"K1", b"{tag}z", b"0"]
BIG_KEY = b"K" * 70000

SMALL_VALUES = [b"", b"a", b"abc", b"hello world", b"\x00", b"\x00\x01\xfe\xff", b"line\r\nbreak", b"+OK\r\n",
                b"$5\r\n", b"0", b"1", b"-1", b"10", b"42", b"007x", b"3.14", b"x" * 100]
INT_VALUES = [b"0", b"1", b"-1", b"2", b"10", b"-10", b"100", b"%d" % I64_MAX, b"%d" % I64_MIN,
              b"%d" % (I64_MAX - 1), b"%d" % (I64_MIN + 1), b"4611686018427387904", b"-4611686018427387904"]
BAD_INTS = [b"", b"abc", b"1.5", b"1e3", b" 1", b"1 ", b"9223372036854775808", b"-9223372036854775809",
            b"18446744073709551616", b"0x10", b"--1", b"1\x00"]
INDEXES = [0, 1, -1, 2, -2, 3, 5, -5, 10, -10, 100, -100, 1000, -1000]
MEMBERS = [b"a", b"b", b"c", b"d", b"e", b"", b"\x00", b"A", b"aa", b"ab", b"m\r\n", b"\xff\xfe", b"10", b"x" * 300]
FIELDS = [b"f1", b"f2", b"f3", b"", b"\x00f", b"F1", b"n", b"cnt"]
GLOBS = [b"*", b"k*", b"k?", b"k[12]", b"k[^1]", b"?", b"??", b"*1*", b"[a-k]*", b"k\\1", b"\\*", b"a?b",
         b"*\r\n*", b"\x00*", b"K*", b"key:*", b"{*}*", b"nomatch", b"", b"k1", b"[0-9]", b"*[x]"]


def big_value(rng):
    n = rng.choice([1000, 8191, 8192, 8193, 16384, 65536, 70000])
    return bytes([rng.randrange(256)]) * n


def value(rng):
    r = rng.random()
    if r < 0.55:
        return rng.choice(SMALL_VALUES)
    if r < 0.8:
        return rng.choice(INT_VALUES)
    if r < 0.97:
        return bytes(rng.randrange(256) for _ in range(rng.randrange(1, 24)))
    return big_value(rng)


def key(rng, model=None, db=0, want=None, p_match=0.6):
    """Pick a key; with probability p_match one whose current type is `want`."""
    if model is not None and want is not None and rng.random() < p_match:
        cands = [k for k in KEYS if (model.get(db, k).t if model.get(db, k) else "absent") == want]
        if cands:
            return rng.choice(cands)
    if rng.random() < 0.004:
        return BIG_KEY
    return rng.choice(KEYS)


def intarg(rng, allow_bad=True):
    r = rng.random()
    if r < 0.7:
        return rng.choice(INT_VALUES)
    if r < 0.85 or not allow_bad:
        return b"%d" % rng.randrange(-1000, 1000)
    return rng.choice(BAD_INTS)


def index(rng):
    r = rng.random()
    if r < 0.85:
        return b"%d" % rng.choice(INDEXES)
    if r < 0.93:
        return rng.choice([b"%d" % I64_MAX, b"%d" % I64_MIN, b"2147483648", b"-2147483649", b"4294967296"])
    return rng.choice(BAD_INTS)


def ttl_arg(rng, unit_ms=False):
    r = rng.random()
    if r < 0.7:
        n = rng.choice([1000, 5000, 86400, 100000])
        return b"%d" % (n * 1000 if unit_ms else n)
    if r < 0.85:
        return rng.choice([b"0", b"-1", b"-100"])
    return rng.choice(BAD_INTS)


# --------------------------------------------------------------------------- seeding
def seed_commands(rng):
    """Commands that give the key pool one key of every type."""
    ks = list(KEYS)
    rng.shuffle(ks)
    out = [
        [b"SET", ks[0], rng.choice(SMALL_VALUES)],
        [b"SET", ks[1], rng.choice(INT_VALUES)],
        [b"RPUSH", ks[2], b"a", b"b", b"a", b"c"],
        [b"SADD", ks[3], b"a", b"b", b"c"],
        [b"HSET", ks[4], b"f1", b"v1", b"n", b"5"],
        [b"ZADD", ks[5], b"1", b"a", b"2", b"b", b"2", b"c"],
        [b"XADD", ks[6], b"1-1", b"f", b"v"],
    ]
    if rng.random() < 0.5:
        out.append([b"EXPIRE", ks[rng.randrange(7)], b"100000"])
    return out


# --------------------------------------------------------------------------- C01 strings + keyspace
def gen_string_cmd(rng, m, db):
    c = rng.choice(["SET", "SET", "GET", "MGET", "MSET", "GETSET", "SETNX", "SETEX", "PSETEX", "APPEND", "STRLEN",
                    "GETRANGE", "SETRANGE", "INCR", "DECR", "INCRBY", "DECRBY", "DEL", "EXISTS", "TYPE", "RENAME",
                    "RENAMENX", "KEYS", "DBSIZE", "RANDOMKEY", "EXPIRE", "PEXPIRE", "TTL", "PTTL", "PERSIST",
                    "FLUSH", "ARITY"])
    k = lambda: key(rng, m, db, rng.choice(["string", "string", "absent", None]), 0.5)
    if c == "SET":
        a = [b"SET", k(), value(rng)]
        groups = []
        if rng.random() < 0.3:
            groups.append([rng.choice([b"NX", b"XX", b"nx", b"xx"])])
        if rng.random() < 0.3:
            ms = rng.random() < 0.5
            groups.append([rng.choice([b"PX", b"px"]) if ms else rng.choice([b"EX", b"ex"]), ttl_arg(rng, ms)])
        if rng.random() < 0.04:
            groups.append([rng.choice([b"NX", b"XX"])])  # possibly NX+XX
        rng.shuffle(groups)
        opts = [x for g in groups for x in g]
        if rng.random() < 0.03:
            opts.append(rng.choice([b"BOGUS", b"EX", b"PX", b""]))  # unknown token / missing operand
        return a + opts
    if c == "GET":
        return [b"GET", k()]
    if c == "MGET":
        return [b"MGET"] + [key(rng) for _ in range(rng.randrange(1, 5))]
    if c == "MSET":
        n = rng.randrange(1, 4)
        a = [b"MSET"]
        for _ in range(n):
            a += [key(rng), value(rng)]
        if rng.random() < 0.1:
            a.append(key(rng))  # odd arity
        return a
    if c == "GETSET":
        return [b"GETSET", k(), value(rng)]
    if c == "SETNX":
        return [b"SETNX", k(), value(rng)]
    if c == "SETEX":
        return [b"SETEX", k(), ttl_arg(rng), value(rng)]
    if c == "PSETEX":
        return [b"PSETEX", k(), ttl_arg(rng, True), value(rng)]
    if c == "APPEND":
        return [b"APPEND", k(), value(rng)]
    if c == "STRLEN":
        return [b"STRLEN", k()]
    if c == "GETRANGE":
        return [b"GETRANGE", k(), index(rng), index(rng)]
    if c == "SETRANGE":
        off = rng.choice([b"0", b"1", b"3", b"10", b"100", b"70000", b"-1", b"-5"] + BAD_INTS[:4])
        return [b"SETRANGE", k(), off, rng.choice(SMALL_VALUES)]
    if c in ("INCR", "DECR"):
        return [c.encode(), key(rng, m, db, "string", 0.7)]
    if c in ("INCRBY", "DECRBY"):
        return [c.encode(), key(rng, m, db, "string", 0.7), intarg(rng)]
    if c == "DEL":
        return [b"DEL"] + [key(rng) for _ in range(rng.randrange(1, 4))]
    if c == "EXISTS":
        return [b"EXISTS"] + [key(rng) for _ in range(rng.randrange(1, 4))]
    if c == "TYPE":
        return [b"TYPE", key(rng)]
    if c == "RENAME":
        return [b"RENAME", key(rng), key(rng)]
    if c == "RENAMENX":
        return [b"RENAMENX", key(rng), key(rng)]
    if c == "KEYS":
        return [b"KEYS", rng.choice(GLOBS)]
    if c == "DBSIZE":
        return [b"DBSIZE"]
    if c == "RANDOMKEY":
        return [b"RANDOMKEY"]
    if c == "EXPIRE":
        return [b"EXPIRE", key(rng), ttl_arg(rng)]
    if c == "PEXPIRE":
        return [b"PEXPIRE", key(rng), ttl_arg(rng, True)]
    if c in ("TTL", "PTTL"):
        return [c.encode(), key(rng)]
    if c == "PERSIST":
        return [b"PERSIST", key(rng)]
    if c == "FLUSH":
        if rng.random() < 0.15:
            return [rng.choice([b"FLUSHDB", b"FLUSHALL"])]
        return [b"DBSIZE"]
    # wrong arity of a random command
    name = rng.choice([b"GET", b"SET", b"GETSET", b"SETNX", b"SETEX", b"APPEND", b"STRLEN", b"GETRANGE", b"SETRANGE",
                       b"INCR", b"INCRBY", b"DECRBY", b"DEL", b"EXISTS", b"TYPE", b"RENAME", b"RENAMENX", b"KEYS",
                       b"DBSIZE", b"MGET", b"EXPIRE", b"TTL", b"PERSIST"])
    n = rng.choice([0, 1, 4, 5])
    return [name] + [key(rng) for _ in range(n)]


# --------------------------------------------------------------------------- C03 collections
def gen_coll_cmd(rng, m, db):
    c = rng.choice(["LPUSH", "RPUSH", "LPOP", "RPOP", "LLEN", "LRANGE", "LINDEX", "LSET", "LTRIM", "LREM",
                    "SADD", "SREM", "SMEMBERS", "SISMEMBER", "SCARD", "SUNION", "SINTER", "SDIFF", "SPOP",
                    "SRANDMEMBER", "HSET", "HMSET", "HGET", "HMGET", "HGETALL", "HDEL", "HLEN", "HEXISTS", "HKEYS",
                    "HVALS", "HINCRBY", "TYPE", "DEL", "DBSIZE", "ARITY"])
    lk = lambda: key(rng, m, db, "list", 0.65)
    sk = lambda: key(rng, m, db, "set", 0.65)
    hk = lambda: key(rng, m, db, "hash", 0.65)
    mem = lambda: rng.choice(MEMBERS)
    if c in ("LPUSH", "RPUSH"):
        return [c.encode(), lk()] + [mem() for _ in range(rng.randrange(1, 5))]
    if c in ("LPOP", "RPOP", "LLEN"):
        return [c.encode(), lk()]
    if c == "LRANGE":
        return [b"LRANGE", lk(), index(rng), index(rng)]
    if c == "LINDEX":
        return [b"LINDEX", lk(), index(rng)]
    if c == "LSET":
        return [b"LSET", lk(), index(rng), mem()]
    if c == "LTRIM":
        return [b"LTRIM", lk(), index(rng), index(rng)]
    if c == "LREM":
        cnt = rng.choice([b"0", b"1", b"-1", b"2", b"-2", b"100", b"-100"] + BAD_INTS[:3])
        return [b"LREM", lk(), cnt, mem()]
    if c in ("SADD", "SREM"):
        return [c.encode(), sk()] + [mem() for _ in range(rng.randrange(1, 5))]
    if c in ("SMEMBERS", "SCARD"):
        return [c.encode(), sk()]
    if c == "SISMEMBER":
        return [b"SISMEMBER", sk(), mem()]
    if c in ("SUNION", "SINTER", "SDIFF"):
        return [c.encode()] + [key(rng, m, db, rng.choice(["set", "set", "absent", None]), 0.8)
                               for _ in range(rng.randrange(1, 4))]
    if c in ("SPOP", "SRANDMEMBER"):
        a = [c.encode(), sk()]
        if rng.random() < 0.6:
            pool = [b"0", b"1", b"2", b"3", b"10", b"100"]
            if c == "SRANDMEMBER":
                pool += [b"-1", b"-2", b"-5", b"-20"]
            else:
                pool += [b"-1"]
            a.append(rng.choice(pool + BAD_INTS[:2]))
        return a
    if c in ("HSET", "HMSET"):
        a = [c.encode(), hk()]
        for _ in range(rng.randrange(1, 4)):
            a += [rng.choice(FIELDS), value(rng)]
        if rng.random() < 0.08:
            a.append(rng.choice(FIELDS))
        return a
    if c == "HGET":
        return [b"HGET", hk(), rng.choice(FIELDS)]
    if c == "HMGET":
        return [b"HMGET", hk()] + [rng.choice(FIELDS) for _ in range(rng.randrange(1, 4))]
    if c in ("HGETALL", "HLEN", "HKEYS", "HVALS"):
        return [c.encode(), hk()]
    if c == "HDEL":
        return [b"HDEL", hk()] + [rng.choice(FIELDS) for _ in range(rng.randrange(1, 4))]
    if c == "HEXISTS":
        return [b"HEXISTS", hk(), rng.choice(FIELDS)]
    if c == "HINCRBY":
        return [b"HINCRBY", hk(), rng.choice(FIELDS), intarg(rng)]
    if c == "TYPE":
        return [b"TYPE", key(rng)]
    if c == "DEL":
        return [b"DEL", key(rng)]
    if c == "DBSIZE":
        return [b"DBSIZE"]
    name = rng.choice([b"LPUSH", b"LPOP", b"LRANGE", b"LINDEX", b"LSET", b"LTRIM", b"LREM", b"SADD", b"SREM",
                       b"SMEMBERS", b"SISMEMBER", b"SCARD", b"SPOP", b"HSET", b"HGET", b"HMGET", b"HGETALL", b"HDEL",
                       b"HLEN", b"HEXISTS", b"HINCRBY", b"SUNION", b"LLEN"])
    n = rng.choice([0, 1, 5, 6])
    return [name] + [key(rng) for _ in range(n)]


# --------------------------------------------------------------------------- C04 sorted sets
def _nextafter(x, up):
    if math.isinf(x):
        return x
    if x == 0.0:
        return 5e-324 if up else -5e-324
    b = struct.unpack("<q", struct.pack("<d", x))[0]
    b += 1 if (x > 0) == up else -1
    return struct.unpack("<d", struct.pack("<q", b))[0]


GRID = [-2.0, -1.0, -0.5, 0.0, 0.5, 1.0, 2.0]
SCORE_TEXT = [b"0", b"-0", b"0.0", b"-0.0", b"1", b"-1", b"2", b"-2", b"1.5", b"-1.5", b"inf", b"+inf", b"-inf",
              b"1e308", b"-1e308", b"5e-324", b"1e-300", b"3.0000000000000004", b"3", b"2.9999999999999996",
              b"1e3", b"1E3", b"0.1", b"0.30000000000000004"]
BAD_SCORES = [b"nan", b"NaN", b"-nan", b"", b"abc", b"1..2", b"1,5", b" 1", b"--1"]
ZMEMBERS = [b"a", b"b", b"c", b"d", b"e", b"f", b"", b"A", b"aa", b"a\x00", b"\xff", b"z\r\n", b"10", b"9"]


def score(rng, bad=0.06):
    r = rng.random()
    if r < bad:
        return rng.choice(BAD_SCORES)
    if r < 0.6:
        return rng.choice(SCORE_TEXT)
    if r < 0.8:
        g = rng.choice(GRID)
        g = _nextafter(g, rng.random() < 0.5) if rng.random() < 0.5 else g
        return repr(g).encode()
    return repr(round(rng.uniform(-3, 3), rng.choice([0, 1, 3]))).encode()


def gen_zset_cmd(rng, m, db):
    c = rng.choice(["ZADD", "ZADD", "ZADD", "ZINCRBY", "ZINCRBY", "ZREM", "ZREM", "ZSCORE", "ZCARD", "ZRANK",
                    "ZREVRANK", "ZRANGE", "ZREVRANGE", "ZRANGEBYSCORE", "ZREVRANGEBYSCORE", "ZCOUNT", "ZPOPMIN",
                    "ZPOPMAX", "TYPE", "DEL", "ARITY"])
    zk = lambda: key(rng, m, db, "zset", 0.75)
    mem = lambda: rng.choice(ZMEMBERS)
    if c == "ZADD":
        a = [b"ZADD", zk()]
        for _ in range(rng.choice([1, 1, 2, 3, 5])):
            a += [score(rng), mem()]
        if rng.random() < 0.05:
            a.append(score(rng))
        return a
    if c == "ZINCRBY":
        return [b"ZINCRBY", zk(), score(rng), mem()]
    if c == "ZREM":
        return [b"ZREM", zk()] + [mem() for _ in range(rng.randrange(1, 4))]
    if c in ("ZSCORE", "ZRANK", "ZREVRANK"):
        return [c.encode(), zk(), mem()]
    if c == "ZCARD":
        return [b"ZCARD", zk()]
    if c in ("ZRANGE", "ZREVRANGE"):
        a = [c.encode(), zk(), index(rng), index(rng)]
        if rng.random() < 0.5:
            a.append(rng.choice([b"WITHSCORES", b"withscores"]))
        return a
    if c in ("ZRANGEBYSCORE", "ZREVRANGEBYSCORE"):
        a = [c.encode(), zk(), score(rng, 0.04), score(rng, 0.04)]
        if rng.random() < 0.5:
            a.append(b"WITHSCORES")
        return a
    if c == "ZCOUNT":
        return [b"ZCOUNT", zk(), score(rng, 0.04), score(rng, 0.04)]
    if c in ("ZPOPMIN", "ZPOPMAX"):
        a = [c.encode(), zk()]
        if rng.random() < 0.5:
            a.append(rng.choice([b"0", b"1", b"2", b"3", b"100"] + BAD_INTS[:2]))
        return a
    if c == "TYPE":
        return [b"TYPE", key(rng)]
    if c == "DEL":
        return [b"DEL", key(rng)]
    name = rng.choice([b"ZADD", b"ZREM", b"ZSCORE", b"ZCARD", b"ZRANK", b"ZRANGE", b"ZRANGEBYSCORE", b"ZCOUNT",
                       b"ZINCRBY", b"ZPOPMIN"])
    n = rng.choice([0, 1, 6])
    return [name] + [key(rng) for _ in range(n)]


# --------------------------------------------------------------------------- C15 streams
U64 = (1 << 64) - 1
SKEYS = [b"s1", b"s2", b"k1", b"\x00\xffbin"]
SFIELDS = [b"f", b"g", b"", b"\x00", b"field with space", b"cr\r\n"]


def _stream_ids(m, db, k):
    e = m.get(db, k)
    if e is None or e.t != "stream":
        return [], (0, 0)
    return e.v.ids(), e.v.last


def _fmt(i):
    return b"%d-%d" % i


def _id_near(rng, ids, last):
    """An ID placed below / on / between / above the stored ones."""
    pool = [(0, 0), (0, 1), (1, 0), last, (last[0], min(U64, last[1] + 1)), (min(U64, last[0] + 1), 0),
            (U64, U64), (U64, 0), (last[0], U64)]
    if ids:
        i = rng.choice(ids)
        pool += [i, i, (i[0], max(0, i[1] - 1)), (i[0], min(U64, i[1] + 1)), (max(0, i[0] - 1), U64), ids[0], ids[-1]]
    return rng.choice(pool)


def gen_stream_cmd(rng, m, db):
    c = rng.choice(["XADD*", "XADD*", "XADD", "XADD", "XADD", "XLEN", "XRANGE", "XRANGE", "XREVRANGE", "XREVRANGE",
                    "XREAD", "XREAD", "XDEL", "XDEL", "XTRIM", "TYPE", "DEL", "ARITY", "BADID"])
    sk = lambda: key(rng, m, db, "stream", 0.0) if rng.random() < 0.12 else rng.choice(SKEYS[:2] if rng.random() < 0.85 else SKEYS)
    k = sk()
    ids, last = _stream_ids(m, db, k)

    def fields():
        fs = rng.sample(SFIELDS, rng.randrange(1, 4))
        out = []
        for f in fs:
            out += [f, value(rng) if rng.random() < 0.3 else b"v%d" % rng.randrange(1000)]
        return out
    if c == "XADD*":
        return [b"XADD", k, b"*"] + fields()
    if c == "XADD":
        r = rng.random()
        if r < 0.45:
            nid = (last[0], last[1] + 1) if last[1] < U64 and rng.random() < 0.5 else (min(U64, last[0] + rng.choice([1, 1, 2, 10])), rng.choice([0, 0, 1, 5]))
        elif r < 0.55:
            nid = last                                   # equal
        elif r < 0.7:
            nid = _id_near(rng, ids, last)               # anywhere
        elif r < 0.78:
            import time as _t
            nid = (int(_t.time() * 1000) + rng.choice([10 ** 6, 10 ** 9]), 0)   # ahead of the wall clock
        elif r < 0.84:
            nid = (last[0] + 1 if last[0] < U64 else U64, U64)                  # sequence edge
        elif r < 0.88:
            nid = (U64, rng.choice([0, U64 - 1, U64]))                          # top of the ID space
        else:
            nid = (0, 0) if rng.random() < 0.3 else (0, rng.randrange(1, 3))
        a = [b"XADD", k, _fmt(nid)] + fields()
        if rng.random() < 0.03:
            a.append(b"dangling")
        return a
    if c == "XLEN":
        return [b"XLEN", k]
    if c in ("XRANGE", "XREVRANGE"):
        lo = b"-" if rng.random() < 0.3 else _fmt(_id_near(rng, ids, last))
        hi = b"+" if rng.random() < 0.3 else _fmt(_id_near(rng, ids, last))
        a = [c.encode(), k] + ([lo, hi] if c == "XRANGE" else [hi, lo])
        if rng.random() < 0.15 and a[2] not in (b"-", b"+") and a[3] not in (b"-", b"+"):
            a[2], a[3] = a[3], a[2]                      # reversed bounds
        if rng.random() < 0.4:
            a += [rng.choice([b"COUNT", b"count"]), rng.choice([b"1", b"2", b"3", b"10", b"1000"])]
        return a
    if c == "XREAD":
        a = [b"XREAD"]
        if rng.random() < 0.4:
            a += [b"COUNT", rng.choice([b"1", b"2", b"5", b"100"])]
        nk = rng.choice([1, 1, 2])
        ks = [sk() for _ in range(nk)]
        a.append(b"STREAMS")
        a += ks
        for kk in ks:
            i2, l2 = _stream_ids(m, db, kk)
            a.append(b"$" if rng.random() < 0.1 else _fmt(_id_near(rng, i2, l2)))
        return a
    if c == "XDEL":
        n = rng.randrange(1, 4)
        return [b"XDEL", k] + [_fmt(_id_near(rng, ids, last)) for _ in range(n)]
    if c == "XTRIM":
        n = rng.choice([0, 1, 2, max(0, len(ids) - 1), len(ids), len(ids) + 1, 1000])
        a = [b"XTRIM", k, b"MAXLEN"]
        r = rng.random()
        if r < 0.3:
            a.append(b"~")
        elif r < 0.5:
            a.append(b"=")
        a.append(b"%d" % n)
        return a
    if c == "TYPE":
        return [b"TYPE", k]
    if c == "DEL":
        return [b"DEL", k] if rng.random() < 0.3 else [b"XLEN", k]
    if c == "BADID":
        # not IDs at all, and numbers one past the 64-bit range of either half (a parser that wraps
        # turns them into small valid IDs: an entry stored under another ID, a bound somewhere else)
        bad = rng.choice([b"abc", b"1-2-3", b"1.5-0", b"x-1", b"1-x", b"1_0",
                          b"18446744073709551616-0", b"18446744073709551617-1", b"5-18446744073709551616",
                          b"18446744073709551621-0", b"99999999999999999999999-1", b"36893488147419103237-3"])
        which = rng.choice(["XADD", "XRANGE", "XRANGE-hi", "XREVRANGE", "XREAD", "XDEL"])
        if which == "XADD":
            return [b"XADD", k, bad, b"f", b"v"]
        if which == "XRANGE":
            return [b"XRANGE", k, bad, b"+"]
        if which == "XRANGE-hi":
            return [b"XRANGE", k, b"-", bad]
        if which == "XREVRANGE":
            return [b"XREVRANGE", k, bad, b"-"]
        if which == "XREAD":
            return [b"XREAD", b"STREAMS", k, bad]
        return [b"XDEL", k, bad]
    name = rng.choice([b"XADD", b"XLEN", b"XRANGE", b"XREVRANGE", b"XDEL", b"XTRIM", b"XREAD"])
    return [name] + [k for _ in range(rng.choice([0, 1, 2]))]


# --------------------------------------------------------------------------- C16 consumer groups
GKEYS = [b"s1", b"s2"]
GROUPS = [b"g1", b"g2", b"g3"]
CONSUMERS = [b"alice", b"bob", b"carol", b"dave"]


def gen_group_cmd(rng, m, db):
    k = rng.choice(GKEYS) if rng.random() < 0.93 else rng.choice([b"k1", b"nostream"])
    e = m.get(db, k)
    st = e.v if e is not None and e.t == "stream" else None
    ids, last = _stream_ids(m, db, k)
    groups = list(st.groups) if st else []
    g = rng.choice(groups) if groups and rng.random() < 0.9 else rng.choice(GROUPS)
    grp = st.groups.get(g) if st else None
    cons = rng.choice(CONSUMERS)
    pend = sorted(grp.pending) if grp else []
    c = rng.choice(["XADD", "XADD", "XADD", "XDEL", "CREATE", "CREATE", "DESTROY", "SETID", "CREATECONSUMER", "DELCONSUMER",
                    "READ", "READ", "READ", "READ", "READ", "ACK", "ACK", "ACK", "CLAIM", "CLAIM", "PENDING", "PENDING", "PENDINGX",
                    "PENDINGX", "INFOG", "INFOC", "XLEN", "XTRIM"])
    if c == "XADD":
        if rng.random() < 0.3:
            return [b"XADD", k, b"*", b"f", b"v%d" % rng.randrange(1000)]
        nid = (last[0] + rng.choice([0, 1, 2]), 0)
        if nid <= last:
            nid = (last[0], last[1] + 1)
        return [b"XADD", k, _fmt(nid), b"f", b"v%d" % rng.randrange(1000)]
    if c == "XDEL":
        # entries that are not pending (claiming / re-reading deleted pending entries is a don't-care)
        allp = set()
        if st:
            for gg in st.groups.values():
                allp |= set(gg.pending)
        cands = [i for i in ids if i not in allp]
        if not cands:
            return [b"XLEN", k]
        return [b"XDEL", k, _fmt(rng.choice(cands))]
    if c == "XTRIM":
        return [b"XLEN", k]
    if c == "CREATE":
        if st is None and rng.random() < 0.5:
            return [b"XGROUP", b"CREATE", k, g, rng.choice([b"$", b"0", b"0-0"]), b"MKSTREAM"]
        idb = rng.choice([b"$", b"$", b"0", b"0-0", _fmt(_id_near(rng, ids, last))])
        a = [b"XGROUP", b"CREATE", k, rng.choice(GROUPS), idb]
        if rng.random() < 0.2:
            a.append(b"MKSTREAM")
        return a
    if c == "DESTROY":
        if st is None:
            return [b"XLEN", k]
        return [b"XGROUP", b"DESTROY", k, g]
    if c == "SETID":
        return [b"XGROUP", b"SETID", k, g, rng.choice([b"$", b"0-0", _fmt(_id_near(rng, ids, last))])]
    if c == "CREATECONSUMER":
        return [b"XGROUP", b"CREATECONSUMER", k, g, cons]
    if c == "DELCONSUMER":
        return [b"XGROUP", b"DELCONSUMER", k, g, cons]
    if c == "READ":
        if st is None:
            return [b"XLEN", k]       # XREADGROUP on a missing key is not generated (statement silent)
        a = [b"XREADGROUP", b"GROUP", g, cons]
        if rng.random() < 0.6:
            a += [b"COUNT", rng.choice([b"1", b"1", b"2", b"3", b"100"])]
        if rng.random() < 0.25:
            a.append(b"NOACK")
        if rng.random() < 0.2:
            # history read (paged with COUNT): re-reads this consumer's own pending entries, moves nothing
            return a + [b"STREAMS", k, rng.choice([b"0", b"0-0", _fmt(_id_near(rng, pend or ids, last))])]
        return a + [b"STREAMS", k, b">"]
    if c == "ACK":
        n = rng.randrange(1, 4)
        pool = pend + pend + ids + [(0, 1), (U64, 0)]
        if not pool:
            pool = [(0, 1)]
        chosen = []
        for _ in range(n):
            i = rng.choice(pool)
            if i not in chosen or rng.random() < 0.4:      # the same ID may be named twice in one call
                chosen.append(i)
        return [b"XACK", k, g] + [_fmt(i) for i in chosen]
    if c == "CLAIM":
        if st is None:
            return [b"XLEN", k]
        pool = [i for i in (pend + pend + ids) if i in st.entries] or [(0, 1)]
        chosen = []
        for _ in range(rng.randrange(1, 4)):
            i = rng.choice(pool + [(0, 1)])
            if i not in chosen:
                chosen.append(i)
        a = [b"XCLAIM", k, g, cons, rng.choice([b"0", b"0", b"0", b"1000000000"])] + [_fmt(i) for i in chosen]
        if rng.random() < 0.3 and all(i in pend for i in chosen):
            a.append(b"FORCE")
        if rng.random() < 0.3:
            a.append(b"JUSTID")
        return a
    if c == "PENDING":
        return [b"XPENDING", k, g]
    if c == "PENDINGX":
        lo = b"-" if rng.random() < 0.6 else _fmt(_id_near(rng, pend or ids, last))
        hi = b"+" if rng.random() < 0.6 else _fmt(_id_near(rng, pend or ids, last))
        a = [b"XPENDING", k, g, lo, hi, rng.choice([b"1", b"2", b"10", b"100"])]
        if rng.random() < 0.4:
            a.append(cons)
        return a
    if c == "INFOG":
        return [b"XINFO", b"GROUPS", k]
    if c == "INFOC":
        return [b"XINFO", b"CONSUMERS", k, g]
    return [b"XLEN", k]

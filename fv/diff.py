"""History driver: sends generated commands to a private server, compares every
reply with the reference model, probes touched keys after refused commands and
compares canonical dumps at quiescent points."""
import time

from . import resp
from .resp import Err, Status, NULL_ARRAY, Closed, Timeout
from .model import Model, matches, rclass, ERR, parse_score_reply
from .model_stream import parse_id


class Abandon(Exception):
    """The current history cannot be continued (divergence recorded)."""


def server_key_snapshot(c, key):
    """Canonical (type, value, has_ttl) of a key read through the server's own
    read commands."""
    t = c.cmd("TYPE", key)
    if not isinstance(t, Status):
        return ("?type", t, False)
    tn = t.s.decode()
    if tn == "none":
        v = None
    elif tn == "string":
        v = c.cmd("GET", key)
    elif tn == "list":
        v = c.cmd("LRANGE", key, 0, -1)
    elif tn == "set":
        r = c.cmd("SMEMBERS", key)
        v = sorted(r) if isinstance(r, list) and all(isinstance(x, bytes) for x in r) else ("?", r)
    elif tn == "hash":
        r = c.cmd("HGETALL", key)
        if isinstance(r, list) and len(r) % 2 == 0:
            v = sorted((r[i], r[i + 1]) for i in range(0, len(r), 2))
        else:
            v = ("?", r)
    elif tn == "zset":
        r = c.cmd("ZRANGE", key, 0, -1, "WITHSCORES")
        if isinstance(r, list) and len(r) % 2 == 0:
            v = [(r[i], parse_score_reply(r[i + 1])) for i in range(0, len(r), 2)]
        else:
            v = ("?", r)
    elif tn == "stream":
        r = c.cmd("XRANGE", key, "-", "+")
        v = []
        if isinstance(r, list):
            for ent in r:
                try:
                    i = parse_id(ent[0])
                    f = ent[1]
                    v.append((i, sorted((f[j], f[j + 1]) for j in range(0, len(f), 2))))
                except Exception:
                    v = ("?", r)
                    break
        else:
            v = ("?", r)
    else:
        v = ("?unknown type", tn)
    p = c.cmd("PTTL", key)
    has_ttl = isinstance(p, int) and p >= 0
    if isinstance(p, int) and p == -2 and tn != "none":
        has_ttl = "pttl=-2 on an existing key"
    return (tn, v, has_ttl)


def snap_equal(ms, ss):
    """Model snapshot vs server snapshot (zset scores as floats)."""
    if ms[0] != ss[0] or ms[2] != ss[2]:
        return False
    if ms[0] == "zset":
        a, b = ms[1], ss[1]
        if not isinstance(b, list) or len(a) != len(b):
            return False
        return all(x[0] == y[0] and x[1] == y[1] for x, y in zip(a, b))
    return ms[1] == ss[1]


def snap_field(ms, ss):
    if ms[0] != ss[0]:
        return "exists" if "none" in (ms[0], ss[0]) else "type"
    if ms[2] != ss[2]:
        return "ttl"
    return "value"


class Differ:
    """One connection, one model, one history at a time."""

    def __init__(self, srv, result, prop, known, ndb=16, timeout=10.0):
        self.srv = srv
        self.res = result
        self.prop = prop
        self.known = known
        self.timeout = timeout
        self.model = Model(ndb)
        self.db = 0
        self.c = None
        self.history = []
        self.connect()

    def connect(self):
        if self.c is not None:
            self.c.close()
        self.c = self.srv.client(timeout=self.timeout)
        if self.db != 0:
            self.c.cmd("SELECT", self.db)

    def recover(self):
        """After a connection-level failure: restart the server if it died,
        reconnect. Returns a description of what happened."""
        died = not self.srv.alive()
        what = ""
        if died:
            what = " (server exited %s)\n%s" % (self.srv.exit_status(), self.srv.stderr_tail(1500))
            self.srv.restart()
            self.model = Model(len(self.model.dbs))
            self.db = 0
        for _ in range(3):
            try:
                self.connect()
                break
            except OSError:
                time.sleep(0.2)
                if not self.srv.alive():
                    self.srv.restart()
        return died, what

    def reset(self):
        """Fresh history: empty server and model."""
        try:
            if self.c.closed or not self.srv.alive():
                self.recover()
            r = self.c.cmd("FLUSHALL")
        except (Closed, Timeout, OSError):
            self.recover()
            r = self.c.cmd("FLUSHALL")
        if r != resp.OK:
            # the connection is in a state the last history left it in (inside MULTI, subscribed, ...): start over
            self.connect()
            r = self.c.cmd("FLUSHALL")
        if r != resp.OK:
            raise RuntimeError("FLUSHALL failed: %r" % (r,))
        self.model = Model(len(self.model.dbs))
        self.history = []
        if self.db != 0:
            self.db = 0
            self.c.cmd("SELECT", 0)

    # ------------------------------------------------------------------ reporting
    def _replay(self, extra=None):
        d = {"history": [[resp.jsonable(x) for x in argv] for argv in self.history[-400:]],
             "history_len": len(self.history)}
        if extra:
            d.update(extra)
        return d

    def diverge(self, sig, detail, extra=None):
        """Record a divergence: tolerated if listed as known, else a violation.
        Either way the history is abandoned (state may be polluted)."""
        if self.known.is_known(self.prop, sig):
            self.res.known_hit(sig)
        else:
            self.res.violation(sig, detail, self._replay(extra))
        raise Abandon(sig)

    # ------------------------------------------------------------------ one step
    def step_via_script(self, argv):
        """The same command through redis.call in a script: the EFFECT on the dataset must be the one the
        model computes for the direct command (the reply conversion is C12's subject: here only 'error or
        not' and, for plain integer / bulk replies, the value). Returns False when the command is not
        suitable for this path (the caller then sends it directly)."""
        from .model import Unordered, OneOf, Score, IntRange, Pairs, Adopt, Any
        argv = [resp.tob(a) for a in argv]
        name = argv[0].upper().decode("latin1")
        if name in ("SELECT", "BLPOP", "BRPOP", "SPOP", "SRANDMEMBER", "RANDOMKEY", "FLUSHALL", "KEYS", "SCAN", "MULTI", "EXEC", "WATCH"):
            return False
        import copy
        backup = copy.deepcopy(self.model)
        exp = self.model.apply(self.db, argv)

        def has_matcher(x):
            if isinstance(x, (Unordered, OneOf, Score, IntRange, Pairs, Adopt, Any)):
                return True
            if isinstance(x, (list, tuple)):
                return any(has_matcher(y) for y in x)
            return False
        if isinstance(exp, Adopt) or (has_matcher(exp) and not isinstance(exp, (Unordered, OneOf, Score))):
            self.model = backup          # the model needs the direct reply to go on: not for this path
            return False
        self.history.append([b"<via script>"] + argv)
        self.res.evaluations += 1
        try:
            act = self.c.cmd(b"EVAL", b"return redis.pcall(unpack(ARGV))", b"0", *argv)
        except (Closed, Timeout, resp.ProtocolError) as e:
            time.sleep(0.05)
            died, what = self.recover()
            self.diverge("script/%s/%s" % (name, "server-died" if died else type(e).__name__.lower()),
                         "redis.pcall%s: connection %s%s" % (resp.show(argv), type(e).__name__, what))
        self.res.cell("via-script", name, rclass(act))
        if isinstance(exp, Err) != isinstance(act, Err):
            self.diverge("script/%s/%s->%s" % (name, rclass(exp), rclass(act)),
                         "redis.pcall%s -> %s, the direct command would give %r" % (resp.show(argv), resp.show(act), exp))
        # (a script sees numbers as doubles: integers beyond 2^53 do not survive the trip in any Redis either)
        if isinstance(exp, int) and not isinstance(exp, bool) and abs(exp) <= (1 << 53) and act != exp:
            self.diverge("script/%s/int->%s" % (name, rclass(act)), "redis.pcall%s -> %s, the direct command gives %r" % (resp.show(argv), resp.show(act), exp))
        self.probe_keys(argv[1:4], name + "-via-script")
        return True

    def step(self, argv, probe=None, cellinfo=True):
        """Send one command, compare with the model. probe: None = probe touched
        keys only when the model refused; True = always; False = never."""
        argv = [resp.tob(a) for a in argv]
        name = argv[0].upper().decode("latin1")
        pre = self.model.typeclass(self.db, argv[1]) if len(argv) > 1 else "-"
        if name in ("XGROUP", "XINFO") and len(argv) > 2:
            # sub-commands: the key is the third word
            name = "%s-%s" % (name, argv[1].upper().decode("latin1")[:16])
            pre = self.model.typeclass(self.db, argv[2])
        elif name == "XREADGROUP":
            pre = self.model.typeclass(self.db, argv[-2]) if len(argv) > 3 else "-"
            name += "-NOACK" if b"NOACK" in [x.upper() for x in argv] else ""
        elif name == "XCLAIM":
            name += "".join("-" + x.upper().decode() for x in argv if x.upper() in (b"FORCE", b"JUSTID"))
        elif name == "XPENDING" and len(argv) > 3:
            name += "-RANGE" + ("-CONSUMER" if len(argv) > 6 else "")
        exp = self.model.apply(self.db, argv)
        self.history.append(argv)
        self.res.evaluations += 1
        try:
            self.c.send(*argv)
            act = self.c.recv()
        except Closed:
            act = "closed"
        except Timeout:
            act = "timeout"
        except resp.ProtocolError as e:
            act = "garbled"
        if isinstance(act, str):
            if act == "closed":
                time.sleep(0.05)  # let a dying process finish dying
            died, what = self.recover()
            sig = "reply/%s/%s/%s->%s" % (name, pre, rclass(exp), "server-died" if died else act)
            detail = "command %s on %s key: expected %r, got %s%s" % (resp.show(argv), pre, exp, act, what)
            self.diverge(sig, detail)
        ok = matches(exp, act)
        if cellinfo:
            self.res.cell(name, pre, rclass(act))
        if not ok:
            sig = "reply/%s/%s/%s->%s" % (name, pre, rclass(exp), rclass(act))
            self.diverge(sig, "command %s on %s key: expected %r, got %s" % (
                resp.show(argv), pre, exp, resp.show(act)))
        refused = isinstance(exp, Err)
        if probe is True or (probe is None and refused):
            self.probe_keys(argv[1:4], name, pre)
        return act

    def probe_keys(self, cands, name="probe", pre="-"):
        seen = set()
        for k in cands:
            if k in seen:
                continue
            seen.add(k)
            ms = self.model.snapshot_key(self.db, k)
            try:
                ss = server_key_snapshot(self.c, k)
            except (Closed, Timeout) as e:
                time.sleep(0.05)
                died, what = self.recover()
                self.diverge("state/%s/%s/probe-%s" % (name, pre, "server-died" if died else type(e).__name__.lower()),
                             "probing key %r after %s: connection %s%s" % (k, resp.show(self.history[-1]) if self.history else name, type(e).__name__, what))
            self.res.count("probes")
            if not snap_equal(ms, ss):
                self.diverge("state/%s/%s/%s" % (name, pre, snap_field(ms, ss)),
                             "after %s the key %s is %s but the model says %s" % (
                                 resp.show(self.history[-1]) if self.history else name, resp.show(k),
                                 resp.show(list(ss)), resp.show(list(ms))))

    def full_compare(self, dbs=None):
        """Canonical dump of the server vs the model (all selected DBs)."""
        dbs = range(len(self.model.dbs)) if dbs is None else dbs
        cur = self.db
        try:
            for d in dbs:
                md = self.model.dbs[d]
                if d != self.db:
                    # avoid SELECT traffic for empty DBs on both sides when possible
                    pass
                if self.c.cmd("SELECT", d) != resp.OK:
                    raise RuntimeError("SELECT %d failed" % d)
                self.db = d
                keys = self.c.cmd("KEYS", "*")
                if not isinstance(keys, list):
                    self.diverge("state/dump/-/keys", "KEYS * in db %d returned %s" % (d, resp.show(keys)))
                if sorted(keys) != sorted(md.keys()):
                    extra = sorted(set(keys) - set(md))[:5]
                    missing = sorted(set(md) - set(keys))[:5]
                    dup = len(keys) != len(set(keys))
                    kinds = []
                    for k in extra:
                        kinds.append("extra")
                    for k in missing:
                        kinds.append("missing:" + md[k].t)
                    self.diverge("state/dump/-/keyset",
                                 "db %d key set differs: server-only %s, model-only %s%s" % (
                                     d, resp.show(extra), resp.show(missing), " (duplicates)" if dup else ""))
                n = self.c.cmd("DBSIZE")
                if n != len(md):
                    self.diverge("state/dump/-/dbsize", "db %d DBSIZE %r but %d keys" % (d, n, len(md)))
                for k in md:
                    ms = self.model.snapshot_key(d, k)
                    ss = server_key_snapshot(self.c, k)
                    if not snap_equal(ms, ss):
                        self.diverge("state/dump/%s/%s" % (ms[0], snap_field(ms, ss)),
                                     "db %d key %s is %s but the model says %s" % (
                                         d, resp.show(k), resp.show(list(ss)), resp.show(list(ms))))
            self.res.count("dumps")
        finally:
            if self.db != cur:
                try:
                    self.c.cmd("SELECT", cur)
                except Exception:
                    pass
                self.db = cur

    def verif_check(self, tag="check"):
        r = self.c.cmd("VERIF", "CHECK")
        self.res.count("invariant_walks")
        if isinstance(r, list) and r:
            first = r[0].decode("latin1") if isinstance(r[0], bytes) else repr(r[0])
            walker = first.split(" ", 1)[0]
            what = first.split(" db=")[0]
            import re
            what = re.sub(r"[0-9]+", "N", what)
            what = re.sub(r"\[[^\]]*\]|\"[^\"]*\"", "_", what)[:80].replace(" ", "_")
            self.diverge("invariant/%s/%s" % (walker, what),
                         "VERIF CHECK reports: %s" % "; ".join(resp.show(x, 200) for x in r[:5]))
        elif not isinstance(r, list):
            raise RuntimeError("VERIF CHECK unavailable: %r" % (r,))

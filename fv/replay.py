"""./check replay <file> — re-run a recorded violation.

A replay file (replays/<prop>-<hash>.json) carries the property, the violation
signature, the seed/tier of the run and, when the violation came from a
lock-step model differential, the tail of the command history.

 * with a complete single-connection history: the history is sent again to a
   fresh hooks-on child built from /repo's current tree, next to a fresh model;
   exit 1 if a divergence shows up again, 0 if not.
 * otherwise (timed, multi-connection, fault-injection histories, or a history
   tail that was cut): the owning check is re-run with the recorded seed and
   tier — all workloads are derived from the seed — and the replay succeeds when
   the same signature is reported again.
"""
import json
import os
import subprocess
import sys

from . import resp, server, util
from .diff import Abandon, Differ


def _replay_history(rec):
    prop = rec["property"]
    hist = rec["replay"]["history"]
    res = util.Result()
    known = util.Known()
    binary, _ = server.build("dev")
    with server.Server(binary) as srv:
        d = Differ(srv, res, prop, known)
        try:
            for argv in hist:
                argv = [resp.unjson(x) for x in argv]
                print("> " + resp.show(argv, 60))
                d.step(argv, probe=True)
            d.full_compare()
            d.verif_check("replay-end")
        except Abandon:
            pass
    for v in res.violations:
        print("VIOLATION property=%s replay=%s" % (prop, rec["_path"]))
        print("  sig=%s" % v["sig"])
        print("  " + str(v["detail"])[:1500].replace("\n", "\n  "))
    if res.known_hits:
        print("only known findings reproduced: %s" % sorted(res.known_hits))
    if not res.violations:
        print("replay: no divergence on the current tree (recorded sig=%s)" % rec["sig"])
    return 1 if res.violations else 0


def main(path):
    rec = json.load(open(path))
    rec["_path"] = os.path.abspath(path)
    print("property=%s sig=%s seed=%s tier=%s occurrences=%s" % (
        rec.get("property"), rec.get("sig"), rec.get("seed"), rec.get("tier"), rec.get("occurrences")))
    print(str(rec.get("detail"))[:3000])
    rp = rec.get("replay")
    if isinstance(rp, dict) and isinstance(rp.get("history"), list) and \
            rp.get("history_len", len(rp["history"])) == len(rp["history"]) and not rp.get("multi"):
        return _replay_history(rec)
    env = dict(os.environ, VERIF_SEED=str(rec.get("seed", 1)))
    p = subprocess.run([sys.executable, "-m", "fv.main", rec["property"], rec.get("tier", "quick")],
                       cwd=util.VERIF, env=env, capture_output=True, text=True)
    out = p.stdout
    hit = ("sig=%s " % rec["sig"]) in out or ("sig=%s\n" % rec["sig"]) in out
    print(out[-4000:])
    print("replay: re-ran %s %s with seed %s: signature %s" % (
        rec["property"], rec.get("tier"), rec.get("seed"), "REPRODUCED" if hit else "not reproduced"))
    return 1 if hit else 0

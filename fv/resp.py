"""Independent RESP codec + blocking client used by every E1 monitor.

Reply values:
  bytes            bulk string
  int              integer
  None             null bulk string ($-1) or RESP3 null
  NullArray        null array (*-1)   (singleton NULL_ARRAY)
  list             array
  Status(b)        simple string
  Err(b)           error
  float/bool/dict  RESP3 extras (only seen if the server emits them)
"""
import socket
import time
import select


class Status:
    __slots__ = ("s",)

    def __init__(self, s):
        self.s = s if isinstance(s, bytes) else s.encode()

    def __eq__(self, o):
        return isinstance(o, Status) and o.s == self.s

    def __hash__(self):
        return hash(("st", self.s))

    def __repr__(self):
        return "+%s" % self.s.decode("latin1")


class Err:
    __slots__ = ("s",)

    def __init__(self, s=b"ERR"):
        self.s = s if isinstance(s, bytes) else s.encode()

    def __eq__(self, o):
        return isinstance(o, Err)  # wording is never compared

    def __hash__(self):
        return hash("err")

    def __repr__(self):
        return "-%s" % self.s.decode("latin1")


class _NullArray:
    def __repr__(self):
        return "*-1"


NULL_ARRAY = _NullArray()
OK = Status(b"OK")
QUEUED = Status(b"QUEUED")
PONG = Status(b"PONG")


class ProtocolError(Exception):
    pass


class Closed(Exception):
    pass


class Timeout(Exception):
    pass


def tob(x):
    if isinstance(x, bytes):
        return x
    if isinstance(x, str):
        return x.encode()
    if isinstance(x, bool):
        return b"1" if x else b"0"
    if isinstance(x, int):
        return b"%d" % x
    if isinstance(x, float):
        return repr(x).encode()
    raise TypeError(type(x))


def encode(argv):
    out = [b"*%d\r\n" % len(argv)]
    for a in argv:
        a = tob(a)
        out.append(b"$%d\r\n" % len(a))
        out.append(a)
        out.append(b"\r\n")
    return b"".join(out)


class Incomplete(Exception):
    pass


def _line(buf, pos):
    i = buf.find(b"\r\n", pos)
    if i < 0:
        raise Incomplete()
    return buf[pos:i], i + 2


def parse(buf, pos=0, depth=0):
    """Parse one reply from buf at pos -> (value, newpos). Raises Incomplete /
    ProtocolError."""
    if pos >= len(buf):
        raise Incomplete()
    if depth > 64:
        raise ProtocolError("nesting too deep")
    t = buf[pos:pos + 1]
    line, p = _line(buf, pos + 1)
    if t == b"+":
        return Status(bytes(line)), p
    if t == b"-":
        return Err(bytes(line)), p
    if t == b":":
        try:
            return int(line), p
        except ValueError:
            raise ProtocolError("bad integer %r" % bytes(line))
    if t == b"$":
        try:
            n = int(line)
        except ValueError:
            raise ProtocolError("bad bulk length %r" % bytes(line))
        if n == -1:
            return None, p
        if n < 0:
            raise ProtocolError("negative bulk length")
        if len(buf) < p + n + 2:
            raise Incomplete()
        if buf[p + n:p + n + 2] != b"\r\n":
            raise ProtocolError("bulk not terminated by CRLF")
        return bytes(buf[p:p + n]), p + n + 2
    if t in (b"*", b"~", b">"):
        try:
            n = int(line)
        except ValueError:
            raise ProtocolError("bad array length %r" % bytes(line))
        if n == -1:
            return NULL_ARRAY, p
        if n < 0:
            raise ProtocolError("negative array length")
        out = []
        for _ in range(n):
            v, p = parse(buf, p, depth + 1)
            out.append(v)
        return out, p
    if t == b"%":
        n = int(line)
        out = []
        for _ in range(2 * n):
            v, p = parse(buf, p, depth + 1)
            out.append(v)
        return out, p
    if t == b"_":
        return None, p
    if t == b"#":
        return (1 if line == b"t" else 0), p
    if t == b",":
        return float(line), p
    if t == b"(":
        return int(line), p
    raise ProtocolError("bad type byte %r" % bytes(t))


def parse_all(buf):
    """Parse as many complete replies as possible -> (values, consumed)."""
    out = []
    pos = 0
    while pos < len(buf):
        try:
            v, pos2 = parse(buf, pos)
        except Incomplete:
            break
        out.append(v)
        pos = pos2
    return out, pos


class Client:
    def __init__(self, port, host="127.0.0.1", timeout=10.0):
        self.port = port
        self.host = host
        self.timeout = timeout
        self.sock = socket.create_connection((host, port), timeout=timeout)
        self.sock.setsockopt(socket.IPPROTO_TCP, socket.TCP_NODELAY, 1)
        self.buf = bytearray()
        self.closed = False

    def close(self):
        try:
            self.sock.close()
        except OSError:
            pass
        self.closed = True

    def send_raw(self, data):
        try:
            self.sock.sendall(data)
        except (BrokenPipeError, ConnectionResetError, OSError) as e:
            self.closed = True
            raise Closed(str(e))

    def send(self, *argv):
        self.send_raw(encode(argv))

    def _fill(self, deadline):
        rem = deadline - time.monotonic()
        if rem <= 0:
            raise Timeout()
        r, _, _ = select.select([self.sock], [], [], rem)
        if not r:
            raise Timeout()
        try:
            d = self.sock.recv(1 << 16)
        except (ConnectionResetError, OSError) as e:
            self.closed = True
            raise Closed(str(e))
        if not d:
            self.closed = True
            raise Closed("EOF")
        self.buf += d

    def recv(self, timeout=None):
        """Receive exactly one reply."""
        deadline = time.monotonic() + (self.timeout if timeout is None else timeout)
        while True:
            try:
                v, pos = parse(self.buf, 0)
                del self.buf[:pos]
                return v
            except Incomplete:
                self._fill(deadline)

    def try_recv(self, wait=0.0):
        """Return one reply if one is (or becomes, within `wait`) available, else
        the sentinel NOTHING."""
        try:
            return self.recv(timeout=max(wait, 0.0001))
        except Timeout:
            return NOTHING

    def cmd(self, *argv, timeout=None):
        self.send(*argv)
        return self.recv(timeout)

    def pipeline(self, cmds, timeout=None):
        self.send_raw(b"".join(encode(c) for c in cmds))
        return [self.recv(timeout) for _ in cmds]

    def drain_raw(self, wait=0.05):
        """Read whatever bytes arrive within `wait` seconds (appended to buf)."""
        end = time.monotonic() + wait
        while True:
            rem = end - time.monotonic()
            if rem <= 0:
                break
            r, _, _ = select.select([self.sock], [], [], rem)
            if not r:
                break
            try:
                d = self.sock.recv(1 << 16)
            except OSError:
                self.closed = True
                break
            if not d:
                self.closed = True
                break
            self.buf += d
        return bytes(self.buf)


class _Nothing:
    def __repr__(self):
        return "<nothing>"


NOTHING = _Nothing()


def show(v, limit=60):
    """Compact printable form of a reply / argv for samples and replay files."""
    if isinstance(v, (bytes, bytearray)):
        b = bytes(v)
        if len(b) > limit:
            return "%r...(%d bytes)" % (b[:limit], len(b))
        return repr(b)
    if isinstance(v, (list, tuple)):
        if len(v) > 24:
            return "[" + ", ".join(show(x, limit) for x in v[:24]) + ", ...(%d items)]" % len(v)
        return "[" + ", ".join(show(x, limit) for x in v) + "]"
    return repr(v)


def jsonable(v):
    """Lossless JSON form (bytes as latin-1 strings under a tag)."""
    if isinstance(v, (bytes, bytearray)):
        return {"b": bytes(v).hex()}
    if isinstance(v, (list, tuple)):
        return [jsonable(x) for x in v]
    if isinstance(v, Status):
        return {"status": v.s.decode("latin1")}
    if isinstance(v, Err):
        return {"err": v.s.decode("latin1")}
    if v is NULL_ARRAY:
        return {"nullarray": True}
    if v is NOTHING:
        return {"nothing": True}
    if isinstance(v, float):
        return {"f": repr(v)}
    return v


def unjson(v):
    if isinstance(v, dict):
        if "b" in v:
            return bytes.fromhex(v["b"])
        if "status" in v:
            return Status(v["status"].encode("latin1"))
        if "err" in v:
            return Err(v["err"].encode("latin1"))
        if "nullarray" in v:
            return NULL_ARRAY
        if "nothing" in v:
            return NOTHING
        if "f" in v:
            return float(v["f"])
    if isinstance(v, list):
        return [unjson(x) for x in v]
    return v

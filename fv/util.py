"""Evidence files, known findings, violation reports, worker pool."""
import hashlib
import json
import multiprocessing
import os
import random
import sys
import time
import traceback

from . import resp

VERIF = os.path.dirname(os.path.dirname(os.path.abspath(__file__)))
EVIDENCE_DIR = os.path.join(VERIF, "evidence")
REPLAY_DIR = os.path.join(VERIF, "replays")
KNOWN_FILE = os.path.join(VERIF, "KNOWN_FINDINGS.txt")


def seed_from_env():
    try:
        return int(os.environ.get("VERIF_SEED", "1"))
    except ValueError:
        return 1


def jobs():
    try:
        return max(1, min(16, int(os.environ.get("VERIF_JOBS", "16"))))
    except ValueError:
        return 16


class Known:
    """KNOWN_FINDINGS.txt — read-only at run time.
    known: property=C02 sig=<signature> | <what fails>
    fixed: property=C05 <commit> <what failed>
    """

    def __init__(self, path=KNOWN_FILE):
        self.known = {}  # (prop, sig) -> text
        self.fixed = []
        if os.path.exists(path):
            for line in open(path, encoding="utf8"):
                line = line.strip()
                if line.startswith("known:"):
                    body = line[len("known:"):].strip()
                    parts = body.split("|", 1)
                    head = parts[0].split()
                    desc = parts[1].strip() if len(parts) > 1 else ""
                    prop = sig = None
                    for h in head:
                        if h.startswith("property="):
                            prop = h[9:]
                        elif h.startswith("sig="):
                            sig = h[4:]
                    if prop and sig:
                        self.known[(prop, sig)] = desc
                elif line.startswith("fixed:"):
                    self.fixed.append(line)

    def is_known(self, prop, sig):
        return (prop, sig) in self.known

    def for_prop(self, prop):
        return {s: d for (p, s), d in self.known.items() if p == prop}


_LIVE = []     # Results created by the worker call in progress (what they saw survives a harness exception)


class Result:
    """Accumulates what one check run observed; merged across workers."""

    def __init__(self):
        _LIVE.append(self)
        self.evaluations = 0
        self.cells = set()          # distinct non-trivial cells
        self.samples = []
        self.violations = []        # dicts: sig, detail, replay(obj)
        self.known_hits = {}        # sig -> count
        self.inconclusive = []      # strings
        self.extra = {}             # counters (summed) / sets (unioned)
        self.notes = []

    def cell(self, *parts):
        self.cells.add("/".join(str(p) for p in parts))

    def count(self, key, n=1):
        self.extra[key] = self.extra.get(key, 0) + n

    def setadd(self, key, val):
        self.extra.setdefault(key, set()).add(val)

    def sample(self, s, cap=6):
        if len(self.samples) < cap:
            self.samples.append(s)

    def violation(self, sig, detail, replay=None):
        self.violations.append({"sig": sig, "detail": detail, "replay": replay})

    def known_hit(self, sig):
        self.known_hits[sig] = self.known_hits.get(sig, 0) + 1

    def merge(self, o):
        self.evaluations += o.evaluations
        self.cells |= o.cells
        for s in o.samples:
            self.sample(s, cap=8)
        self.violations += o.violations
        for k, v in o.known_hits.items():
            self.known_hits[k] = self.known_hits.get(k, 0) + v
        self.inconclusive += o.inconclusive
        for k, v in o.extra.items():
            if isinstance(v, set):
                self.extra.setdefault(k, set()).update(v)
            elif isinstance(v, (int, float)):
                self.extra[k] = self.extra.get(k, 0) + v
            else:
                self.extra[k] = v
        self.notes += o.notes
        return self


def _worker_entry(args):
    fn, wseed, kwargs = args
    del _LIVE[:]
    try:
        return fn(wseed, **kwargs)
    except Exception:
        seen_so_far = list(_LIVE)
        r = Result()
        for part in seen_so_far:
            try:
                r.merge(part)       # what the worker had observed before the harness tripped is kept
            except Exception:
                pass
        tb = traceback.format_exc()
        # A harness exception is inconclusive - unless the reason is that a server child went
        # away by itself: that is an observation about the system under test, not about us.
        try:
            import time as _t
            from . import server as _server
            _t.sleep(0.3)
            for s in _server.REGISTRY[-4:]:
                if s.alive() and getattr(s, "_we_killed", None) != s.proc.pid:
                    s.settle(3.0)
            dead = [s for s in _server.REGISTRY if s.died_by_itself()]
            for s in dead[:2]:
                err = s.stderr_text()
                r.evaluations += 1
                r.cell("post-mortem", "server-died")
                r.cell("post-mortem", "harness-exception")
                r.violation("server-died/unhandled/" + _server.panic_signature(err[-6000:]),
                            "a server child exited %s by itself while the harness was talking to it (harness exception below)\n%s\n--- harness ---\n%s" % (
                                s.exit_status(), err[-1800:], tb[-800:]))
        except Exception:
            pass
        r.inconclusive.append("worker crashed (harness error): " + tb[-2500:])
        return r


def run_workers(fn, seeds, kwargs=None, nproc=None):
    """Run fn(seed, **kwargs) -> Result in a pool of processes; merge."""
    kwargs = kwargs or {}
    nproc = nproc or min(jobs(), len(seeds))
    total = Result()
    if nproc <= 1 or len(seeds) == 1:
        for s in seeds:
            total.merge(_worker_entry((fn, s, kwargs)))
        return total
    ctx = multiprocessing.get_context("fork")
    # pool workers leave through os._exit (no atexit): their scratch directories are made inside
    # this process's one, which is removed when this process ends
    from . import server as _server
    os.environ["VERIF_SCRATCH"] = _server.scratch_root()
    with ctx.Pool(nproc) as pool:
        for r in pool.imap_unordered(_worker_entry, [(fn, s, kwargs) for s in seeds]):
            total.merge(r)
    return total


def finish(prop, tier, seed, level, result, rule, t0, assumptions=None, known=None, min_cells=2,
           extra_cov=None):
    """Write evidence, print KNOWN-FINDING / VIOLATION lines, return exit code."""
    known = known or Known()
    os.makedirs(EVIDENCE_DIR, exist_ok=True)
    os.makedirs(REPLAY_DIR, exist_ok=True)
    unknown = []
    seen_known = {}
    for v in result.violations:
        if known.is_known(prop, v["sig"]):
            seen_known[v["sig"]] = seen_known.get(v["sig"], 0) + 1
        else:
            unknown.append(v)
    for sig, n in result.known_hits.items():
        seen_known[sig] = seen_known.get(sig, 0) + n
    for sig in sorted(seen_known):
        print("KNOWN-FINDING: property=%s sig=%s %s (observed %d times this run)" % (
            prop, sig, known.known.get((prop, sig), ""), seen_known[sig]))
    for sig in sorted(known.for_prop(prop)):
        if sig not in seen_known:
            print("NOT-REPRODUCED: property=%s sig=%s (listed as known, not observed in this run)" % (prop, sig))
    # de-duplicate unknown violations by signature for the report
    by_sig = {}
    for v in unknown:
        by_sig.setdefault(v["sig"], []).append(v)
    replay_paths = []
    for sig, vs in sorted(by_sig.items()):
        v = vs[0]
        h = hashlib.sha1((prop + sig).encode()).hexdigest()[:10]
        path = os.path.join(REPLAY_DIR, "%s-%s.json" % (prop, h))
        with open(path, "w") as f:
            json.dump({"property": prop, "sig": sig, "detail": v["detail"], "seed": seed, "tier": tier,
                       "occurrences": len(vs), "replay": v["replay"]}, f, indent=1, default=str)
        replay_paths.append(path)
        print("VIOLATION property=%s replay=%s" % (prop, path))
        print("  sig=%s occurrences=%d" % (sig, len(vs)))
        print("  " + str(v["detail"])[:1500].replace("\n", "\n  "))
    for s in result.inconclusive[:20]:
        print("INCONCLUSIVE: " + s[:3000])
    cov = {
        "evaluations": int(result.evaluations),
        "distinct_nontrivial": len(result.cells),
        "rule": rule,
        "samples": result.samples[:8] if result.samples else [],
        "cells_sample": sorted(result.cells)[:40],
        "known_findings_reproduced": seen_known,
        "inconclusive": len(result.inconclusive),
    }
    for k, v in result.extra.items():
        cov[k] = sorted(v)[:200] if isinstance(v, set) else v
        if isinstance(v, set):
            cov[k + "_count"] = len(v)
    if extra_cov:
        cov.update(extra_cov)
    ev = {
        "property_id": prop,
        "tier": tier,
        "seed": int(seed),
        "level": level,
        "coverage": cov,
        "assumptions": assumptions or [],
        "wall_s": round(time.time() - t0, 2),
        "violations": len(by_sig),
    }
    if not cov["samples"]:
        cov["samples"] = ["<no sample recorded>"]
    with open(os.path.join(EVIDENCE_DIR, prop + ".json"), "w") as f:
        json.dump(ev, f, indent=1, default=str)
    print("%s %s: evaluations=%d distinct_cells=%d violations=%d known=%d inconclusive=%d wall=%.1fs" % (
        prop, tier, result.evaluations, len(result.cells), len(by_sig), len(seen_known),
        len(result.inconclusive), time.time() - t0))
    if by_sig:
        return 1
    if result.evaluations == 0 or len(result.cells) < min_cells:
        print("INCONCLUSIVE: the run observed too little (evaluations=%d cells=%d)" % (
            result.evaluations, len(result.cells)))
        return 3
    if result.inconclusive and result.evaluations == 0:
        return 3
    return 0


def rng_for(seed, *salt):
    h = hashlib.sha256(("%d|" % seed + "|".join(str(s) for s in salt)).encode()).digest()
    return random.Random(int.from_bytes(h[:8], "big"))

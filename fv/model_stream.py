"""Reference model for streams and consumer groups (C15, C16)."""
from .resp import Status, Err, NULL_ARRAY, OK

U64 = (1 << 64) - 1


def parse_id(b):
    """Complete 'ms-seq' IDs only (the only explicit form generated)."""
    if not isinstance(b, bytes):
        return None
    parts = b.split(b"-")
    if len(parts) != 2:
        return None
    if not parts[0].isdigit() or not parts[1].isdigit():
        return None
    if not all(48 <= c <= 57 for c in parts[0] + parts[1]):
        return None
    ms, seq = int(parts[0]), int(parts[1])
    if ms > U64 or seq > U64:
        return None
    return (ms, seq)


def fmt_id(i):
    return b"%d-%d" % i


class Group:
    def __init__(self, last):
        self.last = last            # last-delivered id
        self.pending = {}           # id -> consumer
        self.consumers = set()


class StreamModel:
    def __init__(self):
        self.entries = {}           # id tuple -> dict(field->value)
        self.last = (0, 0)          # greatest ID ever added
        self.groups = {}            # name -> Group

    def ids(self):
        return sorted(self.entries)

    def snapshot(self):
        return [(i, sorted(self.entries[i].items())) for i in self.ids()]


def _entry_reply(i, fields):
    from .model import Pairs
    return [fmt_id(i), Pairs(fields)]


class StreamCommands:
    def __init__(self, model):
        self.m = model

    def _stream(self, db, key):
        e = self.m.dbs[db].get(key)
        if e is None:
            return None, False
        return e, e.t != "stream"

    # ------------------------------------------------------------------ XADD
    def c_XADD(self, db, a):
        from .model import ERR, Entry, Adopt
        if len(a) < 4 or (len(a) - 2) % 2:
            return ERR
        key, idb = a[0], a[1]
        fields = {}
        for i in range(2, len(a), 2):
            fields[a[i]] = a[i + 1]
        e, wt = self._stream(db, key)
        if wt:
            return ERR
        if idb == b"*":
            model = self.m
            last = e.v.last if e is not None else (0, 0)

            def fn(act):
                if isinstance(act, Err):
                    # refusing is admissible only when no greater ID exists
                    return last == (U64, U64)
                got = parse_id(act) if isinstance(act, bytes) else None
                if got is None or not got > last:
                    return False
                ent = model.dbs[db].get(key)
                if ent is None:
                    ent = Entry("stream", StreamModel())
                    model.dbs[db][key] = ent
                ent.v.entries[got] = fields
                ent.v.last = got
                return True
            return Adopt(fn, "an ID greater than %s" % (fmt_id(last).decode(),))
        nid = parse_id(idb)
        if nid is None:
            return ERR
        last = e.v.last if e is not None else (0, 0)
        if nid == (0, 0) or not nid > last:
            return ERR
        if e is None:
            e = Entry("stream", StreamModel())
            self.m.dbs[db][key] = e
        e.v.entries[nid] = fields
        e.v.last = nid
        return fmt_id(nid)

    def c_XLEN(self, db, a):
        from .model import ERR
        if len(a) != 1:
            return ERR
        e, wt = self._stream(db, a[0])
        if wt:
            return ERR
        return 0 if e is None else len(e.v.entries)

    @staticmethod
    def _bound(b, lo):
        if b == b"-":
            return (0, 0)
        if b == b"+":
            return (U64, U64)
        return parse_id(b)

    def _xrange(self, db, a, rev):
        from .model import ERR
        if len(a) not in (3, 5):
            return ERR
        cnt = None
        if len(a) == 5:
            if a[3].upper() != b"COUNT":
                return ERR
            from .model import parse_int
            cnt = parse_int(a[4])
            if cnt is None or cnt < 0:
                return ERR
        if rev:
            hi, lo = self._bound(a[1], False), self._bound(a[2], True)
        else:
            lo, hi = self._bound(a[1], True), self._bound(a[2], False)
        if lo is None or hi is None:
            return ERR
        e, wt = self._stream(db, a[0])
        if wt:
            return ERR
        if e is None:
            return []
        ids = [i for i in e.v.ids() if lo <= i <= hi]
        if rev:
            ids.reverse()
        if cnt is not None:
            ids = ids[:cnt]
        return [_entry_reply(i, e.v.entries[i]) for i in ids]

    def c_XRANGE(self, db, a):
        return self._xrange(db, a, False)

    def c_XREVRANGE(self, db, a):
        return self._xrange(db, a, True)

    def c_XDEL(self, db, a):
        from .model import ERR
        if len(a) < 2:
            return ERR
        ids = [parse_id(x) for x in a[1:]]
        if any(i is None for i in ids):
            return ERR
        e, wt = self._stream(db, a[0])
        if wt:
            return ERR
        if e is None:
            return 0
        n = 0
        for i in ids:
            if i in e.v.entries:
                del e.v.entries[i]
                n += 1
        return n

    def c_XTRIM(self, db, a):
        from .model import ERR, parse_int, Adopt
        if len(a) not in (3, 4) or a[1].upper() != b"MAXLEN":
            return ERR
        approx = False
        if len(a) == 4:
            if a[2] not in (b"~", b"="):
                return ERR
            approx = a[2] == b"~"
            n = parse_int(a[3])
        else:
            n = parse_int(a[2])
        if n is None or n < 0:
            return ERR
        e, wt = self._stream(db, a[0])
        if wt:
            return ERR
        if e is None:
            return 0
        ids = e.v.ids()
        exact = max(0, len(ids) - n)
        if not approx:
            for i in ids[:exact]:
                del e.v.entries[i]
            return exact

        def fn(act):
            if not isinstance(act, int) or isinstance(act, bool) or act < 0 or act > exact:
                return False
            for i in ids[:act]:
                del e.v.entries[i]
            return True
        return Adopt(fn, "between 0 and %d oldest entries trimmed" % exact)

    def c_XREAD(self, db, a):
        from .model import ERR, parse_int, OneOf
        cnt = None
        i = 0
        while i < len(a):
            o = a[i].upper()
            if o == b"COUNT" and i + 1 < len(a):
                cnt = parse_int(a[i + 1])
                if cnt is None or cnt < 0:
                    return ERR
                i += 2
            elif o == b"STREAMS":
                i += 1
                break
            else:
                return ERR
        else:
            return ERR
        rest = a[i:]
        if not rest or len(rest) % 2:
            return ERR
        nk = len(rest) // 2
        out = []
        for j in range(nk):
            key, idb = rest[j], rest[nk + j]
            e, wt = self._stream(db, key)
            if wt:
                return ERR
            if idb == b"$":
                continue
            after = parse_id(idb)
            if after is None:
                return ERR
            if e is None:
                continue
            ids = [x for x in e.v.ids() if x > after]
            if cnt is not None and cnt > 0:
                ids = ids[:cnt]
            if ids:
                out.append([key, [_entry_reply(x, e.v.entries[x]) for x in ids]])
        if not out:
            return OneOf([], NULL_ARRAY, None)
        return out

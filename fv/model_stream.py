"""Reference model for streams and consumer groups (C15, C16)."""
from .resp import Status, Err, NULL_ARRAY, OK

U64 = (1 << 64) - 1


def parse_id(b):
    """Complete 'ms-seq' IDs only (the only explicit form generated)."""
    if not isinstance(b, bytes):
        return None
    parts = b.split(b"-")
    if len(parts) != 2:
        return None
    if not parts[0].isdigit() or not parts[1].isdigit():
        return None
    if not all(48 <= c <= 57 for c in parts[0] + parts[1]):
        return None
    ms, seq = int(parts[0]), int(parts[1])
    if ms > U64 or seq > U64:
        return None
    return (ms, seq)


def fmt_id(i):
    return b"%d-%d" % i


class Group:
    def __init__(self, last):
        self.last = last            # last-delivered id
        self.pending = {}           # id -> consumer
        self.consumers = set()      # consumers that certainly exist (created explicitly or given entries)
        self.maybe = set()          # consumers named by a read / claim that got nothing: creation is a don't-care


class StreamModel:
    def __init__(self):
        self.entries = {}           # id tuple -> dict(field->value)
        self.last = (0, 0)          # greatest ID ever added
        self.groups = {}            # name -> Group

    def ids(self):
        return sorted(self.entries)

    def snapshot(self):
        return [(i, sorted(self.entries[i].items())) for i in self.ids()]


def _entry_reply(i, fields):
    from .model import Pairs
    return [fmt_id(i), Pairs(fields)]


class StreamCommands:
    def __init__(self, model):
        self.m = model

    def _stream(self, db, key):
        e = self.m.dbs[db].get(key)
        if e is None:
            return None, False
        return e, e.t != "stream"

    # ------------------------------------------------------------------ XADD
    def c_XADD(self, db, a):
        from .model import ERR, Entry, Adopt
        if len(a) < 4 or (len(a) - 2) % 2:
            return ERR
        key, idb = a[0], a[1]
        fields = {}
        for i in range(2, len(a), 2):
            fields[a[i]] = a[i + 1]
        e, wt = self._stream(db, key)
        if wt:
            return ERR
        if idb == b"*":
            model = self.m
            last = e.v.last if e is not None else (0, 0)

            def fn(act):
                if isinstance(act, Err):
                    # refusing is admissible only when no greater ID exists
                    return last == (U64, U64)
                got = parse_id(act) if isinstance(act, bytes) else None
                if got is None or not got > last:
                    return False
                ent = model.dbs[db].get(key)
                if ent is None:
                    ent = Entry("stream", StreamModel())
                    model.dbs[db][key] = ent
                ent.v.entries[got] = fields
                ent.v.last = got
                return True
            return Adopt(fn, "an ID greater than %s" % (fmt_id(last).decode(),))
        nid = parse_id(idb)
        if nid is None:
            return ERR
        last = e.v.last if e is not None else (0, 0)
        if nid == (0, 0) or not nid > last:
            return ERR
        if e is None:
            e = Entry("stream", StreamModel())
            self.m.dbs[db][key] = e
        e.v.entries[nid] = fields
        e.v.last = nid
        return fmt_id(nid)

    def c_XLEN(self, db, a):
        from .model import ERR
        if len(a) != 1:
            return ERR
        e, wt = self._stream(db, a[0])
        if wt:
            return ERR
        return 0 if e is None else len(e.v.entries)

    @staticmethod
    def _bound(b, lo):
        if b == b"-":
            return (0, 0)
        if b == b"+":
            return (U64, U64)
        return parse_id(b)

    def _xrange(self, db, a, rev):
        from .model import ERR
        if len(a) not in (3, 5):
            return ERR
        cnt = None
        if len(a) == 5:
            if a[3].upper() != b"COUNT":
                return ERR
            from .model import parse_int
            cnt = parse_int(a[4])
            if cnt is None or cnt < 0:
                return ERR
        if rev:
            hi, lo = self._bound(a[1], False), self._bound(a[2], True)
        else:
            lo, hi = self._bound(a[1], True), self._bound(a[2], False)
        if lo is None or hi is None:
            return ERR
        e, wt = self._stream(db, a[0])
        if wt:
            return ERR
        if e is None:
            return []
        ids = [i for i in e.v.ids() if lo <= i <= hi]
        if rev:
            ids.reverse()
        if cnt is not None:
            ids = ids[:cnt]
        return [_entry_reply(i, e.v.entries[i]) for i in ids]

    def c_XRANGE(self, db, a):
        return self._xrange(db, a, False)

    def c_XREVRANGE(self, db, a):
        return self._xrange(db, a, True)

    def c_XDEL(self, db, a):
        from .model import ERR
        if len(a) < 2:
            return ERR
        ids = [parse_id(x) for x in a[1:]]
        if any(i is None for i in ids):
            return ERR
        e, wt = self._stream(db, a[0])
        if wt:
            return ERR
        if e is None:
            return 0
        n = 0
        for i in ids:
            if i in e.v.entries:
                del e.v.entries[i]
                n += 1
        return n

    def c_XTRIM(self, db, a):
        from .model import ERR, parse_int, Adopt
        if len(a) not in (3, 4) or a[1].upper() != b"MAXLEN":
            return ERR
        approx = False
        if len(a) == 4:
            if a[2] not in (b"~", b"="):
                return ERR
            approx = a[2] == b"~"
            n = parse_int(a[3])
        else:
            n = parse_int(a[2])
        if n is None or n < 0:
            return ERR
        e, wt = self._stream(db, a[0])
        if wt:
            return ERR
        if e is None:
            return 0
        ids = e.v.ids()
        exact = max(0, len(ids) - n)
        if not approx:
            for i in ids[:exact]:
                del e.v.entries[i]
            return exact

        def fn(act):
            if not isinstance(act, int) or isinstance(act, bool) or act < 0 or act > exact:
                return False
            for i in ids[:act]:
                del e.v.entries[i]
            return True
        return Adopt(fn, "between 0 and %d oldest entries trimmed" % exact)

    def c_XREAD(self, db, a):
        from .model import ERR, parse_int, OneOf
        cnt = None
        i = 0
        while i < len(a):
            o = a[i].upper()
            if o == b"COUNT" and i + 1 < len(a):
                cnt = parse_int(a[i + 1])
                if cnt is None or cnt < 0:
                    return ERR
                i += 2
            elif o == b"STREAMS":
                i += 1
                break
            else:
                return ERR
        else:
            return ERR
        rest = a[i:]
        if not rest or len(rest) % 2:
            return ERR
        nk = len(rest) // 2
        out = []
        for j in range(nk):
            key, idb = rest[j], rest[nk + j]
            e, wt = self._stream(db, key)
            if wt:
                return ERR
            if idb == b"$":
                continue
            after = parse_id(idb)
            if after is None:
                return ERR
            if e is None:
                continue
            ids = [x for x in e.v.ids() if x > after]
            if cnt is not None and cnt > 0:
                ids = ids[:cnt]
            if ids:
                out.append([key, [_entry_reply(x, e.v.entries[x]) for x in ids]])
        if not out:
            return OneOf([], NULL_ARRAY, None)
        return out


# ============================================================================ consumer groups (C16)
class GroupInfo:
    """Matcher for one XINFO GROUPS / CONSUMERS element: a flat field list compared
    on the fields the statement covers."""

    def __init__(self, want):
        self.want = want

    def __repr__(self):
        return "GroupInfo(%r)" % (self.want,)


def _as_int(v):
    if isinstance(v, bool):
        return None
    if isinstance(v, int):
        return v
    if isinstance(v, bytes) and v.isdigit():
        return int(v)
    return None


def match_info(want, act):
    if not isinstance(act, list) or len(act) % 2:
        return False
    got = {}
    for i in range(0, len(act), 2):
        if isinstance(act[i], bytes):
            got[act[i]] = act[i + 1]
    for k, v in want.items():
        if k not in got:
            return False
        g = got[k]
        if isinstance(v, int):
            if _as_int(g) != v:
                return False
        elif g != v:
            return False
    return True


def _group_cmds(cls):
    from .model import ERR, OK, Adopt, OneOf, Unordered, parse_int, Pairs

    def _grp(self, db, key, gname):
        e, wt = self._stream(db, key)
        if wt:
            return None, None, ERR
        if e is None:
            return None, None, None
        return e, e.v.groups.get(gname), None

    def c_XGROUP(self, db, a):
        if len(a) < 2:
            return ERR
        sub = a[0].upper()
        if sub == b"CREATE":
            if len(a) not in (4, 5):
                return ERR
            key, g, idb = a[1], a[2], a[3]
            mk = len(a) == 5 and a[4].upper() == b"MKSTREAM"
            if len(a) == 5 and not mk:
                return ERR
            e, wt = self._stream(db, key)
            if wt:
                return ERR
            if e is None and not mk:
                return ERR
            if idb == b"$":
                start = e.v.last if e is not None else (0, 0)
            elif idb in (b"0", b"0-0"):
                start = (0, 0)
            else:
                start = parse_id(idb)
                if start is None:
                    return ERR
            if e is None:
                from .model import Entry
                e = Entry("stream", StreamModel())
                self.m.dbs[db][key] = e
            if g in e.v.groups:
                return ERR
            e.v.groups[g] = Group(start)
            return OK
        if sub == b"DESTROY":
            if len(a) != 3:
                return ERR
            e, grp, err = self._grp(db, a[1], a[2])
            if err is not None:
                return err
            if e is None:
                from .model import ANY
                return ANY
            if grp is None:
                return 0
            del e.v.groups[a[2]]
            return 1
        if sub == b"SETID":
            if len(a) != 4:
                return ERR
            e, grp, err = self._grp(db, a[1], a[2])
            if err is not None or e is None or grp is None:
                return ERR
            if a[3] == b"$":
                nid = e.v.last
            elif a[3] in (b"0", b"0-0"):
                nid = (0, 0)
            else:
                nid = parse_id(a[3])
                if nid is None:
                    return ERR
            grp.last = nid
            return OK
        if sub == b"CREATECONSUMER":
            if len(a) != 4:
                return ERR
            e, grp, err = self._grp(db, a[1], a[2])
            if err is not None:
                return err
            if e is None or grp is None:
                from .model import ANY
                return ANY          # missing group: NOGROUP error vs 0/1 is not judged
            if a[3] in grp.consumers:
                return 0
            was_maybe = a[3] in grp.maybe
            grp.maybe.discard(a[3])
            grp.consumers.add(a[3])
            return OneOf(0, 1) if was_maybe else 1
        if sub == b"DELCONSUMER":
            if len(a) != 4:
                return ERR
            e, grp, err = self._grp(db, a[1], a[2])
            if err is not None:
                return err
            if e is None or grp is None:
                from .model import ANY
                return ANY
            n = 0
            for i in [i for i, c in grp.pending.items() if c == a[3]]:
                del grp.pending[i]
                n += 1
            grp.consumers.discard(a[3])
            grp.maybe.discard(a[3])
            return n
        return ERR

    def c_XREADGROUP(self, db, a):
        # XREADGROUP GROUP g c [COUNT n] [NOACK] STREAMS key >
        if len(a) < 6 or a[0].upper() != b"GROUP":
            return ERR
        g, cons = a[1], a[2]
        cnt = None
        noack = False
        i = 3
        while i < len(a):
            o = a[i].upper()
            if o == b"COUNT" and i + 1 < len(a):
                cnt = parse_int(a[i + 1])
                if cnt is None or cnt < 0:
                    return ERR
                i += 2
            elif o == b"NOACK":
                noack = True
                i += 1
            elif o == b"STREAMS":
                i += 1
                break
            else:
                return ERR
        else:
            return ERR
        rest = a[i:]
        if len(rest) != 2:
            return ERR
        key = rest[0]
        e, grp, err = self._grp(db, key, g)
        if err is not None:
            return err
        if e is None or grp is None:
            return ERR
        if rest[1] != b">":
            # history read: the entries already delivered to THIS consumer and not yet acknowledged, after the
            # given ID. Nothing moves: not the group's last-delivered ID, not the ownership of any entry.
            after = (0, 0) if rest[1] == b"0" else parse_id(rest[1])
            if after is None:
                return ERR
            mine = sorted(x for x, owner in grp.pending.items() if owner == cons and x > after and x in e.v.entries)
            if cnt:
                mine = mine[:cnt]
            if cons not in grp.consumers:
                grp.maybe.add(cons)
            if not mine:
                return OneOf([[key, []]], [], NULL_ARRAY, None)
            return [[key, [_entry_reply(x, e.v.entries[x]) for x in mine]]]
        ids = [x for x in e.v.ids() if x > grp.last]
        if cnt:
            ids = ids[:cnt]
        if not ids:
            if cons not in grp.consumers:
                grp.maybe.add(cons)
            return OneOf([], NULL_ARRAY, None)
        grp.last = ids[-1]
        if not noack:
            grp.consumers.add(cons)
            grp.maybe.discard(cons)
            for x in ids:
                grp.pending[x] = cons
        elif cons not in grp.consumers:
            grp.maybe.add(cons)
        return [[key, [_entry_reply(x, e.v.entries[x]) for x in ids]]]

    def c_XACK(self, db, a):
        if len(a) < 3:
            return ERR
        ids = [parse_id(x) for x in a[2:]]
        if any(x is None for x in ids):
            return ERR
        e, grp, err = self._grp(db, a[0], a[1])
        if err is not None:
            return err
        if e is None or grp is None:
            return 0
        n = 0
        for x in ids:
            if x in grp.pending:
                del grp.pending[x]
                n += 1
        return n

    def c_XCLAIM(self, db, a):
        # XCLAIM key group consumer min-idle id... [FORCE] [JUSTID]
        if len(a) < 5:
            return ERR
        key, g, cons = a[0], a[1], a[2]
        idle = parse_int(a[3])
        if idle is None or idle < 0:
            return ERR
        ids = []
        force = justid = False
        for x in a[4:]:
            u = x.upper()
            if u == b"FORCE":
                force = True
            elif u == b"JUSTID":
                justid = True
            else:
                i = parse_id(x)
                if i is None:
                    return ERR
                ids.append(i)
        if not ids:
            return ERR
        e, grp, err = self._grp(db, key, g)
        if err is not None:
            return err
        if e is None or grp is None:
            from .model import ANY
            return ANY if e is None else ERR
        out = []
        for i in ids:
            if i in grp.pending:
                if idle == 0:
                    grp.pending[i] = cons
                    out.append(i)
            elif force and i in e.v.entries:
                from .model import ANY
                return ANY      # FORCE on a non-pending entry is outside the statement (not generated)
        if out:
            grp.consumers.add(cons)
            grp.maybe.discard(cons)
        elif cons not in grp.consumers:
            grp.maybe.add(cons)
        if justid:
            return [fmt_id(i) for i in out]
        return [_entry_reply(i, e.v.entries[i]) for i in out if i in e.v.entries]

    def c_XPENDING(self, db, a):
        if len(a) not in (2, 5, 6):
            return ERR
        e, grp, err = self._grp(db, a[0], a[1])
        if err is not None:
            return err
        if e is None or grp is None:
            from .model import ANY
            return ANY          # missing key / group: error vs nil is not judged
        if len(a) == 2:
            if not grp.pending:
                return [0, None, None, OneOf([], None, NULL_ARRAY)]
            ids = sorted(grp.pending)
            per = {}
            for i in ids:
                per[grp.pending[i]] = per.get(grp.pending[i], 0) + 1
            return [len(ids), fmt_id(ids[0]), fmt_id(ids[-1]),
                    Unordered([[c, OneOf(n, b"%d" % n)] for c, n in per.items()])]
        lo = (0, 0) if a[2] == b"-" else parse_id(a[2])
        hi = (U64, U64) if a[3] == b"+" else parse_id(a[3])
        cnt = parse_int(a[4])
        if lo is None or hi is None or cnt is None or cnt < 0:
            return ERR
        cons = a[5] if len(a) == 6 else None
        ids = [i for i in sorted(grp.pending) if lo <= i <= hi and (cons is None or grp.pending[i] == cons)][:cnt]
        from .model import ANY
        return [[fmt_id(i), grp.pending[i], ANY, ANY] for i in ids]

    def c_XINFO(self, db, a):
        from .model import ANY
        if len(a) < 2:
            return ERR
        sub = a[0].upper()
        e, wt = self._stream(db, a[1])
        if wt:
            return ERR
        if sub == b"GROUPS":
            if len(a) != 2:
                return ERR
            if e is None:
                return ANY
            def ginfo(act, g, grp):
                if not match_info({b"name": g, b"pending": len(grp.pending), b"last-delivered-id": fmt_id(grp.last)}, act):
                    return False
                got = {act[i]: act[i + 1] for i in range(0, len(act), 2) if isinstance(act[i], bytes)}
                n = _as_int(got.get(b"consumers"))
                return n is not None and len(grp.consumers) <= n <= len(grp.consumers | grp.maybe)
            return Unordered([Adopt((lambda act, g=g, grp=grp: ginfo(act, g, grp)), "group info %s pending=%d last=%s consumers=%d..%d" % (
                g, len(grp.pending), fmt_id(grp.last), len(grp.consumers), len(grp.consumers | grp.maybe))) for g, grp in e.v.groups.items()])
        if sub == b"CONSUMERS":
            if len(a) != 3:
                return ERR
            if e is None:
                return ANY
            grp = e.v.groups.get(a[2])
            if grp is None:
                return ERR
            def cinfo(act):
                if not isinstance(act, list):
                    return False
                seen = set()
                for item in act:
                    if not isinstance(item, list) or len(item) % 2:
                        return False
                    got = {item[i]: item[i + 1] for i in range(0, len(item), 2) if isinstance(item[i], bytes)}
                    nm = got.get(b"name")
                    if nm in seen or nm not in (grp.consumers | grp.maybe):
                        return False
                    seen.add(nm)
                    if _as_int(got.get(b"pending")) != sum(1 for x in grp.pending.values() if x == nm):
                        return False
                return grp.consumers <= seen
            return Adopt(cinfo, "one info per consumer of %s with its pending count %s" % (
                sorted(grp.consumers), {c: sum(1 for x in grp.pending.values() if x == c) for c in grp.consumers}))
        return ANY

    for name, fn in list(locals().items()):
        if name.startswith("c_") or name == "_grp":
            setattr(cls, name, fn)
    return cls


_group_cmds(StreamCommands)

"""Shared command catalogue: every command name the server dispatches, with one
or more well-formed example invocations (used where a property quantifies over
'every command': C05, C06, C17). A self-check greps the dispatch arms in
server.rs so that a command added later cannot silently escape enumeration."""
import os
import re

# name -> list of argv (str items are encoded); K = a key of the fitting type
CATALOGUE = {
    "PING": [["PING"], ["PING", "hello"]],
    "ECHO": [["ECHO", "hello"]],
    "SET": [["SET", "c:str", "v"], ["SET", "c:new", "v", "EX", "100"], ["SET", "c:str", "v", "NX"]],
    "GET": [["GET", "c:str"]],
    "INCR": [["INCR", "c:int"]], "DECR": [["DECR", "c:int"]],
    "INCRBY": [["INCRBY", "c:int", "5"]], "DECRBY": [["DECRBY", "c:int", "5"]],
    "DEL": [["DEL", "c:str"]], "EXISTS": [["EXISTS", "c:str"]],
    "EXPIRE": [["EXPIRE", "c:str", "100"]], "TTL": [["TTL", "c:str"]],
    "SELECT": [["SELECT", "1"]], "FLUSHDB": [["FLUSHDB"]], "FLUSHALL": [["FLUSHALL"]], "DBSIZE": [["DBSIZE"]],
    "SETNX": [["SETNX", "c:new", "v"]], "SETEX": [["SETEX", "c:new", "100", "v"]],
    "PSETEX": [["PSETEX", "c:new", "100000", "v"]],
    "SLEEP": [["SLEEP", "1"]],
    "CONFIG": [["CONFIG", "GET", "maxmemory"], ["CONFIG", "SET", "slowlog-max-len", "10"]],
    "MGET": [["MGET", "c:str", "c:int"]], "MSET": [["MSET", "c:new", "v", "c:new2", "w"]],
    "GETSET": [["GETSET", "c:str", "v2"]], "APPEND": [["APPEND", "c:str", "x"]], "STRLEN": [["STRLEN", "c:str"]],
    "GETRANGE": [["GETRANGE", "c:str", "0", "-1"]], "SETRANGE": [["SETRANGE", "c:str", "1", "x"]],
    "TYPE": [["TYPE", "c:str"]], "RENAME": [["RENAME", "c:str", "c:renamed"]],
    "RENAMENX": [["RENAMENX", "c:str", "c:renamed"]], "RANDOMKEY": [["RANDOMKEY"]],
    "BLPOP": [["BLPOP", "c:list", "1"]], "BRPOP": [["BRPOP", "c:list", "1"]],
    "KEYS": [["KEYS", "*"]], "PEXPIRE": [["PEXPIRE", "c:str", "100000"]], "PTTL": [["PTTL", "c:str"]],
    "PERSIST": [["PERSIST", "c:str"]],
    "LPUSH": [["LPUSH", "c:list", "x"]], "RPUSH": [["RPUSH", "c:list", "x"]], "LPOP": [["LPOP", "c:list"]],
    "RPOP": [["RPOP", "c:list"]], "LLEN": [["LLEN", "c:list"]], "LRANGE": [["LRANGE", "c:list", "0", "-1"]],
    "LINDEX": [["LINDEX", "c:list", "0"]], "LSET": [["LSET", "c:list", "0", "x"]],
    "LTRIM": [["LTRIM", "c:list", "0", "0"]], "LREM": [["LREM", "c:list", "0", "a"]],
    "SADD": [["SADD", "c:set", "x"]], "SREM": [["SREM", "c:set", "a"]], "SMEMBERS": [["SMEMBERS", "c:set"]],
    "SISMEMBER": [["SISMEMBER", "c:set", "a"]], "SCARD": [["SCARD", "c:set"]], "SUNION": [["SUNION", "c:set", "c:set2"]],
    "SINTER": [["SINTER", "c:set", "c:set2"]], "SDIFF": [["SDIFF", "c:set", "c:set2"]],
    "SRANDMEMBER": [["SRANDMEMBER", "c:set"]], "SPOP": [["SPOP", "c:set"]],
    "HSET": [["HSET", "c:hash", "f", "v"]], "HGET": [["HGET", "c:hash", "f1"]], "HMSET": [["HMSET", "c:hash", "f", "v"]],
    "HMGET": [["HMGET", "c:hash", "f1"]], "HGETALL": [["HGETALL", "c:hash"]], "HDEL": [["HDEL", "c:hash", "f1"]],
    "HLEN": [["HLEN", "c:hash"]], "HEXISTS": [["HEXISTS", "c:hash", "f1"]], "HKEYS": [["HKEYS", "c:hash"]],
    "HVALS": [["HVALS", "c:hash"]], "HINCRBY": [["HINCRBY", "c:hash", "n", "1"]],
    "ZADD": [["ZADD", "c:zset", "3", "x"]], "ZREM": [["ZREM", "c:zset", "a"]], "ZSCORE": [["ZSCORE", "c:zset", "a"]],
    "ZCARD": [["ZCARD", "c:zset"]], "ZRANK": [["ZRANK", "c:zset", "a"]], "ZREVRANK": [["ZREVRANK", "c:zset", "a"]],
    "ZRANGE": [["ZRANGE", "c:zset", "0", "-1"]], "ZREVRANGE": [["ZREVRANGE", "c:zset", "0", "-1"]],
    "ZRANGEBYSCORE": [["ZRANGEBYSCORE", "c:zset", "-inf", "+inf"]],
    "ZREVRANGEBYSCORE": [["ZREVRANGEBYSCORE", "c:zset", "+inf", "-inf"]], "ZCOUNT": [["ZCOUNT", "c:zset", "0", "10"]],
    "ZINCRBY": [["ZINCRBY", "c:zset", "1", "a"]], "ZPOPMIN": [["ZPOPMIN", "c:zset"]], "ZPOPMAX": [["ZPOPMAX", "c:zset"]],
    "XADD": [["XADD", "c:stream", "*", "f", "v"]], "XRANGE": [["XRANGE", "c:stream", "-", "+"]],
    "XREVRANGE": [["XREVRANGE", "c:stream", "+", "-"]], "XLEN": [["XLEN", "c:stream"]],
    "XREAD": [["XREAD", "STREAMS", "c:stream", "0-0"]], "XTRIM": [["XTRIM", "c:stream", "MAXLEN", "0"]],
    "XDEL": [["XDEL", "c:stream", "1-1"]],
    "XGROUP": [["XGROUP", "CREATE", "c:stream", "g2", "0"], ["XGROUP", "DESTROY", "c:stream", "g1"]],
    "XREADGROUP": [["XREADGROUP", "GROUP", "g1", "me", "STREAMS", "c:stream", ">"]],
    "XACK": [["XACK", "c:stream", "g1", "1-1"]], "XCLAIM": [["XCLAIM", "c:stream", "g1", "me", "0", "1-1"]],
    "XPENDING": [["XPENDING", "c:stream", "g1"]], "XINFO": [["XINFO", "GROUPS", "c:stream"], ["XINFO", "STREAM", "c:stream"]],
    "SAVE": [["SAVE"]], "BGSAVE": [["BGSAVE"]], "LASTSAVE": [["LASTSAVE"]],
    "SCAN": [["SCAN", "0"]], "HSCAN": [["HSCAN", "c:hash", "0"]], "SSCAN": [["SSCAN", "c:set", "0"]],
    "ZSCAN": [["ZSCAN", "c:zset", "0"]],
    "BGREWRITEAOF": [["BGREWRITEAOF"]],
    "INFO": [["INFO"], ["INFO", "replication"]], "SLOWLOG": [["SLOWLOG", "GET"], ["SLOWLOG", "RESET"]],
    "MEMORY": [["MEMORY", "USAGE", "c:str"], ["MEMORY", "STATS"]],
    "CLIENT": [["CLIENT", "LIST"], ["CLIENT", "SETNAME", "intruder"], ["CLIENT", "GETNAME"], ["CLIENT", "ID"]],
    "AUTH": [["AUTH", "wrong-password"]],
    "REPLICAOF": [["REPLICAOF", "NO", "ONE"]], "SLAVEOF": [["SLAVEOF", "NO", "ONE"]],
    "SYNC": [["SYNC"]], "PSYNC": [["PSYNC", "?", "-1"]], "REPLCONF": [["REPLCONF", "listening-port", "1234"]],
    "QUIT": [["QUIT"]],
    "EVAL": [["EVAL", "return redis.call('SET','c:new','v')", "0"], ["EVAL", "return redis.call('GET','c:str')", "0"]],
    "EVALSHA": [["EVALSHA", "0000000000000000000000000000000000000000", "0"]],
    "COMMAND": [["COMMAND"]], "SHUTDOWN": [["SHUTDOWN", "NOSAVE"]],
    "SCRIPT": [["SCRIPT", "LOAD", "return 1"], ["SCRIPT", "FLUSH"], ["SCRIPT", "EXISTS", "abc"]],
    "MULTI": [["MULTI"]], "EXEC": [["EXEC"]], "DISCARD": [["DISCARD"]], "WATCH": [["WATCH", "c:str"]],
    "UNWATCH": [["UNWATCH"]], "PUBLISH": [["PUBLISH", "canary-channel", "intruder"]],
    "SUBSCRIBE": [["SUBSCRIBE", "canary-channel"]], "UNSUBSCRIBE": [["UNSUBSCRIBE", "canary-channel"]],
    "PSUBSCRIBE": [["PSUBSCRIBE", "canary-*"]], "PUNSUBSCRIBE": [["PUNSUBSCRIBE", "canary-*"]],
    "MONITOR": [["MONITOR"]],
    "VERIF": [["VERIF", "LOOPCOUNT"], ["VERIF", "CHECK"]],
}

# sub-words of the VERIF hook command and option tokens that the grep also finds
NOT_COMMANDS = {"ABORTSTEP", "BLOCKED", "CHECK", "CONNID", "COUNTSTEPS", "EXPIRY", "FAILSTEP", "HOLD", "INPROGRESS",
                "LOOPCOUNT", "PASSES", "RDB", "RELEASE", "SAVES", "STATE", "SWEEPER", "EX", "PX", "NX", "XX"}


def dispatched_names(repo="/repo"):
    """Command names appearing as match arms in server.rs."""
    src = open(os.path.join(repo, "src/network/server.rs"), encoding="utf8", errors="replace").read()
    names = set()
    for m in re.finditer(r'^\s+("[A-Z]+"(?:\s*\|\s*"[A-Z]+")*)\s*=>', src, re.M):
        for n in re.findall(r'"([A-Z]+)"', m.group(1)):
            names.add(n)
    return names - NOT_COMMANDS


def gaps(repo="/repo"):
    """Dispatched names missing from the catalogue (reported in evidence)."""
    try:
        return sorted(dispatched_names(repo) - set(CATALOGUE))
    except OSError:
        return ["<server.rs unreadable>"]


def seed_canaries(c):
    """Keys of every type the example invocations refer to."""
    cmds = [
        ["SET", "c:str", "canary"], ["SET", "c:int", "10"], ["RPUSH", "c:list", "a", "b", "a"],
        ["SADD", "c:set", "a", "b"], ["SADD", "c:set2", "b", "c"], ["HSET", "c:hash", "f1", "v1", "n", "5"],
        ["ZADD", "c:zset", "1", "a", "2", "b"], ["XADD", "c:stream", "1-1", "f", "v"],
        ["XGROUP", "CREATE", "c:stream", "g1", "0"],
    ]
    for a in cmds:
        c.cmd(*a)


CANARY_KEYS = ["c:str", "c:int", "c:list", "c:set", "c:set2", "c:hash", "c:zset", "c:stream", "c:new", "c:new2",
               "c:renamed"]

"""Small deterministic reference model of Redis semantics (the command forms
named by the properties). Nothing ferrous does is read into it; the rules are
those of the Redis command reference (see DESIGN.md Appendix A, DONTCARE.md).

Model.apply(db, argv) -> expected reply (possibly a matcher), mutating the model.
"""
import math
import struct
import sys

if hasattr(sys, "set_int_max_str_digits"):
    sys.set_int_max_str_digits(0)

from .resp import Status, Err, NULL_ARRAY, OK

I64_MIN = -(1 << 63)
I64_MAX = (1 << 63) - 1

ERR = Err(b"any")


# --------------------------------------------------------------------------- matchers
class Unordered:
    def __init__(self, items):
        self.items = list(items)

    def __repr__(self):
        return "Unordered(%r)" % (self.items,)


class OneOf:
    def __init__(self, *alts):
        self.alts = alts

    def __repr__(self):
        return "OneOf%r" % (self.alts,)


class Score:
    """A bulk string that parses to this float."""

    def __init__(self, f):
        self.f = f

    def __repr__(self):
        return "Score(%r)" % self.f


class IntRange:
    def __init__(self, lo, hi):
        self.lo, self.hi = lo, hi

    def __repr__(self):
        return "IntRange(%r,%r)" % (self.lo, self.hi)


class Pairs:
    """Flat [k, v, k, v ...] compared as a dict (HGETALL)."""

    def __init__(self, d):
        self.d = dict(d)

    def __repr__(self):
        return "Pairs(%r)" % (self.d,)


class Adopt:
    """Reply is validated (and the model updated) by fn(actual) -> bool."""

    def __init__(self, fn, desc):
        self.fn, self.desc = fn, desc

    def __repr__(self):
        return "Adopt(%s)" % self.desc


class Any:
    def __repr__(self):
        return "Any"


ANY = Any()


def parse_score_reply(b):
    if not isinstance(b, bytes):
        return None
    try:
        s = b.decode("ascii").lower()
    except UnicodeDecodeError:
        return None
    if s in ("inf", "+inf", "infinity"):
        return math.inf
    if s in ("-inf", "-infinity"):
        return -math.inf
    try:
        return float(s)
    except ValueError:
        return None


def matches(exp, act):
    """True iff the actual reply is admissible for the expectation."""
    if isinstance(exp, Any):
        return True
    if isinstance(exp, OneOf):
        return any(matches(a, act) for a in exp.alts)
    if isinstance(exp, Err):
        return isinstance(act, Err)
    if isinstance(exp, Unordered):
        if not isinstance(act, list) or len(act) != len(exp.items):
            return False
        rest = list(act)
        for e in exp.items:
            for i, a in enumerate(rest):
                if matches(e, a):
                    del rest[i]
                    break
            else:
                return False
        return True
    if isinstance(exp, Score):
        f = parse_score_reply(act)
        if f is None:
            return False
        return f == exp.f or (math.isnan(f) and math.isnan(exp.f))
    if isinstance(exp, IntRange):
        return isinstance(act, int) and not isinstance(act, bool) and exp.lo <= act <= exp.hi
    if isinstance(exp, Pairs):
        if not isinstance(act, list) or len(act) != 2 * len(exp.d):
            return False
        got = {}
        for i in range(0, len(act), 2):
            if not isinstance(act[i], bytes) or act[i] in got:
                return False
            got[act[i]] = act[i + 1]
        if set(got) != set(exp.d):
            return False
        return all(matches(exp.d[k], got[k]) for k in got)
    if isinstance(exp, Adopt):
        return bool(exp.fn(act))
    if isinstance(exp, list):
        if not isinstance(act, list) or len(act) != len(exp):
            return False
        return all(matches(e, a) for e, a in zip(exp, act))
    if exp is NULL_ARRAY:
        return act is NULL_ARRAY
    if exp is None:
        return act is None
    if isinstance(exp, bool):
        exp = int(exp)
    if isinstance(exp, int):
        return isinstance(act, int) and act == exp
    if isinstance(exp, bytes):
        return isinstance(act, bytes) and act == exp
    if isinstance(exp, Status):
        return isinstance(act, Status) and act.s == exp.s
    raise TypeError("bad expectation %r" % (exp,))


def rclass(v):
    """Reply class for signatures."""
    if isinstance(v, Err):
        return "error"
    if isinstance(v, Status):
        return "ok" if v.s == b"OK" else "status"
    if v is None:
        return "nil"
    if v is NULL_ARRAY:
        return "nilarray"
    if isinstance(v, bool):
        return "int"
    if isinstance(v, int):
        return "int"
    if isinstance(v, bytes):
        return "bulk"
    if isinstance(v, list):
        return "array"
    if isinstance(v, (Unordered, Pairs)):
        return "array"
    if isinstance(v, Score):
        return "bulk"
    if isinstance(v, IntRange):
        return "int"
    if isinstance(v, OneOf):
        return "|".join(sorted(set(rclass(a) for a in v.alts)))
    if isinstance(v, Adopt):
        return "adopt"
    if isinstance(v, str):
        return v  # closed / timeout
    return type(v).__name__


# --------------------------------------------------------------------------- parsing helpers
def parse_int(b):
    """Redis string2ll: canonical decimal i64 only."""
    if not isinstance(b, bytes) or not b or len(b) > 20:
        return None
    s = b
    neg = False
    if s[:1] == b"-":
        neg = True
        s = s[1:]
        if not s:
            return None
    if not s.isdigit() or not all(48 <= c <= 57 for c in s):
        return None
    if len(s) > 1 and s[:1] == b"0":
        return None
    if s == b"0" and neg:
        return None
    v = int(s)
    if neg:
        v = -v
    if v < I64_MIN or v > I64_MAX:
        return None
    return v


_LENIENT_INT = __import__("re").compile(rb"\A[+-]?[0-9]+\Z")


def is_noncanonical_int(b):
    """Integer spellings Redis refuses but lenient parsers accept ("+5", "007",
    "-0"): never generated on purpose, never judged (DONTCARE)."""
    if parse_int(b) is not None:
        return False
    return isinstance(b, bytes) and _LENIENT_INT.match(b) is not None


def ANY_NOEFFECT_UNKNOWN(model, db, key):
    """Out-of-range non-canonical integer: error expected from every parser."""
    return ERR


def parse_float(b):
    """Score syntax we generate: decimal / exponent floats, inf spellings, nan."""
    if not isinstance(b, bytes) or not b:
        return None
    try:
        s = b.decode("ascii")
    except UnicodeDecodeError:
        return None
    if s != s.strip() or "_" in s:
        return None
    ls = s.lower()
    if ls in ("inf", "+inf", "infinity", "+infinity"):
        return math.inf
    if ls in ("-inf", "-infinity"):
        return -math.inf
    if ls in ("nan", "+nan", "-nan"):
        return math.nan
    if ls.startswith(("0x", "-0x", "+0x")):
        return None
    try:
        f = float(s)
    except ValueError:
        return None
    return f


def glob_match(p, s):
    """Redis stringmatchlen, byte-wise, case-sensitive."""
    pi = si = 0
    pl, sl = len(p), len(s)
    while pi < pl:
        c = p[pi]
        if c == 0x2A:  # *
            while pi + 1 < pl and p[pi + 1] == 0x2A:
                pi += 1
            if pi + 1 == pl:
                return True
            for k in range(si, sl + 1):
                if glob_match(p[pi + 1:], s[k:]):
                    return True
            return False
        if si >= sl:
            return False
        if c == 0x3F:  # ?
            si += 1
            pi += 1
            continue
        if c == 0x5B:  # [
            pi += 1
            neg = pi < pl and p[pi] == 0x5E
            if neg:
                pi += 1
            match = False
            while True:
                if pi < pl and p[pi] == 0x5C and pi + 1 < pl:
                    pi += 1
                    if p[pi] == s[si]:
                        match = True
                elif pi < pl and p[pi] == 0x5D:
                    break
                elif pi >= pl:
                    pi -= 1
                    break
                elif pi + 2 < pl and p[pi + 1] == 0x2D and p[pi + 2] != 0x5D:
                    lo, hi = p[pi], p[pi + 2]
                    if lo > hi:
                        lo, hi = hi, lo
                    pi += 2
                    if lo <= s[si] <= hi:
                        match = True
                else:
                    if p[pi] == s[si]:
                        match = True
                pi += 1
            if neg:
                match = not match
            if not match:
                return False
            si += 1
            pi += 1
            continue
        if c == 0x5C and pi + 1 < pl:
            pi += 1
            c = p[pi]
        if c != s[si]:
            return False
        si += 1
        pi += 1
    return si == sl


class Entry:
    __slots__ = ("t", "v", "exp")

    def __init__(self, t, v, exp=None):
        self.t, self.v, self.exp = t, v, exp

    def copy(self):
        import copy
        return Entry(self.t, copy.deepcopy(self.v), self.exp)


def zorder(z):
    """Sorted (score, member) order of a zset dict."""
    return sorted(z.items(), key=lambda kv: (kv[1], kv[0]))


def fmt_score(f):
    """Canonical score text used when the model must produce bytes (never
    compared byte-wise; replies are matched with Score)."""
    if f == math.inf:
        return b"inf"
    if f == -math.inf:
        return b"-inf"
    if f == int(f) and abs(f) < 1e17:
        return b"%d" % int(f)
    return repr(f).encode()


class Model:
    """16 databases of key -> Entry. Time is external: `now` (ms) is set by the
    driver when it cares (C02); otherwise TTLs are only tracked as deadlines that
    never pass."""

    def __init__(self, ndb=16):
        self.dbs = [dict() for _ in range(ndb)]
        self.now = 0.0  # model clock in ms; driver may advance it
        from .model_stream import StreamCommands
        self.streams = StreamCommands(self)

    # ---- state helpers
    def get(self, db, key):
        return self.dbs[db].get(key)

    def typeclass(self, db, key):
        e = self.dbs[db].get(key)
        if e is None:
            return "absent"
        if e.t == "string" and parse_int(e.v) is not None:
            return "intstr"
        return e.t

    def snapshot_key(self, db, key):
        """Canonical (type, value, has_ttl) of a key for dump comparison."""
        e = self.dbs[db].get(key)
        if e is None:
            return ("none", None, False)
        if e.t == "string":
            v = e.v
        elif e.t == "list":
            v = list(e.v)
        elif e.t == "set":
            v = sorted(e.v)
        elif e.t == "hash":
            v = sorted(e.v.items())
        elif e.t == "zset":
            v = [(m, s) for m, s in zorder(e.v)]
        elif e.t == "stream":
            v = e.v.snapshot()
        return (e.t, v, e.exp is not None)

    def _del_if_empty(self, db, key):
        e = self.dbs[db].get(key)
        if e is not None and e.t in ("list", "set", "hash", "zset") and len(e.v) == 0:
            del self.dbs[db][key]

    # ---- dispatch
    def apply(self, db, argv):
        if not argv:
            return ERR
        name = argv[0].upper().decode("latin1")
        fn = getattr(self, "c_" + name, None)
        if fn is None:
            sfn = getattr(self.streams, "c_" + name, None)
            if sfn is None:
                raise KeyError("model has no command " + name)
            return sfn(db, argv[1:])
        return fn(db, argv[1:])

    def knows(self, name):
        n = name.upper()
        return hasattr(self, "c_" + n) or hasattr(self.streams, "c_" + n)

    # ================================================================= strings
    def _str(self, db, key):
        """-> (entry or None, wrongtype bool)"""
        e = self.dbs[db].get(key)
        if e is None:
            return None, False
        if e.t != "string":
            return e, True
        return e, False

    def c_SET(self, db, a):
        if len(a) < 2:
            return ERR
        key, val = a[0], a[1]
        nx = xx = False
        ex = None
        seen_ttl = False
        i = 2
        while i < len(a):
            o = a[i].upper()
            if o == b"NX":
                nx = True
                i += 1
            elif o == b"XX":
                xx = True
                i += 1
            elif o in (b"EX", b"PX"):
                if i + 1 >= len(a) or seen_ttl:
                    return ERR
                n = parse_int(a[i + 1])
                if n is None or n <= 0:
                    return ERR
                ex = n * 1000 if o == b"EX" else n
                seen_ttl = True
                i += 2
            else:
                return ERR
        if nx and xx:
            return ERR
        d = self.dbs[db]
        if nx and key in d:
            return None
        if xx and key not in d:
            return None
        d[key] = Entry("string", val, None if ex is None else self.now + ex)
        return OK

    def c_GET(self, db, a):
        if len(a) != 1:
            return ERR
        e, wt = self._str(db, a[0])
        if wt:
            return ERR
        return None if e is None else e.v

    def c_MGET(self, db, a):
        if len(a) < 1:
            return ERR
        out = []
        for k in a:
            e = self.dbs[db].get(k)
            out.append(e.v if e is not None and e.t == "string" else None)
        return out

    def c_MSET(self, db, a):
        if len(a) < 2 or len(a) % 2:
            return ERR
        for i in range(0, len(a), 2):
            self.dbs[db][a[i]] = Entry("string", a[i + 1])
        return OK

    def c_GETSET(self, db, a):
        if len(a) != 2:
            return ERR
        e, wt = self._str(db, a[0])
        if wt:
            return ERR
        old = None if e is None else e.v
        self.dbs[db][a[0]] = Entry("string", a[1])
        return old

    def c_SETNX(self, db, a):
        if len(a) != 2:
            return ERR
        if a[0] in self.dbs[db]:
            return 0
        self.dbs[db][a[0]] = Entry("string", a[1])
        return 1

    def _setex(self, db, a, mul):
        if len(a) != 3:
            return ERR
        n = parse_int(a[1])
        if n is None or n <= 0:
            return ERR
        self.dbs[db][a[0]] = Entry("string", a[2], self.now + n * mul)
        return OK

    def c_SETEX(self, db, a):
        return self._setex(db, a, 1000)

    def c_PSETEX(self, db, a):
        return self._setex(db, a, 1)

    def c_APPEND(self, db, a):
        if len(a) != 2:
            return ERR
        e, wt = self._str(db, a[0])
        if wt:
            return ERR
        if e is None:
            self.dbs[db][a[0]] = Entry("string", a[1])
            return len(a[1])
        e.v = e.v + a[1]
        return len(e.v)

    def c_STRLEN(self, db, a):
        if len(a) != 1:
            return ERR
        e, wt = self._str(db, a[0])
        if wt:
            return ERR
        return 0 if e is None else len(e.v)

    def c_GETRANGE(self, db, a):
        if len(a) != 3:
            return ERR
        s, t = parse_int(a[1]), parse_int(a[2])
        if s is None or t is None:
            return ERR
        e, wt = self._str(db, a[0])
        if wt:
            return ERR
        v = b"" if e is None else e.v
        n = len(v)
        if s < 0 and t < 0 and s > t:
            return b""
        if s < 0:
            s += n
        if t < 0:
            t += n
        if s < 0:
            s = 0
        if t < 0:
            t = 0
        if t >= n:
            t = n - 1
        if n == 0 or s > t:
            return b""
        return v[s:t + 1]

    def c_SETRANGE(self, db, a):
        if len(a) != 3:
            return ERR
        off = parse_int(a[1])
        if off is None or off < 0:
            return ERR
        e, wt = self._str(db, a[0])
        if wt:
            return ERR
        val = a[2]
        if e is None:
            if not val:
                return 0
            if off + len(val) > 512 * 1024 * 1024:
                return ERR
            self.dbs[db][a[0]] = Entry("string", b"\x00" * off + val)
            return off + len(val)
        if not val:
            return len(e.v)
        if off + len(val) > 512 * 1024 * 1024:
            return ERR
        v = e.v
        if len(v) < off:
            v = v + b"\x00" * (off - len(v))
        e.v = v[:off] + val + v[off + len(val):]
        return len(e.v)

    def _incr(self, db, key, delta):
        e, wt = self._str(db, key)
        if wt:
            return ERR
        if e is None:
            cur = 0
        else:
            cur = parse_int(e.v)
            if cur is None:
                if is_noncanonical_int(e.v):
                    # "+5", "007", "-0": Redis refuses, lenient parsers accept (DONTCARE):
                    # either outcome is admissible, the model follows the reply
                    try:
                        lenient = int(e.v.decode("ascii")) + delta
                    except ValueError:
                        return ERR
                    if e.v != e.v.strip() or not (I64_MIN <= lenient <= I64_MAX) or \
                            not (I64_MIN <= lenient - delta <= I64_MAX):
                        return ERR if e.v != e.v.strip() else ANY_NOEFFECT_UNKNOWN(self, db, key)

                    def fn(act):
                        if isinstance(act, Err):
                            return True
                        if act == lenient and not isinstance(act, bool):
                            e.v = b"%d" % lenient
                            return True
                        return False
                    return Adopt(fn, "error, or %d by lenient integer parsing" % lenient)
                return ERR
        nv = cur + delta
        if nv < I64_MIN or nv > I64_MAX:
            return ERR
        if e is None:
            self.dbs[db][key] = Entry("string", b"%d" % nv)
        else:
            e.v = b"%d" % nv
        return nv

    def c_INCR(self, db, a):
        if len(a) != 1:
            return ERR
        return self._incr(db, a[0], 1)

    def c_DECR(self, db, a):
        if len(a) != 1:
            return ERR
        return self._incr(db, a[0], -1)

    def c_INCRBY(self, db, a):
        if len(a) != 2:
            return ERR
        n = parse_int(a[1])
        if n is None:
            return ERR
        return self._incr(db, a[0], n)

    def c_DECRBY(self, db, a):
        if len(a) != 2:
            return ERR
        n = parse_int(a[1])
        if n is None or n == I64_MIN:
            return ERR
        return self._incr(db, a[0], -n)

    # ================================================================= keys
    def c_DEL(self, db, a):
        if len(a) < 1:
            return ERR
        n = 0
        for k in a:
            if k in self.dbs[db]:
                del self.dbs[db][k]
                n += 1
        return n

    def c_EXISTS(self, db, a):
        if len(a) < 1:
            return ERR
        return sum(1 for k in a if k in self.dbs[db])

    def c_TYPE(self, db, a):
        if len(a) != 1:
            return ERR
        e = self.dbs[db].get(a[0])
        return Status(b"none" if e is None else e.t.encode())

    def c_RENAME(self, db, a):
        if len(a) != 2:
            return ERR
        d = self.dbs[db]
        if a[0] not in d:
            return ERR
        if a[0] == a[1]:
            return OK
        d[a[1]] = d.pop(a[0])
        return OK

    def c_RENAMENX(self, db, a):
        if len(a) != 2:
            return ERR
        d = self.dbs[db]
        if a[0] not in d:
            return ERR
        if a[1] in d:
            return 0
        d[a[1]] = d.pop(a[0])
        return 1

    def c_KEYS(self, db, a):
        if len(a) != 1:
            return ERR
        return Unordered([k for k in self.dbs[db] if glob_match(a[0], k)])

    def c_DBSIZE(self, db, a):
        if a:
            return ERR
        return len(self.dbs[db])

    def c_RANDOMKEY(self, db, a):
        if a:
            return ERR
        d = self.dbs[db]
        if not d:
            return None
        return Adopt(lambda act: isinstance(act, bytes) and act in d, "a current key")

    def c_FLUSHDB(self, db, a):
        if a:
            return ANY  # ASYNC/SYNC forms not judged
        self.dbs[db].clear()
        return OK

    def c_FLUSHALL(self, db, a):
        if a:
            return ANY
        for d in self.dbs:
            d.clear()
        return OK

    def _expire(self, db, a, mul):
        if len(a) != 2:
            return ERR
        n = parse_int(a[1])
        if n is None:
            return ERR
        d = self.dbs[db]
        if a[0] not in d:
            return 0
        if n <= 0:
            del d[a[0]]
            return 1
        d[a[0]].exp = self.now + n * mul
        return 1

    def c_EXPIRE(self, db, a):
        return self._expire(db, a, 1000)

    def c_PEXPIRE(self, db, a):
        return self._expire(db, a, 1)

    def c_PERSIST(self, db, a):
        if len(a) != 1:
            return ERR
        e = self.dbs[db].get(a[0])
        if e is None or e.exp is None:
            return 0
        e.exp = None
        return 1

    def _ttl(self, db, a, div):
        if len(a) != 1:
            return ERR
        e = self.dbs[db].get(a[0])
        if e is None:
            return -2
        if e.exp is None:
            return -1
        rem = e.exp - self.now
        # the server's clock runs while the model's does not: allow up to 60 s of
        # elapsed real time (generous; exact timing is C02's subject)
        lo = (rem - 60000) / div
        hi = rem / div
        return IntRange(int(math.floor(lo)), int(math.ceil(hi)))

    def c_TTL(self, db, a):
        return self._ttl(db, a, 1000)

    def c_PTTL(self, db, a):
        return self._ttl(db, a, 1)

    # ================================================================= lists
    def _typed(self, db, key, t):
        e = self.dbs[db].get(key)
        if e is None:
            return None, False
        return e, e.t != t

    def _push(self, db, a, left):
        if len(a) < 2:
            return ERR
        e, wt = self._typed(db, a[0], "list")
        if wt:
            return ERR
        if e is None:
            e = Entry("list", [])
            self.dbs[db][a[0]] = e
        for v in a[1:]:
            if left:
                e.v.insert(0, v)
            else:
                e.v.append(v)
        return len(e.v)

    def c_LPUSH(self, db, a):
        return self._push(db, a, True)

    def c_RPUSH(self, db, a):
        return self._push(db, a, False)

    def _pop(self, db, a, left):
        if len(a) != 1:
            return ERR
        e, wt = self._typed(db, a[0], "list")
        if wt:
            return ERR
        if e is None:
            return None
        v = e.v.pop(0) if left else e.v.pop()
        self._del_if_empty(db, a[0])
        return v

    def c_LPOP(self, db, a):
        return self._pop(db, a, True)

    def c_RPOP(self, db, a):
        return self._pop(db, a, False)

    def _bpop(self, db, a, left):
        """Non-blocking outcome of BLPOP/BRPOP: first key holding an element is
        popped; with none the call would block (modelled as the timeout reply)."""
        if len(a) < 2:
            return ERR
        try:
            t = float(a[-1])
        except ValueError:
            return ERR
        if t < 0 or t != t:
            return ERR
        for k in a[:-1]:
            e, wt = self._typed(db, k, "list")
            if wt:
                return ERR
            if e is not None:
                v = e.v.pop(0) if left else e.v.pop()
                self._del_if_empty(db, k)
                return [k, v]
        return NULL_ARRAY

    def c_BLPOP(self, db, a):
        return self._bpop(db, a, True)

    def c_BRPOP(self, db, a):
        return self._bpop(db, a, False)

    def c_LLEN(self, db, a):
        if len(a) != 1:
            return ERR
        e, wt = self._typed(db, a[0], "list")
        if wt:
            return ERR
        return 0 if e is None else len(e.v)

    @staticmethod
    def _range(n, s, t):
        if s < 0:
            s += n
        if t < 0:
            t += n
        if s < 0:
            s = 0
        if s > t or s >= n:
            return None
        if t >= n:
            t = n - 1
        return s, t

    def c_LRANGE(self, db, a):
        if len(a) != 3:
            return ERR
        s, t = parse_int(a[1]), parse_int(a[2])
        if s is None or t is None:
            return ERR
        e, wt = self._typed(db, a[0], "list")
        if wt:
            return ERR
        if e is None:
            return []
        r = self._range(len(e.v), s, t)
        if r is None:
            return []
        return list(e.v[r[0]:r[1] + 1])

    def c_LINDEX(self, db, a):
        if len(a) != 2:
            return ERR
        i = parse_int(a[1])
        if i is None:
            return ERR
        e, wt = self._typed(db, a[0], "list")
        if wt:
            return ERR
        if e is None:
            return None
        n = len(e.v)
        if i < 0:
            i += n
        if i < 0 or i >= n:
            return None
        return e.v[i]

    def c_LSET(self, db, a):
        if len(a) != 3:
            return ERR
        i = parse_int(a[1])
        e, wt = self._typed(db, a[0], "list")
        if wt or e is None or i is None:
            return ERR
        n = len(e.v)
        if i < 0:
            i += n
        if i < 0 or i >= n:
            return ERR
        e.v[i] = a[2]
        return OK

    def c_LTRIM(self, db, a):
        if len(a) != 3:
            return ERR
        s, t = parse_int(a[1]), parse_int(a[2])
        if s is None or t is None:
            return ERR
        e, wt = self._typed(db, a[0], "list")
        if wt:
            return ERR
        if e is None:
            return OK
        r = self._range(len(e.v), s, t)
        if r is None:
            e.v = []
        else:
            e.v = e.v[r[0]:r[1] + 1]
        self._del_if_empty(db, a[0])
        return OK

    def c_LREM(self, db, a):
        if len(a) != 3:
            return ERR
        c = parse_int(a[1])
        if c is None:
            return ERR
        e, wt = self._typed(db, a[0], "list")
        if wt:
            return ERR
        if e is None:
            return 0
        removed = 0
        if c >= 0:
            out = []
            for v in e.v:
                if v == a[2] and (c == 0 or removed < c):
                    removed += 1
                else:
                    out.append(v)
        else:
            out = []
            for v in reversed(e.v):
                if v == a[2] and removed < -c:
                    removed += 1
                else:
                    out.append(v)
            out.reverse()
        e.v = out
        self._del_if_empty(db, a[0])
        return removed

    # ================================================================= sets
    def c_SADD(self, db, a):
        if len(a) < 2:
            return ERR
        e, wt = self._typed(db, a[0], "set")
        if wt:
            return ERR
        if e is None:
            e = Entry("set", set())
            self.dbs[db][a[0]] = e
        n = 0
        for m in a[1:]:
            if m not in e.v:
                e.v.add(m)
                n += 1
        return n

    def c_SREM(self, db, a):
        if len(a) < 2:
            return ERR
        e, wt = self._typed(db, a[0], "set")
        if wt:
            return ERR
        if e is None:
            return 0
        n = 0
        for m in a[1:]:
            if m in e.v:
                e.v.discard(m)
                n += 1
        self._del_if_empty(db, a[0])
        return n

    def c_SMEMBERS(self, db, a):
        if len(a) != 1:
            return ERR
        e, wt = self._typed(db, a[0], "set")
        if wt:
            return ERR
        return Unordered([] if e is None else list(e.v))

    def c_SISMEMBER(self, db, a):
        if len(a) != 2:
            return ERR
        e, wt = self._typed(db, a[0], "set")
        if wt:
            return ERR
        return 1 if e is not None and a[1] in e.v else 0

    def c_SCARD(self, db, a):
        if len(a) != 1:
            return ERR
        e, wt = self._typed(db, a[0], "set")
        if wt:
            return ERR
        return 0 if e is None else len(e.v)

    def _setop(self, db, a, op):
        if len(a) < 1:
            return ERR
        sets = []
        anywt = False
        anymissing = False
        for k in a:
            e, wt = self._typed(db, k, "set")
            if wt:
                anywt = True
            if e is None:
                anymissing = True
            sets.append(set() if (e is None or wt) else set(e.v))
        if anywt:
            if op == "inter" and anymissing:
                return ANY  # changed between Redis 6 and 7 (DONTCARE)
            return ERR
        if op == "union":
            r = set().union(*sets)
        elif op == "inter":
            r = set(sets[0])
            for s in sets[1:]:
                r &= s
        else:
            r = set(sets[0])
            for s in sets[1:]:
                r -= s
        return Unordered(list(r))

    def c_SUNION(self, db, a):
        return self._setop(db, a, "union")

    def c_SINTER(self, db, a):
        return self._setop(db, a, "inter")

    def c_SDIFF(self, db, a):
        return self._setop(db, a, "diff")

    def c_SPOP(self, db, a):
        if len(a) < 1 or len(a) > 2:
            return ERR
        cnt = None
        if len(a) == 2:
            cnt = parse_int(a[1])
            if cnt is None or cnt < 0:
                return ERR
        e, wt = self._typed(db, a[0], "set")
        if wt:
            return ERR
        key = a[0]
        if cnt is None:
            if e is None:
                return None

            def fn(act):
                if not isinstance(act, bytes) or act not in e.v:
                    return False
                e.v.discard(act)
                self._del_if_empty(db, key)
                return True
            return Adopt(fn, "one current member, removed")
        if e is None:
            return []
        want = min(cnt, len(e.v))

        def fn2(act):
            if not isinstance(act, list) or len(act) != want:
                return False
            if len(set(act)) != len(act) or any((not isinstance(x, bytes)) or x not in e.v for x in act):
                return False
            for x in act:
                e.v.discard(x)
            self._del_if_empty(db, key)
            return True
        return Adopt(fn2, "%d distinct current members, removed" % want)

    def c_SRANDMEMBER(self, db, a):
        if len(a) < 1 or len(a) > 2:
            return ERR
        cnt = None
        if len(a) == 2:
            cnt = parse_int(a[1])
            if cnt is None:
                return ERR
        e, wt = self._typed(db, a[0], "set")
        if wt:
            return ERR
        if cnt is None:
            if e is None:
                return None
            return Adopt(lambda act: isinstance(act, bytes) and act in e.v, "one current member")
        if e is None:
            return []
        if cnt >= 0:
            want = min(cnt, len(e.v))
            return Adopt(lambda act: isinstance(act, list) and len(act) == want and len(set(act)) == want
                         and all(isinstance(x, bytes) and x in e.v for x in act),
                         "%d distinct current members" % want)
        want = -cnt
        return Adopt(lambda act: isinstance(act, list) and len(act) == want
                     and all(isinstance(x, bytes) and x in e.v for x in act),
                     "%d current members (repeats allowed)" % want)

    # ================================================================= hashes
    def _hset(self, db, a):
        if len(a) < 3 or (len(a) - 1) % 2:
            return None, ERR
        e, wt = self._typed(db, a[0], "hash")
        if wt:
            return None, ERR
        if e is None:
            e = Entry("hash", {})
            self.dbs[db][a[0]] = e
        n = 0
        for i in range(1, len(a), 2):
            if a[i] not in e.v:
                n += 1
            e.v[a[i]] = a[i + 1]
        return n, None

    def c_HSET(self, db, a):
        n, err = self._hset(db, a)
        return err if err is not None else n

    def c_HMSET(self, db, a):
        n, err = self._hset(db, a)
        return err if err is not None else OK

    def c_HGET(self, db, a):
        if len(a) != 2:
            return ERR
        e, wt = self._typed(db, a[0], "hash")
        if wt:
            return ERR
        return None if e is None else e.v.get(a[1])

    def c_HMGET(self, db, a):
        if len(a) < 2:
            return ERR
        e, wt = self._typed(db, a[0], "hash")
        if wt:
            return ERR
        return [None if e is None else e.v.get(f) for f in a[1:]]

    def c_HGETALL(self, db, a):
        if len(a) != 1:
            return ERR
        e, wt = self._typed(db, a[0], "hash")
        if wt:
            return ERR
        return Pairs({} if e is None else e.v)

    def c_HDEL(self, db, a):
        if len(a) < 2:
            return ERR
        e, wt = self._typed(db, a[0], "hash")
        if wt:
            return ERR
        if e is None:
            return 0
        n = 0
        for f in a[1:]:
            if f in e.v:
                del e.v[f]
                n += 1
        self._del_if_empty(db, a[0])
        return n

    def c_HLEN(self, db, a):
        if len(a) != 1:
            return ERR
        e, wt = self._typed(db, a[0], "hash")
        if wt:
            return ERR
        return 0 if e is None else len(e.v)

    def c_HEXISTS(self, db, a):
        if len(a) != 2:
            return ERR
        e, wt = self._typed(db, a[0], "hash")
        if wt:
            return ERR
        return 1 if e is not None and a[1] in e.v else 0

    def c_HKEYS(self, db, a):
        if len(a) != 1:
            return ERR
        e, wt = self._typed(db, a[0], "hash")
        if wt:
            return ERR
        return Unordered([] if e is None else list(e.v.keys()))

    def c_HVALS(self, db, a):
        if len(a) != 1:
            return ERR
        e, wt = self._typed(db, a[0], "hash")
        if wt:
            return ERR
        return Unordered([] if e is None else list(e.v.values()))

    def c_HINCRBY(self, db, a):
        if len(a) != 3:
            return ERR
        n = parse_int(a[2])
        e, wt = self._typed(db, a[0], "hash")
        if wt or n is None:
            return ERR
        cur = 0
        if e is not None and a[1] in e.v:
            cur = parse_int(e.v[a[1]])
            if cur is None:
                old = e.v[a[1]]
                if is_noncanonical_int(old) and old == old.strip():
                    lenient = int(old.decode("ascii")) + n
                    if I64_MIN <= lenient <= I64_MAX and I64_MIN <= lenient - n <= I64_MAX:
                        field = a[1]

                        def fn(act):
                            if isinstance(act, Err):
                                return True
                            if act == lenient and not isinstance(act, bool):
                                e.v[field] = b"%d" % lenient
                                return True
                            return False
                        return Adopt(fn, "error, or %d by lenient integer parsing" % lenient)
                return ERR
        nv = cur + n
        if nv < I64_MIN or nv > I64_MAX:
            return ERR
        if e is None:
            e = Entry("hash", {})
            self.dbs[db][a[0]] = e
        e.v[a[1]] = b"%d" % nv
        return nv

    # ================================================================= sorted sets
    def c_ZADD(self, db, a):
        if len(a) < 3 or (len(a) - 1) % 2:
            return ERR
        pairs = []
        for i in range(1, len(a), 2):
            f = parse_float(a[i])
            if f is None or math.isnan(f):
                return ERR
            pairs.append((f, a[i + 1]))
        e, wt = self._typed(db, a[0], "zset")
        if wt:
            return ERR
        if e is None:
            e = Entry("zset", {})
            self.dbs[db][a[0]] = e
        n = 0
        for f, m in pairs:
            if m not in e.v:
                n += 1
            e.v[m] = f + 0.0
        return n

    def c_ZREM(self, db, a):
        if len(a) < 2:
            return ERR
        e, wt = self._typed(db, a[0], "zset")
        if wt:
            return ERR
        if e is None:
            return 0
        n = 0
        for m in a[1:]:
            if m in e.v:
                del e.v[m]
                n += 1
        self._del_if_empty(db, a[0])
        return n

    def c_ZSCORE(self, db, a):
        if len(a) != 2:
            return ERR
        e, wt = self._typed(db, a[0], "zset")
        if wt:
            return ERR
        if e is None or a[1] not in e.v:
            return None
        return Score(e.v[a[1]])

    def c_ZCARD(self, db, a):
        if len(a) != 1:
            return ERR
        e, wt = self._typed(db, a[0], "zset")
        if wt:
            return ERR
        return 0 if e is None else len(e.v)

    def _zrank(self, db, a, rev):
        if len(a) != 2:
            return ERR
        e, wt = self._typed(db, a[0], "zset")
        if wt:
            return ERR
        if e is None or a[1] not in e.v:
            return None
        order = [m for m, _ in zorder(e.v)]
        i = order.index(a[1])
        return len(order) - 1 - i if rev else i

    def c_ZRANK(self, db, a):
        return self._zrank(db, a, False)

    def c_ZREVRANK(self, db, a):
        return self._zrank(db, a, True)

    @staticmethod
    def _flat(items, withscores):
        out = []
        for m, s in items:
            out.append(m)
            if withscores:
                out.append(Score(s))
        return out

    def _zrange(self, db, a, rev):
        if len(a) not in (3, 4):
            return ERR
        ws = False
        if len(a) == 4:
            if a[3].upper() != b"WITHSCORES":
                return ERR
            ws = True
        s, t = parse_int(a[1]), parse_int(a[2])
        if s is None or t is None:
            return ERR
        e, wt = self._typed(db, a[0], "zset")
        if wt:
            return ERR
        if e is None:
            return []
        order = zorder(e.v)
        if rev:
            order.reverse()
        r = self._range(len(order), s, t)
        if r is None:
            return []
        return self._flat(order[r[0]:r[1] + 1], ws)

    def c_ZRANGE(self, db, a):
        return self._zrange(db, a, False)

    def c_ZREVRANGE(self, db, a):
        return self._zrange(db, a, True)

    @staticmethod
    def _bound(b):
        f = parse_float(b)
        if f is None or math.isnan(f):
            return None
        return f

    def _zrangebyscore(self, db, a, rev):
        if len(a) not in (3, 4):
            return ERR
        ws = False
        if len(a) == 4:
            if a[3].upper() != b"WITHSCORES":
                return ERR
            ws = True
        lo, hi = self._bound(a[1]), self._bound(a[2])
        if lo is None or hi is None:
            return ERR
        if rev:
            lo, hi = hi, lo
        e, wt = self._typed(db, a[0], "zset")
        if wt:
            return ERR
        if e is None:
            return []
        order = [(m, s) for m, s in zorder(e.v) if lo <= s <= hi]
        if rev:
            order.reverse()
        return self._flat(order, ws)

    def c_ZRANGEBYSCORE(self, db, a):
        return self._zrangebyscore(db, a, False)

    def c_ZREVRANGEBYSCORE(self, db, a):
        return self._zrangebyscore(db, a, True)

    def c_ZCOUNT(self, db, a):
        if len(a) != 3:
            return ERR
        lo, hi = self._bound(a[1]), self._bound(a[2])
        if lo is None or hi is None:
            return ERR
        e, wt = self._typed(db, a[0], "zset")
        if wt:
            return ERR
        if e is None:
            return 0
        return sum(1 for s in e.v.values() if lo <= s <= hi)

    def c_ZINCRBY(self, db, a):
        if len(a) != 3:
            return ERR
        inc = parse_float(a[1])
        if inc is None or math.isnan(inc):
            return ERR
        e, wt = self._typed(db, a[0], "zset")
        if wt:
            return ERR
        cur = 0.0
        if e is not None and a[2] in e.v:
            cur = e.v[a[2]]
        nv = cur + inc
        if math.isnan(nv):
            return ERR
        if e is None:
            e = Entry("zset", {})
            self.dbs[db][a[0]] = e
        e.v[a[2]] = nv
        return Score(nv)

    def _zpop(self, db, a, mx):
        if len(a) < 1 or len(a) > 2:
            return ERR
        cnt = 1
        if len(a) == 2:
            cnt = parse_int(a[1])
            if cnt is None or cnt < 0:
                return ERR if cnt is None else ANY  # negative count: versions differ
        e, wt = self._typed(db, a[0], "zset")
        if wt:
            return ANY if cnt == 0 else ERR  # count 0 before/after the type check: versions differ
        if e is None or cnt == 0:
            return OneOf([], NULL_ARRAY)
        order = zorder(e.v)
        if mx:
            order.reverse()
        take = order[:cnt]
        for m, _ in take:
            del e.v[m]
        self._del_if_empty(db, a[0])
        return self._flat(take, True)

    def c_ZPOPMIN(self, db, a):
        return self._zpop(db, a, False)

    def c_ZPOPMAX(self, db, a):
        return self._zpop(db, a, True)

    # ================================================================= misc
    def c_PING(self, db, a):
        if len(a) == 0:
            return Status(b"PONG")
        if len(a) == 1:
            return a[0]
        return ERR

    def c_ECHO(self, db, a):
        if len(a) != 1:
            return ERR
        return a[0]

#!/bin/sh
# Repository's own suite with the verif feature OFF.
cd /repo || exit 2
export CARGO_NET_OFFLINE=true
if command -v cargo-nextest >/dev/null 2>&1; then
  cargo nextest run --workspace --no-fail-fast --offline && exit 0
  echo "nextest failed or unavailable; falling back to cargo test" >&2
fi
exec cargo test --workspace --no-fail-fast --offline

//! Shared machinery of the in-process harness (engine E4).
//!
//! * counting global allocator (largest single request, bytes live)
//! * tiny reproducible PRNG (splitmix64 seeding + xorshift64*)
//! * silent panic hook + `catch` wrapper that reports message and location
//! * child-process runner with wall-clock watchdog and 8 MB main-thread stack
//! * hand-rolled JSON report
//! * CLI parsing common to the three binaries
#![cfg_attr(miri, allow(dead_code, unused_imports))]

use std::alloc::{GlobalAlloc, Layout, System};
use std::cell::RefCell;
use std::collections::{BTreeMap, BTreeSet};
use std::io::Read;
use std::sync::atomic::{AtomicUsize, Ordering};
use std::time::{Duration, Instant};

// ---------------------------------------------------------------------------
// Counting allocator
// ---------------------------------------------------------------------------

pub struct CountingAlloc;

static PEAK_SINGLE: AtomicUsize = AtomicUsize::new(0);
static LIVE: AtomicUsize = AtomicUsize::new(0);
static LIVE_MAX: AtomicUsize = AtomicUsize::new(0);

#[inline(always)]
fn note(size: usize) {
    if size > PEAK_SINGLE.load(Ordering::Relaxed) {
        PEAK_SINGLE.fetch_max(size, Ordering::Relaxed);
    }
}

#[inline(always)]
fn live_add(size: usize) {
    let now = LIVE.fetch_add(size, Ordering::Relaxed).wrapping_add(size);
    if now > LIVE_MAX.load(Ordering::Relaxed) {
        LIVE_MAX.fetch_max(now, Ordering::Relaxed);
    }
}

unsafe impl GlobalAlloc for CountingAlloc {
    #[inline]
    unsafe fn alloc(&self, layout: Layout) -> *mut u8 {
        note(layout.size());
        let p = System.alloc(layout);
        if !p.is_null() {
            live_add(layout.size());
        }
        p
    }
    #[inline]
    unsafe fn alloc_zeroed(&self, layout: Layout) -> *mut u8 {
        note(layout.size());
        let p = System.alloc_zeroed(layout);
        if !p.is_null() {
            live_add(layout.size());
        }
        p
    }
    #[inline]
    unsafe fn dealloc(&self, ptr: *mut u8, layout: Layout) {
        LIVE.fetch_sub(layout.size(), Ordering::Relaxed);
        System.dealloc(ptr, layout)
    }
    #[inline]
    unsafe fn realloc(&self, ptr: *mut u8, layout: Layout, new_size: usize) -> *mut u8 {
        note(new_size);
        let p = System.realloc(ptr, layout, new_size);
        if !p.is_null() {
            LIVE.fetch_sub(layout.size(), Ordering::Relaxed);
            live_add(new_size);
        }
        p
    }
}

#[global_allocator]
static GLOBAL: CountingAlloc = CountingAlloc;

/// Forget the largest single request seen so far.
#[inline(always)]
pub fn reset_peak() {
    PEAK_SINGLE.store(0, Ordering::Relaxed);
}

/// Largest single allocation request (alloc / alloc_zeroed / realloc size)
/// since the last `reset_peak`, whether or not the request succeeded.
#[inline(always)]
pub fn peak() -> usize {
    PEAK_SINGLE.load(Ordering::Relaxed)
}

/// Bytes currently live.
pub fn live() -> usize {
    LIVE.load(Ordering::Relaxed)
}

/// High-water mark of live bytes since process start.
pub fn live_max() -> usize {
    LIVE_MAX.load(Ordering::Relaxed)
}

// ---------------------------------------------------------------------------
// PRNG
// ---------------------------------------------------------------------------

pub fn splitmix(mut z: u64) -> u64 {
    z = z.wrapping_add(0x9E37_79B9_7F4A_7C15);
    z = (z ^ (z >> 30)).wrapping_mul(0xBF58_476D_1CE4_E5B9);
    z = (z ^ (z >> 27)).wrapping_mul(0x94D0_49BB_1331_11EB);
    z ^ (z >> 31)
}

/// Derive an independent seed from a master seed and up to two indices.
pub fn mix(seed: u64, a: u64, b: u64) -> u64 {
    splitmix(splitmix(seed ^ splitmix(a.wrapping_mul(0xA24B_AED4_963E_E407))) ^ splitmix(b.wrapping_add(0x1234_5678_9ABC_DEF1)))
}

#[derive(Clone)]
pub struct Rng(u64);

impl Rng {
    pub fn new(seed: u64) -> Rng {
        let mut s = splitmix(seed);
        if s == 0 {
            s = 0x2545_F491_4F6C_DD1D;
        }
        Rng(s)
    }
    #[inline]
    pub fn next_u64(&mut self) -> u64 {
        let mut x = self.0;
        x ^= x >> 12;
        x ^= x << 25;
        x ^= x >> 27;
        self.0 = x;
        x.wrapping_mul(0x2545_F491_4F6C_DD1D)
    }
    /// Uniform in 0..n (n > 0).
    #[inline]
    pub fn below(&mut self, n: u64) -> u64 {
        debug_assert!(n > 0);
        ((self.next_u64() >> 11) as u128 * n as u128 >> 53) as u64
    }
    #[inline]
    pub fn usize_below(&mut self, n: usize) -> usize {
        self.below(n as u64) as usize
    }
    /// Uniform in lo..=hi.
    pub fn range(&mut self, lo: usize, hi: usize) -> usize {
        lo + self.usize_below(hi - lo + 1)
    }
    /// True with probability num/den.
    pub fn chance(&mut self, num: u64, den: u64) -> bool {
        self.below(den) < num
    }
    pub fn pick<'a, T>(&mut self, xs: &'a [T]) -> &'a T {
        &xs[self.usize_below(xs.len())]
    }
    pub fn byte(&mut self) -> u8 {
        (self.next_u64() >> 32) as u8
    }
    pub fn bytes(&mut self, n: usize) -> Vec<u8> {
        let mut v = Vec::with_capacity(n);
        while v.len() < n {
            let w = self.next_u64().to_le_bytes();
            let take = (n - v.len()).min(8);
            v.extend_from_slice(&w[..take]);
        }
        v
    }
}

// ---------------------------------------------------------------------------
// Panic capture
// ---------------------------------------------------------------------------

#[derive(Clone, Debug)]
pub struct PanicInfo {
    pub msg: String,
    /// `file:line`, file normalised (`src/...` for the crate under test,
    /// `library/...` for std).
    pub loc: String,
}

thread_local! {
    static LAST_PANIC: RefCell<Option<PanicInfo>> = const { RefCell::new(None) };
}

pub fn normalise_path(p: &str) -> String {
    if let Some(i) = p.find("/library/") {
        return p[i + 1..].to_string();
    }
    if let Some(rest) = p.strip_prefix("/repo/") {
        return rest.to_string();
    }
    if let Some(i) = p.find("/verif/rs/") {
        return format!("harness/{}", &p[i + 10..]);
    }
    p.to_string()
}

/// First backtrace frame that lies in /repo/src, as `src/...:line`.
fn repo_frame_from_backtrace() -> Option<String> {
    let bt = std::backtrace::Backtrace::force_capture().to_string();
    for line in bt.lines() {
        let l = line.trim_start();
        if let Some(rest) = l.strip_prefix("at /repo/") {
            // rest = src/protocol/parser.rs:204:24
            let mut it = rest.rsplitn(2, ':');
            let _col = it.next();
            if let Some(file_line) = it.next() {
                return Some(file_line.to_string());
            }
        }
    }
    None
}

/// Install a silent panic hook that records message and location per thread.
pub fn install_panic_hook() {
    std::panic::set_hook(Box::new(|info| {
        let loc = match info.location() {
            Some(l) => format!("{}:{}", normalise_path(l.file()), l.line()),
            None => "unknown".to_string(),
        };
        let mut via = String::new();
        if !loc.starts_with("src/") {
            // Panic raised inside std (e.g. "capacity overflow"): the signature
            // keeps the panic's own location (stable), the detail also names the
            // innermost frame of the crate under test (inlining-dependent).
            if let Some(inner) = repo_frame_from_backtrace() {
                via = format!(" (reached from {})", inner);
            }
        }
        let msg = if let Some(s) = info.payload().downcast_ref::<&str>() {
            (*s).to_string()
        } else if let Some(s) = info.payload().downcast_ref::<String>() {
            s.clone()
        } else {
            "<non-string panic payload>".to_string()
        };
        LAST_PANIC.with(|c| {
            if let Ok(mut g) = c.try_borrow_mut() {
                *g = Some(PanicInfo { msg: format!("{}{}", msg, via), loc });
            }
        });
    }));
}

/// Run `f`, turning a panic into `Err(PanicInfo)`.
pub fn catch<R>(f: impl FnOnce() -> R) -> Result<R, PanicInfo> {
    LAST_PANIC.with(|c| *c.borrow_mut() = None);
    match std::panic::catch_unwind(std::panic::AssertUnwindSafe(f)) {
        Ok(r) => Ok(r),
        Err(_) => {
            let info = LAST_PANIC.with(|c| c.borrow_mut().take());
            Err(info.unwrap_or(PanicInfo { msg: "<panic, hook saw nothing>".into(), loc: "unknown".into() }))
        }
    }
}

// ---------------------------------------------------------------------------
// Byte helpers
// ---------------------------------------------------------------------------

pub fn to_hex(b: &[u8]) -> String {
    const H: &[u8; 16] = b"0123456789abcdef";
    let mut s = String::with_capacity(b.len() * 2);
    for &x in b {
        s.push(H[(x >> 4) as usize] as char);
        s.push(H[(x & 15) as usize] as char);
    }
    s
}

pub fn from_hex(s: &str) -> Result<Vec<u8>, String> {
    let s = s.trim();
    if s.len() % 2 != 0 {
        return Err(format!("odd hex length {}", s.len()));
    }
    let mut out = Vec::with_capacity(s.len() / 2);
    let b = s.as_bytes();
    for i in (0..b.len()).step_by(2) {
        let hi = (b[i] as char).to_digit(16).ok_or_else(|| format!("bad hex digit at {}", i))?;
        let lo = (b[i + 1] as char).to_digit(16).ok_or_else(|| format!("bad hex digit at {}", i + 1))?;
        out.push((hi * 16 + lo) as u8);
    }
    Ok(out)
}

/// Printable rendering: ASCII kept, `\r` `\n` `\t` `\\` `\"` escaped, rest `\xNN`.
/// At most `max` input bytes are shown.
pub fn escape_bytes(b: &[u8], max: usize) -> String {
    let mut s = String::new();
    for &x in b.iter().take(max) {
        match x {
            b'\r' => s.push_str("\\r"),
            b'\n' => s.push_str("\\n"),
            b'\t' => s.push_str("\\t"),
            b'\\' => s.push_str("\\\\"),
            b'"' => s.push_str("\\\""),
            0x20..=0x7e => s.push(x as char),
            _ => s.push_str(&format!("\\x{:02x}", x)),
        }
    }
    if b.len() > max {
        s.push_str(&format!("...(+{} bytes)", b.len() - max));
    }
    s
}

/// Replace every maximal digit run by `N` and every `[...]` group by `[..]`.
pub fn normalise_text(s: &str) -> String {
    let mut out = String::new();
    let mut in_digits = false;
    let mut depth = 0usize;
    for ch in s.chars() {
        if ch == '[' {
            if depth == 0 {
                out.push_str("[..]");
            }
            depth += 1;
            in_digits = false;
            continue;
        }
        if ch == ']' && depth > 0 {
            depth -= 1;
            continue;
        }
        if depth > 0 {
            continue;
        }
        if ch.is_ascii_digit() {
            if !in_digits {
                out.push('N');
                in_digits = true;
            }
        } else {
            in_digits = false;
            out.push(ch);
        }
    }
    out
}

// ---------------------------------------------------------------------------
// JSON report
// ---------------------------------------------------------------------------

pub fn jstr(s: &str) -> String {
    let mut o = String::with_capacity(s.len() + 2);
    o.push('"');
    for ch in s.chars() {
        match ch {
            '"' => o.push_str("\\\""),
            '\\' => o.push_str("\\\\"),
            '\n' => o.push_str("\\n"),
            '\r' => o.push_str("\\r"),
            '\t' => o.push_str("\\t"),
            c if (c as u32) < 0x20 => o.push_str(&format!("\\u{:04x}", c as u32)),
            c => o.push(c),
        }
    }
    o.push('"');
    o
}

#[derive(Clone, Debug)]
pub struct Violation {
    pub sig: String,
    pub detail: String,
    pub replay: String,
}

#[derive(Default)]
pub struct Report {
    pub evaluations: u64,
    pub cells: BTreeSet<String>,
    pub violations: Vec<Violation>,
    /// witness size per entry of `violations`
    pub weights: Vec<usize>,
    pub violation_counts: BTreeMap<String, u64>,
    pub inconclusive: Vec<String>,
    pub samples: Vec<String>,
    /// key -> raw JSON value
    pub extra: BTreeMap<String, String>,
}

impl Report {
    pub fn new() -> Report {
        Report::default()
    }
    pub fn cell(&mut self, c: impl Into<String>) {
        self.cells.insert(c.into());
    }
    /// Record a violation; one witness is kept per signature (the one with
    /// the shortest replay string), occurrences are counted.
    pub fn violation(&mut self, sig: impl Into<String>, detail: impl Into<String>, replay: impl Into<String>) {
        let replay = replay.into();
        let w = replay.len();
        self.violation_w(sig, detail, replay, w);
    }
    /// Same, with an explicit witness size (smaller wins).
    pub fn violation_w(&mut self, sig: impl Into<String>, detail: impl Into<String>, replay: impl Into<String>, weight: usize) {
        let sig = sig.into();
        let detail = detail.into();
        let replay = replay.into();
        *self.violation_counts.entry(sig.clone()).or_insert(0) += 1;
        if let Some(i) = self.violations.iter().position(|v| v.sig == sig) {
            if weight < self.weights[i] {
                self.violations[i].detail = detail;
                self.violations[i].replay = replay;
                self.weights[i] = weight;
            }
        } else {
            self.violations.push(Violation { sig, detail, replay });
            self.weights.push(weight);
        }
    }
    pub fn inconclusive(&mut self, s: impl Into<String>) {
        let s = s.into();
        if self.inconclusive.len() < 50 && !self.inconclusive.contains(&s) {
            self.inconclusive.push(s);
        }
    }
    pub fn sample(&mut self, s: impl Into<String>) {
        if self.samples.len() < 12 {
            self.samples.push(s.into());
        }
    }
    pub fn extra_num(&mut self, k: &str, v: impl std::fmt::Display) {
        self.extra.insert(k.to_string(), v.to_string());
    }
    pub fn extra_str(&mut self, k: &str, v: &str) {
        self.extra.insert(k.to_string(), jstr(v));
    }
    pub fn extra_bool(&mut self, k: &str, v: bool) {
        self.extra.insert(k.to_string(), if v { "true".into() } else { "false".into() });
    }
    pub fn extra_add(&mut self, k: &str, n: u64) {
        let cur: u64 = self.extra.get(k).and_then(|s| s.parse().ok()).unwrap_or(0);
        self.extra.insert(k.to_string(), (cur + n).to_string());
    }
    pub fn to_json(&self) -> String {
        let mut s = String::new();
        s.push_str(&format!("{{\"evaluations\": {}, \"cells\": [", self.evaluations));
        s.push_str(&self.cells.iter().map(|c| jstr(c)).collect::<Vec<_>>().join(", "));
        s.push_str("], \"violations\": [");
        let mut vs: Vec<&Violation> = self.violations.iter().collect();
        vs.sort_by(|a, b| a.sig.cmp(&b.sig));
        s.push_str(
            &vs.iter()
                .map(|v| format!("{{\"sig\": {}, \"detail\": {}, \"replay\": {}}}", jstr(&v.sig), jstr(&v.detail), jstr(&v.replay)))
                .collect::<Vec<_>>()
                .join(", "),
        );
        s.push_str("], \"inconclusive\": [");
        s.push_str(&self.inconclusive.iter().map(|c| jstr(c)).collect::<Vec<_>>().join(", "));
        s.push_str("], \"samples\": [");
        s.push_str(&self.samples.iter().map(|c| jstr(c)).collect::<Vec<_>>().join(", "));
        s.push_str("], \"extra\": {");
        let mut ex: Vec<String> = self.extra.iter().map(|(k, v)| format!("{}: {}", jstr(k), v)).collect();
        let counts = self
            .violation_counts
            .iter()
            .map(|(k, v)| format!("{}: {}", jstr(k), v))
            .collect::<Vec<_>>()
            .join(", ");
        ex.push(format!("\"violation_counts\": {{{}}}", counts));
        s.push_str(&ex.join(", "));
        s.push_str("}}");
        s
    }
    /// Print the report as the last line of stdout.
    pub fn emit(&self) {
        use std::io::Write;
        let out = std::io::stdout();
        let mut l = out.lock();
        let _ = writeln!(l, "{}", self.to_json());
        let _ = l.flush();
    }
}

// ---------------------------------------------------------------------------
// CLI
// ---------------------------------------------------------------------------

#[derive(Clone, Copy, PartialEq, Eq, Debug)]
pub enum Tier {
    Quick,
    Thorough,
}

#[derive(Clone, Debug)]
pub struct Args {
    pub seed: u64,
    pub budget_s: f64,
    pub tier: Tier,
    pub max_cases: Option<u64>,
    pub miri: bool,
    pub replay: Option<String>,
    /// Everything after `--child` / `--child-batch`.
    pub child: Option<Vec<String>>,
    /// Unrecognised `--key value` pairs (binary-specific options).
    pub other: BTreeMap<String, String>,
}

pub fn harness_broken(msg: &str) -> ! {
    eprintln!("harness error: {}", msg);
    std::process::exit(2);
}

pub fn parse_args() -> Args {
    let argv: Vec<String> = std::env::args().skip(1).collect();
    let mut a = Args {
        seed: 1,
        budget_s: 20.0,
        tier: Tier::Quick,
        max_cases: None,
        miri: false,
        replay: None,
        child: None,
        other: BTreeMap::new(),
    };
    let mut i = 0;
    let need = |i: usize, argv: &Vec<String>| -> String {
        match argv.get(i + 1) {
            Some(v) => v.clone(),
            None => harness_broken(&format!("option {} needs a value", argv[i])),
        }
    };
    while i < argv.len() {
        match argv[i].as_str() {
            "--seed" => {
                a.seed = need(i, &argv).parse().unwrap_or_else(|_| harness_broken("--seed wants a u64"));
                i += 2;
            }
            "--budget-s" => {
                a.budget_s = need(i, &argv).parse().unwrap_or_else(|_| harness_broken("--budget-s wants seconds"));
                i += 2;
            }
            "--tier" => {
                a.tier = match need(i, &argv).as_str() {
                    "quick" => Tier::Quick,
                    "thorough" => Tier::Thorough,
                    _ => harness_broken("--tier wants quick|thorough"),
                };
                i += 2;
            }
            "--max-cases" => {
                a.max_cases = Some(need(i, &argv).parse().unwrap_or_else(|_| harness_broken("--max-cases wants an integer")));
                i += 2;
            }
            "--miri" => {
                a.miri = true;
                i += 1;
            }
            "--replay" => {
                a.replay = Some(need(i, &argv));
                i += 2;
            }
            "--child" | "--child-batch" => {
                a.child = Some(argv[i + 1..].to_vec());
                break;
            }
            s if s.starts_with("--") => {
                let v = need(i, &argv);
                a.other.insert(s[2..].to_string(), v);
                i += 2;
            }
            s => harness_broken(&format!("unexpected argument {:?}", s)),
        }
    }
    a
}

/// Wall-clock budget helper.
pub struct Budget {
    start: Instant,
    limit: Duration,
}

impl Budget {
    pub fn new(secs: f64) -> Budget {
        Budget { start: Instant::now(), limit: Duration::from_secs_f64(secs.max(0.0)) }
    }
    pub fn elapsed(&self) -> f64 {
        self.start.elapsed().as_secs_f64()
    }
    /// True once `frac` (0..=1) of the budget is used.
    pub fn used(&self, frac: f64) -> bool {
        self.start.elapsed().as_secs_f64() >= self.limit.as_secs_f64() * frac
    }
    pub fn over(&self) -> bool {
        self.start.elapsed() >= self.limit
    }
}

// ---------------------------------------------------------------------------
// Child processes
// ---------------------------------------------------------------------------

#[derive(Debug, Clone, PartialEq, Eq)]
pub enum ChildEnd {
    Exit(i32),
    Signal(i32),
    Timeout,
}

pub struct ChildResult {
    pub end: ChildEnd,
    pub stdout: String,
    pub stderr: String,
    pub elapsed: Duration,
}

pub const CHILD_STACK_BYTES: u64 = 8 * 1024 * 1024;

/// Build a command that re-executes this binary with an 8 MB main-thread
/// stack (RLIMIT_STACK soft limit, which is what sizes the main thread).
#[cfg(not(miri))]
pub fn self_command(args: &[String]) -> std::process::Command {
    use std::os::unix::process::CommandExt;
    let exe = std::env::current_exe().unwrap_or_else(|e| harness_broken(&format!("current_exe: {}", e)));
    let mut cmd = std::process::Command::new(exe);
    cmd.args(args);
    cmd.env("RUST_BACKTRACE", "0");
    unsafe {
        cmd.pre_exec(|| {
            let mut rl = libc::rlimit { rlim_cur: 0, rlim_max: 0 };
            if libc::getrlimit(libc::RLIMIT_STACK, &mut rl) == 0 {
                let want = CHILD_STACK_BYTES as libc::rlim_t;
                rl.rlim_cur = if rl.rlim_max == libc::RLIM_INFINITY || rl.rlim_max >= want { want } else { rl.rlim_max };
                libc::setrlimit(libc::RLIMIT_STACK, &rl);
            }
            // no core files from deliberate crashes
            let z = libc::rlimit { rlim_cur: 0, rlim_max: 0 };
            libc::setrlimit(libc::RLIMIT_CORE, &z);
            Ok(())
        });
    }
    cmd
}

/// Run this binary again with `args`; kill it after `timeout`.
#[cfg(not(miri))]
pub fn run_child(args: &[String], timeout: Duration) -> ChildResult {
    use std::os::unix::process::ExitStatusExt;
    use std::process::Stdio;
    let start = Instant::now();
    let mut cmd = self_command(args);
    cmd.stdin(Stdio::null()).stdout(Stdio::piped()).stderr(Stdio::piped());
    let mut child = cmd.spawn().unwrap_or_else(|e| harness_broken(&format!("cannot spawn child: {}", e)));
    let mut so = child.stdout.take().unwrap();
    let mut se = child.stderr.take().unwrap();
    let t1 = std::thread::spawn(move || {
        let mut v = Vec::new();
        let _ = so.read_to_end(&mut v);
        v
    });
    let t2 = std::thread::spawn(move || {
        let mut v = Vec::new();
        let _ = se.read_to_end(&mut v);
        v
    });
    let mut sleep_us = 200u64;
    let end = loop {
        match child.try_wait() {
            Ok(Some(st)) => {
                if let Some(c) = st.code() {
                    break ChildEnd::Exit(c);
                }
                break ChildEnd::Signal(st.signal().unwrap_or(-1));
            }
            Ok(None) => {
                if start.elapsed() >= timeout {
                    let _ = child.kill();
                    let _ = child.wait();
                    break ChildEnd::Timeout;
                }
                std::thread::sleep(Duration::from_micros(sleep_us));
                sleep_us = (sleep_us * 2).min(5000);
            }
            Err(e) => harness_broken(&format!("wait on child failed: {}", e)),
        }
    };
    let stdout = String::from_utf8_lossy(&t1.join().unwrap_or_default()).to_string();
    let stderr = String::from_utf8_lossy(&t2.join().unwrap_or_default()).to_string();
    ChildResult { end, stdout, stderr, elapsed: start.elapsed() }
}

#[cfg(miri)]
pub fn run_child(_args: &[String], _timeout: Duration) -> ChildResult {
    harness_broken("child processes are not available under Miri")
}

pub fn signal_name(sig: i32) -> String {
    match sig {
        6 => "SIGABRT".into(),
        9 => "SIGKILL".into(),
        11 => "SIGSEGV".into(),
        7 => "SIGBUS".into(),
        4 => "SIGILL".into(),
        8 => "SIGFPE".into(),
        n => format!("signal-{}", n),
    }
}

fn main() {}

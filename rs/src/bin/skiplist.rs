//! C04 support — random operation histories on `SkipList<Vec<u8>, f64>`
//! against a sorted-vector model, with the structural walker after every
//! operation.  See /verif/rs/README.md.

use ferrous::storage::skiplist::SkipList;
use std::collections::BTreeMap;
use verif_rs::*;

type Item = (Vec<u8>, f64);

const GRID: [f64; 7] = [-2.0, -1.0, -0.5, 0.0, 0.5, 1.0, 2.0];
const SPECIAL: [f64; 13] = [
    0.0,
    -0.0,
    f64::INFINITY,
    f64::NEG_INFINITY,
    1e308,
    -1e308,
    5e-324,
    -5e-324,
    f64::MAX,
    f64::MIN,
    f64::MIN_POSITIVE,
    9007199254740992.0,
    9007199254740993.0,
];

fn next_after(x: f64, up: bool) -> f64 {
    if x.is_nan() {
        return 0.0;
    }
    if x == 0.0 {
        return if up { 5e-324 } else { -5e-324 };
    }
    if x.is_infinite() {
        if (x > 0.0) == up {
            return x;
        }
        return if x > 0.0 { f64::MAX } else { f64::MIN };
    }
    let b = x.to_bits();
    let nb = if (x > 0.0) == up { b + 1 } else { b - 1 };
    f64::from_bits(nb)
}

fn score_cmp(a: f64, b: f64) -> std::cmp::Ordering {
    a.partial_cmp(&b).expect("no NaN in the model")
}

fn item_cmp(a: &Item, b: &Item) -> std::cmp::Ordering {
    score_cmp(a.1, b.1).then_with(|| a.0.cmp(&b.0))
}

struct Model {
    map: BTreeMap<Vec<u8>, f64>,
}

impl Model {
    fn sorted(&self) -> Vec<Item> {
        let mut v: Vec<Item> = self.map.iter().map(|(k, s)| (k.clone(), *s)).collect();
        v.sort_by(item_cmp);
        v
    }
    fn rank(&self, m: &[u8]) -> Option<usize> {
        let s = *self.map.get(m)?;
        let me = (m.to_vec(), s);
        Some(self.map.iter().filter(|(k, sc)| item_cmp(&((*k).clone(), **sc), &me) == std::cmp::Ordering::Less).count())
    }
}

fn pool(size: usize) -> Vec<Vec<u8>> {
    let fixed: [&[u8]; 12] = [b"", b"a", b"b", b"aa", b"ab", b"\x00", b"\x00\x00", b"\xff", b"\xff\xff", b"a\x00", b"a\xff", b"B"];
    let mut p: Vec<Vec<u8>> = fixed.iter().take(size).map(|s| s.to_vec()).collect();
    let mut i = 0u32;
    while p.len() < size {
        if i % 3 == 0 {
            p.push(vec![(i / 3 % 256) as u8, (i / 768) as u8, 0x80]);
        } else {
            p.push(format!("m{}", i).into_bytes());
        }
        i += 1;
    }
    p
}

fn show_item(i: &Item) -> String {
    format!("(\"{}\", {:?}/0x{:016x})", escape_bytes(&i.0, 16), i.1, i.1.to_bits())
}

fn show_items(v: &[Item]) -> String {
    let mut s = String::from("[");
    for (i, x) in v.iter().enumerate() {
        if i > 0 {
            s.push_str(", ");
        }
        if i >= 10 {
            s.push_str(&format!("… {} more", v.len() - i));
            break;
        }
        s.push_str(&show_item(x));
    }
    s.push(']');
    s
}

fn items_same(a: &[Item], b: &[Item]) -> bool {
    a.len() == b.len() && a.iter().zip(b).all(|(x, y)| x.0 == y.0 && x.1.to_bits() == y.1.to_bits())
}

fn opt_score_same(a: Option<f64>, b: Option<f64>) -> bool {
    match (a, b) {
        (None, None) => true,
        (Some(x), Some(y)) => x.to_bits() == y.to_bits(),
        _ => false,
    }
}

struct Fail {
    sig: String,
    detail: String,
}

struct History<'a> {
    rng: Rng,
    pool: &'a [Vec<u8>],
    list: SkipList<Vec<u8>, f64>,
    model: Model,
    trace: Vec<String>,
    cells: std::collections::BTreeSet<&'static str>,
    ops: u64,
    /// clear() probability per 100 000 operations
    clear_per_100k: u64,
}

impl<'a> History<'a> {
    fn gen_score(&mut self) -> f64 {
        let r = self.rng.below(100);
        let existing: Option<f64> = if self.model.map.is_empty() {
            None
        } else {
            let i = self.rng.usize_below(self.model.map.len());
            self.model.map.values().nth(i).copied()
        };
        if r < 35 {
            *self.rng.pick(&GRID)
        } else if r < 50 {
            *self.rng.pick(&SPECIAL)
        } else if r < 72 {
            match existing {
                Some(e) => match self.rng.below(3) {
                    0 => e,
                    1 => next_after(e, true),
                    _ => next_after(e, false),
                },
                None => 0.5,
            }
        } else if r < 90 {
            (self.rng.below(41) as f64 - 20.0) / 4.0
        } else {
            loop {
                let f = f64::from_bits(self.rng.next_u64());
                if !f.is_nan() {
                    break f;
                }
            }
        }
    }

    fn member(&mut self) -> Vec<u8> {
        self.pool[self.rng.usize_below(self.pool.len())].clone()
    }

    fn existing_member(&mut self) -> Option<Vec<u8>> {
        if self.model.map.is_empty() {
            return None;
        }
        let i = self.rng.usize_below(self.model.map.len());
        self.model.map.keys().nth(i).cloned()
    }

    fn note(&mut self, s: String) {
        if self.trace.len() >= 12 {
            self.trace.remove(0);
        }
        self.trace.push(s);
    }

    fn fail(&self, api: &str, what: &str, detail: String) -> Fail {
        Fail { sig: format!("skiplist/{}/{}", api, what), detail: format!("{}; last operations: {}", detail, self.trace.join(" ; ")) }
    }

    fn check_invariants(&self, after: &str) -> Result<(), Fail> {
        let probs = self.list.verif_check_invariants();
        if let Some(p) = probs.iter().min_by_key(|p| normalise_text(p)) {
            return Err(Fail {
                sig: format!("invariant/{}", normalise_text(p).replace(' ', "-")),
                detail: format!("after {}: walker reports {} problem(s), e.g. \"{}\"; last operations: {}", after, probs.len(), p, self.trace.join(" ; ")),
            });
        }
        Ok(())
    }

    fn full_compare(&mut self) -> Result<(), Fail> {
        let want = self.model.sorted();
        let got = self.list.get_all_items();
        if !items_same(&want, &got) {
            return Err(self.fail("get_all_items", "mismatch", format!("model {} but list {}", show_items(&want), show_items(&got))));
        }
        if self.list.len() != want.len() {
            return Err(self.fail("len", "mismatch", format!("model has {} members, len() says {}", want.len(), self.list.len())));
        }
        if self.list.is_empty() != want.is_empty() {
            return Err(self.fail("is_empty", "mismatch", format!("model has {} members, is_empty() says {}", want.len(), self.list.is_empty())));
        }
        let step = (want.len() / 48).max(1);
        for (i, it) in want.iter().enumerate().step_by(step) {
            let r = self.list.get_rank(&it.0);
            if r != Some(i) {
                return Err(self.fail("get_rank", "mismatch", format!("member \"{}\" has model rank {} but get_rank says {:?}", escape_bytes(&it.0, 16), i, r)));
            }
            let g = self.list.get_by_rank(i);
            if !g.as_ref().map_or(false, |g| g.0 == it.0 && g.1.to_bits() == it.1.to_bits()) {
                return Err(self.fail("get_by_rank", "mismatch", format!("rank {} should be {} but is {:?}", i, show_item(it), g.map(|g| show_item(&g)))));
            }
            let s = self.list.get_score(&it.0);
            if !opt_score_same(s, Some(it.1)) {
                return Err(self.fail("get_score", "mismatch", format!("member \"{}\" should score {:?} but get_score says {:?}", escape_bytes(&it.0, 16), it.1, s)));
            }
        }
        let all = self.list.range_by_rank(0, usize::MAX).items;
        if !items_same(&want, &all) {
            return Err(self.fail("range_by_rank", "mismatch", format!("range_by_rank(0, MAX): model {} but list {}", show_items(&want), show_items(&all))));
        }
        let all = self.list.range_by_score(f64::NEG_INFINITY, f64::INFINITY).items;
        if !items_same(&want, &all) {
            return Err(self.fail("range_by_score", "mismatch", format!("range_by_score(-inf, +inf): model {} but list {}", show_items(&want), show_items(&all))));
        }
        self.cells.insert("full-compare");
        Ok(())
    }

    fn step(&mut self) -> Result<(), Fail> {
        self.ops += 1;
        let r = self.rng.below(1000);
        let after: String;
        if r < 330 {
            // insert (new member or re-score)
            let rescoring = self.rng.chance(1, 2);
            let m = if rescoring { self.existing_member().unwrap_or_else(|| self.member()) } else { self.member() };
            let mut s = self.gen_score();
            let old = self.model.map.get(&m).copied();
            if let Some(o) = old {
                // directed re-score shapes
                match self.rng.below(8) {
                    0 => s = o,
                    1 => s = next_after(o, true),
                    2 => s = next_after(o, false),
                    3 if o == 0.0 => s = -o,
                    _ => {}
                }
            }
            let rank_before = self.model.rank(&m);
            self.note(format!("insert(\"{}\", {:?})", escape_bytes(&m, 16), s));
            let got = self.list.insert(m.clone(), s);
            self.model.map.insert(m.clone(), s);
            if !opt_score_same(got, old) {
                return Err(self.fail("insert", "return-value", format!("insert returned {:?}, model says previous score was {:?}", got, old)));
            }
            match (rank_before, self.model.rank(&m)) {
                (None, _) => {
                    self.cells.insert("insert/new");
                }
                (Some(a), Some(b)) => {
                    let d = if a > b { a - b } else { b - a };
                    self.cells.insert(match d {
                        0 => "insert/rescore-cross-0",
                        1 => "insert/rescore-cross-1",
                        _ => "insert/rescore-cross-many",
                    });
                    if let Some(o) = old {
                        if o == 0.0 && s == 0.0 && o.to_bits() != s.to_bits() {
                            self.cells.insert("insert/zero-sign-flip");
                        }
                        if o.to_bits() == s.to_bits() {
                            self.cells.insert("insert/rescore-same");
                        }
                    }
                }
                _ => {}
            }
            if s.is_infinite() {
                self.cells.insert("score/inf");
            }
            if s != 0.0 && s.abs() < f64::MIN_POSITIVE {
                self.cells.insert("score/subnormal");
            }
            if s == 0.0 && s.is_sign_negative() {
                self.cells.insert("score/negzero");
            }
            if self.model.map.iter().any(|(k, v)| *k != m && *v == s) {
                self.cells.insert("score/tie");
            }
            after = "insert".into();
        } else if r < 480 {
            let m = if self.rng.chance(3, 4) { self.existing_member().unwrap_or_else(|| self.member()) } else { self.member() };
            self.note(format!("remove(\"{}\")", escape_bytes(&m, 16)));
            let got = self.list.remove(&m);
            let want = self.model.map.remove(&m);
            self.cells.insert(if want.is_some() { "remove/present" } else { "remove/absent" });
            if !opt_score_same(got, want) {
                return Err(self.fail("remove", "return-value", format!("remove returned {:?}, model says {:?}", got, want)));
            }
            after = "remove".into();
        } else if r < 560 {
            let m = self.member();
            let got = self.list.get_score(&m);
            let want = self.model.map.get(&m).copied();
            self.cells.insert(if want.is_some() { "get_score/present" } else { "get_score/absent" });
            if !opt_score_same(got, want) {
                return Err(self.fail("get_score", "mismatch", format!("get_score(\"{}\") = {:?}, model {:?}", escape_bytes(&m, 16), got, want)));
            }
            after = "get_score".into();
        } else if r < 660 {
            let m = self.member();
            let got = self.list.get_rank(&m);
            let want = self.model.rank(&m);
            self.cells.insert(if want.is_some() { "get_rank/present" } else { "get_rank/absent" });
            if got != want {
                return Err(self.fail("get_rank", "mismatch", format!("get_rank(\"{}\") = {:?}, model {:?}", escape_bytes(&m, 16), got, want)));
            }
            after = "get_rank".into();
        } else if r < 730 {
            let n = self.model.map.len();
            let rank = if self.rng.chance(1, 10) { usize::MAX - self.rng.usize_below(2) } else { self.rng.usize_below(n + 3) };
            let got = self.list.get_by_rank(rank);
            let sorted = self.model.sorted();
            let want = sorted.get(rank).cloned();
            self.cells.insert(if want.is_some() { "get_by_rank/inside" } else { "get_by_rank/beyond" });
            let same = match (&got, &want) {
                (None, None) => true,
                (Some(a), Some(b)) => a.0 == b.0 && a.1.to_bits() == b.1.to_bits(),
                _ => false,
            };
            if !same {
                return Err(self.fail("get_by_rank", "mismatch", format!("get_by_rank({}) = {:?}, model {:?}", rank, got.map(|g| show_item(&g)), want.map(|g| show_item(&g)))));
            }
            after = "get_by_rank".into();
        } else if r < 830 {
            let n = self.model.map.len();
            let a = self.rng.usize_below(n + 3);
            let b = match self.rng.below(10) {
                0 => usize::MAX,
                1 => usize::MAX - 1,
                _ => self.rng.usize_below(n + 3),
            };
            let got = self.list.range_by_rank(a, b).items;
            let sorted = self.model.sorted();
            let want: Vec<Item> = if a >= sorted.len() || a > b { Vec::new() } else { sorted[a..=b.min(sorted.len() - 1)].to_vec() };
            self.cells.insert(if a > b {
                "range_by_rank/reversed"
            } else if a >= n {
                "range_by_rank/start-beyond"
            } else if b >= n {
                "range_by_rank/end-beyond"
            } else {
                "range_by_rank/inside"
            });
            if !items_same(&got, &want) {
                return Err(self.fail("range_by_rank", "mismatch", format!("range_by_rank({}, {}) = {}, model {}", a, b, show_items(&got), show_items(&want))));
            }
            after = "range_by_rank".into();
        } else if r < 960 {
            let mut lo = self.gen_score();
            let mut hi = self.gen_score();
            match self.rng.below(10) {
                0 => lo = f64::NEG_INFINITY,
                1 => hi = f64::INFINITY,
                2 => {
                    lo = f64::NEG_INFINITY;
                    hi = f64::INFINITY;
                }
                3 => hi = lo,
                4 => {
                    // deliberately reversed
                    if lo < hi {
                        std::mem::swap(&mut lo, &mut hi);
                    }
                }
                5 | 6 | 7 => {
                    if lo > hi {
                        std::mem::swap(&mut lo, &mut hi);
                    }
                }
                _ => {}
            }
            let got = self.list.range_by_score(lo, hi).items;
            let want: Vec<Item> = self.model.sorted().into_iter().filter(|it| it.1 >= lo && it.1 <= hi).collect();
            self.cells.insert(if lo > hi {
                "range_by_score/reversed"
            } else if lo == hi {
                "range_by_score/point"
            } else if lo.is_infinite() || hi.is_infinite() {
                "range_by_score/infinite-bound"
            } else if want.is_empty() {
                "range_by_score/empty"
            } else {
                "range_by_score/inside"
            });
            if !items_same(&got, &want) {
                return Err(self.fail("range_by_score", "mismatch", format!("range_by_score({:?}, {:?}) = {}, model {}", lo, hi, show_items(&got), show_items(&want))));
            }
            after = "range_by_score".into();
        } else if r < 995 || self.rng.below(500) >= self.clear_per_100k {
            let got = self.list.len();
            if got != self.model.map.len() || self.list.is_empty() != self.model.map.is_empty() {
                return Err(self.fail("len", "mismatch", format!("len() = {}, is_empty() = {}, model has {}", got, self.list.is_empty(), self.model.map.len())));
            }
            self.cells.insert("len");
            after = "len".into();
        } else {
            self.note("clear()".into());
            self.list.clear();
            self.model.map.clear();
            self.cells.insert("clear");
            after = "clear".into();
        }
        self.check_invariants(&after)
    }
}

struct HistResult {
    ops: u64,
    cells: std::collections::BTreeSet<&'static str>,
    fail: Option<Fail>,
    maxlen: usize,
}

fn run_history(hseed: u64, nops: u64, pool_size: usize, compare_every: u64) -> HistResult {
    let p = pool(pool_size);
    let mut h = History {
        rng: Rng::new(hseed),
        pool: &p,
        list: SkipList::new(),
        model: Model { map: BTreeMap::new() },
        trace: Vec::new(),
        cells: Default::default(),
        ops: 0,
        // short histories: 1 in 1000 operations, long ones: 1 in 25 000
        clear_per_100k: if nops > 1000 { 4 } else { 100 },
    };
    let mut maxlen = 0usize;
    let r = catch(|| {
        for i in 0..nops {
            h.step()?;
            maxlen = maxlen.max(h.model.map.len());
            if (i + 1) % compare_every == 0 {
                h.full_compare()?;
            }
        }
        h.full_compare()?;
        Ok::<(), Fail>(())
    });
    let fail = match r {
        Ok(Ok(())) => None,
        Ok(Err(f)) => Some(f),
        Err(p) => Some(Fail {
            sig: format!("panic/skiplist/{}", p.loc),
            detail: format!("panic \"{}\" at {}; last operations: {}", p.msg, p.loc, h.trace.join(" ; ")),
        }),
    };
    HistResult { ops: h.ops, cells: h.cells.clone(), fail, maxlen }
}

/// The server shares a sorted set between the command thread (which updates it) and the snapshot
/// thread (which reads it through the list's own lock). Here: one writer re-scores members that
/// exist from start to end, readers take snapshots all the while. Every snapshot must hold every
/// member exactly once, in (score, member) order, and agree with len().
fn concurrent_readers(rep: &mut Report, seed: u64, secs: f64) {
    use std::sync::atomic::{AtomicBool, AtomicU64, Ordering};
    use std::sync::{Arc, Mutex};
    let n: usize = 48;
    let list: Arc<SkipList<Vec<u8>, f64>> = Arc::new(SkipList::new());
    let names: Vec<Vec<u8>> = (0..n).map(|i| format!("m{:03}", i).into_bytes()).collect();
    for (i, m) in names.iter().enumerate() {
        list.insert(m.clone(), (i % 7) as f64);
    }
    let stop = Arc::new(AtomicBool::new(false));
    let snapshots = Arc::new(AtomicU64::new(0));
    let problems: Arc<Mutex<Vec<(String, String)>>> = Arc::new(Mutex::new(Vec::new()));
    let mut readers = Vec::new();
    for r in 0..3u64 {
        let (list, stop, snapshots, problems) = (list.clone(), stop.clone(), snapshots.clone(), problems.clone());
        readers.push(std::thread::spawn(move || {
            while !stop.load(Ordering::Relaxed) {
                let items = if r == 2 { list.range_by_rank(0, usize::MAX - 1).items } else { list.get_all_items() };
                snapshots.fetch_add(1, Ordering::Relaxed);
                let mut seen: Vec<&Vec<u8>> = items.iter().map(|(m, _)| m).collect();
                seen.sort();
                seen.dedup();
                let sorted = items.windows(2).all(|w| item_cmp(&w[0], &w[1]) == std::cmp::Ordering::Less);
                let problem = if items.len() != n || seen.len() != n {
                    Some(("member-missing-or-twice", format!("a snapshot taken while members were only re-scored holds {} entries, {} distinct members (the set has {} members throughout): {}",
                        items.len(), seen.len(), n, show_items(&items[..items.len().min(12)]))))
                } else if !sorted {
                    Some(("snapshot-unsorted", format!("a snapshot taken during re-scoring is not in (score, member) order: {}", show_items(&items[..items.len().min(12)]))))
                } else {
                    None
                };
                if let Some((sig, detail)) = problem {
                    let mut p = problems.lock().unwrap();
                    if p.len() < 4 {
                        p.push((sig.to_string(), detail));
                    }
                }
            }
        }));
    }
    let mut rng = Rng::new(mix(seed, 77, 0));
    let budget = Budget::new(secs);
    let mut updates = 0u64;
    while !budget.over() {
        for _ in 0..256 {
            let m = &names[rng.usize_below(n)];
            let sc = match rng.below(4) {
                0 => GRID[rng.usize_below(GRID.len())],
                1 => (rng.below(7)) as f64,
                2 => list.get_score(m).unwrap_or(0.0),
                _ => rng.below(1000) as f64 / 8.0,
            };
            list.insert(m.clone(), sc);
            updates += 1;
        }
    }
    stop.store(true, Ordering::Relaxed);
    for r in readers {
        let _ = r.join();
    }
    rep.evaluations += updates;
    rep.cell("concurrent/re-score-vs-snapshots");
    rep.extra_num("concurrent_updates", updates);
    rep.extra_num("concurrent_snapshots", snapshots.load(Ordering::Relaxed));
    for (sig, detail) in problems.lock().unwrap().iter() {
        rep.violation(format!("concurrent/{}", sig), detail.clone(), format!("concurrent:{}", seed));
    }
    if snapshots.load(Ordering::Relaxed) < 100 {
        rep.inconclusive("concurrent readers took fewer than 100 snapshots");
    }
    let inv = list.verif_check_invariants();
    if !inv.is_empty() {
        rep.violation("concurrent/invariant", inv.join("; "), format!("concurrent:{}", seed));
    }
}

/// The same sharing, bounded by counts instead of time, for the interpreter: Miri's vector-clock race
/// detector reports an unsynchronised access pair whether or not the two threads actually collide, and
/// its borrow tracker reports a node read after it was freed.
fn concurrent_bounded(rep: &mut Report, seed: u64, updates: u64, snapshots_per_reader: u64) {
    use std::sync::atomic::{AtomicU64, Ordering};
    use std::sync::{Arc, Mutex};
    let n: usize = 10;
    let list: Arc<SkipList<Vec<u8>, f64>> = Arc::new(SkipList::new());
    let names: Vec<Vec<u8>> = (0..n).map(|i| format!("m{:03}", i).into_bytes()).collect();
    for (i, m) in names.iter().enumerate() {
        list.insert(m.clone(), (i % 4) as f64);
    }
    let snapshots = Arc::new(AtomicU64::new(0));
    let problems: Arc<Mutex<Vec<(String, String)>>> = Arc::new(Mutex::new(Vec::new()));
    let mut readers = Vec::new();
    for r in 0..2u64 {
        let (list, snapshots, problems) = (list.clone(), snapshots.clone(), problems.clone());
        readers.push(std::thread::spawn(move || {
            for _ in 0..snapshots_per_reader {
                let items = if r == 1 { list.range_by_rank(0, usize::MAX - 1).items } else { list.get_all_items() };
                snapshots.fetch_add(1, Ordering::Relaxed);
                let mut seen: Vec<&Vec<u8>> = items.iter().map(|(m, _)| m).collect();
                seen.sort();
                seen.dedup();
                let sorted = items.windows(2).all(|w| item_cmp(&w[0], &w[1]) == std::cmp::Ordering::Less);
                if items.len() != n || seen.len() != n || !sorted {
                    let mut p = problems.lock().unwrap();
                    if p.len() < 4 {
                        p.push((if sorted { "member-missing-or-twice" } else { "snapshot-unsorted" }.to_string(),
                                format!("snapshot during re-scoring: {} entries, {} distinct of {}: {}", items.len(), seen.len(), n, show_items(&items[..items.len().min(12)]))));
                    }
                }
                std::thread::yield_now();
            }
        }));
    }
    let mut rng = Rng::new(mix(seed, 78, 0));
    for k in 0..updates {
        let m = &names[rng.usize_below(n)];
        let sc = if rng.below(3) == 0 { (rng.below(4)) as f64 } else { rng.below(64) as f64 / 8.0 };
        list.insert(m.clone(), sc);
        if k % 4 == 0 {
            std::thread::yield_now();
        }
    }
    for r in readers {
        let _ = r.join();
    }
    rep.evaluations += updates;
    rep.cell("concurrent/re-score-vs-snapshots");
    rep.extra_num("concurrent_updates", updates);
    rep.extra_num("concurrent_snapshots", snapshots.load(Ordering::Relaxed));
    for (sig, detail) in problems.lock().unwrap().iter() {
        rep.violation(format!("concurrent/{}", sig), detail.clone(), format!("concurrent:{}", seed));
    }
    let inv = list.verif_check_invariants();
    if !inv.is_empty() {
        rep.violation("concurrent/invariant", inv.join("; "), format!("concurrent:{}", seed));
    }
}

fn absorb(rep: &mut Report, r: HistResult, replay: String, kind: &str) {
    rep.evaluations += r.ops;
    for c in &r.cells {
        rep.cell(format!("{}/{}", kind, c));
    }
    if let Some(f) = r.fail {
        rep.violation(f.sig, format!("{} [history {} stopped after {} ops]", f.detail, replay, r.ops), replay);
    }
}

fn shape(seed: u64, i: u64) -> (u64, u64, usize, u64) {
    let mut rng = Rng::new(mix(seed, 10, i));
    let nops = rng.range(20, 400) as u64;
    let pool = *rng.pick(&[3usize, 4, 6, 8, 12, 16, 24, 32, 64]);
    let every = *rng.pick(&[1u64, 4, 8, 16]);
    (mix(seed, 11, i), nops, pool, every)
}

fn main() {
    install_panic_hook();
    let args = parse_args();
    if args.child.is_some() {
        harness_broken("skiplist has no child mode");
    }
    let mut rep = Report::new();
    if let Some(r) = args.replay.clone() {
        // hist:<seed>:<nops>:<pool>:<compare every>
        let p: Vec<&str> = r.split(':').collect();
        if p.len() != 5 || p[0] != "hist" {
            harness_broken("replay string is hist:<seed>:<nops>:<pool>:<compare every>");
        }
        let n = |i: usize| -> u64 { p[i].parse().unwrap_or_else(|_| harness_broken("bad number in replay string")) };
        // node heights come from the list's own thread_rng, so repeat a few times
        let reps = if args.miri { 1 } else { 20 };
        for k in 0..reps {
            let res = run_history(n(1), n(2), n(3) as usize, n(4));
            let failed = res.fail.is_some();
            absorb(&mut rep, res, r.clone(), "replay");
            if failed {
                println!("replay: violation on repetition {}", k + 1);
                break;
            }
        }
        if rep.violations.is_empty() {
            println!("replay: no violation in {} repetition(s)", reps);
        }
        for v in &rep.violations {
            println!("replay: VIOLATION {} -- {}", v.sig, v.detail);
        }
        rep.emit();
        return;
    }
    if args.miri {
        let mut rng = Rng::new(mix(args.seed, 1, 0));
        let nops = args.max_cases.unwrap_or(rng.range(200, 400) as u64);
        let pool = *rng.pick(&[24usize, 32, 48]);
        let hseed = mix(args.seed, 2, 0);
        let res = run_history(hseed, nops, pool, 8);
        rep.extra_num("max_members", res.maxlen);
        absorb(&mut rep, res, format!("hist:{}:{}:{}:8", hseed, nops, pool), "miri");
        concurrent_bounded(&mut rep, args.seed, 60, 8);
        rep.extra_str("mode", "miri");
        rep.extra_num("seed", args.seed);
        rep.emit();
        return;
    }
    // walker self-test: it must object to a NaN score (the one corruption that
    // can be produced through the public API)
    {
        let l: SkipList<Vec<u8>, f64> = SkipList::new();
        l.insert(b"a".to_vec(), 1.0);
        l.insert(b"n".to_vec(), f64::NAN);
        let fired = !l.verif_check_invariants().is_empty();
        rep.extra_bool("walker_selftest_fires_on_nan", fired);
        if !fired {
            rep.inconclusive("walker self-test: verif_check_invariants() stayed silent on a stored NaN score");
        }
    }
    let budget = Budget::new(args.budget_s);
    let cap = args.max_cases.unwrap_or(u64::MAX);
    let mut histories = 0u64;
    let mut long_histories = 0u64;
    let mut maxlen = 0usize;
    let long_ops: u64 = 100_000;
    let long_target = if args.tier == Tier::Thorough { 8 } else { 2 };
    // one long history first, so that it is never starved
    let run_long = |rep: &mut Report, k: u64, maxlen: &mut usize| {
        let hseed = mix(args.seed, 20, k);
        let pool = [300usize, 120, 40, 600][(k % 4) as usize];
        let res = run_history(hseed, long_ops, pool, 64);
        *maxlen = (*maxlen).max(res.maxlen);
        absorb(rep, res, format!("hist:{}:{}:{}:64", hseed, long_ops, pool), "long");
    };
    if cap > 0 {
        run_long(&mut rep, 0, &mut maxlen);
        long_histories += 1;
    }
    let mut i = 0u64;
    while histories + long_histories < cap && !budget.used(0.75) {
        let (hseed, nops, pool, every) = shape(args.seed, i);
        let res = run_history(hseed, nops, pool, every);
        maxlen = maxlen.max(res.maxlen);
        absorb(&mut rep, res, format!("hist:{}:{}:{}:{}", hseed, nops, pool, every), "short");
        histories += 1;
        i += 1;
    }
    while histories + long_histories < cap && !budget.over() && (long_histories < long_target || args.tier == Tier::Thorough) {
        run_long(&mut rep, long_histories, &mut maxlen);
        long_histories += 1;
    }
    while histories + long_histories < cap && !budget.over() {
        let (hseed, nops, pool, every) = shape(args.seed, i);
        let res = run_history(hseed, nops, pool, every);
        maxlen = maxlen.max(res.maxlen);
        absorb(&mut rep, res, format!("hist:{}:{}:{}:{}", hseed, nops, pool, every), "short");
        histories += 1;
        i += 1;
    }
    concurrent_readers(&mut rep, args.seed, if args.tier == Tier::Thorough { 6.0 } else { 1.5 });
    rep.sample(format!("short history shape #0: seed/ops/pool/compare-every = {:?}", shape(args.seed, 0)));
    rep.extra_num("short_histories", histories);
    rep.extra_num("long_histories", long_histories);
    rep.extra_num("max_members", maxlen);
    rep.extra_str("note", "node heights come from the list's own rand::thread_rng, so list shapes are not reproducible from the seed; operations are");
    rep.extra_num("elapsed_s", format!("{:.2}", budget.elapsed()));
    rep.extra_num("seed", args.seed);
    rep.emit();
}

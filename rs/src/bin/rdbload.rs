//! C10 part C — RDB loader on truncated / corrupted files.
//!
//! See /verif/rs/README.md for the oracles and the CLI.

#[cfg(not(miri))]
mod real {
    use ferrous::storage::rdb::{RdbConfig, RdbEngine};
    use ferrous::storage::stream::StreamId;
    use ferrous::storage::StorageEngine;
    use std::collections::{HashMap, VecDeque};
    use std::io::{BufRead, BufReader};
    use std::path::{Path, PathBuf};
    use std::process::Stdio;
    use std::sync::{mpsc, Arc, Mutex};
    use std::time::{Duration, Instant, SystemTime, UNIX_EPOCH};
    use verif_rs::*;

    // -----------------------------------------------------------------------
    // Dumps
    // -----------------------------------------------------------------------

    pub const DUMP_NAMES: [&str; 21] = [
        "mixed-all",
        "ttl-mixed",
        "zset-small",
        "string-32bit",
        "strings-small",
        "string-empty",
        "string-14bit",
        "list-small",
        "list-many",
        "set-small",
        "set-many",
        "hash-small",
        "hash-many",
        "zset-many",
        "stream-small",
        "stream-auto",
        "ttl-string",
        "multi-db",
        "binary-keys",
        "empty",
        "expire-seconds",
    ];

    fn fields(p: &[(&[u8], &[u8])]) -> HashMap<Vec<u8>, Vec<u8>> {
        p.iter().map(|(a, b)| (a.to_vec(), b.to_vec())).collect()
    }

    fn v(s: &[u8]) -> Vec<u8> {
        s.to_vec()
    }

    fn populate(name: &str, st: &Arc<StorageEngine>) -> Result<(), String> {
        let hour = Duration::from_secs(3600);
        let e = |r: ferrous::error::Result<()>| r.map_err(|e| format!("populate {}: {}", name, e));
        macro_rules! t {
            ($x:expr) => {
                e($x.map(|_| ()))?
            };
        }
        match name {
            "mixed-all" => {
                t!(st.set_string(0, v(b"s"), v(b"val")));
                t!(st.rpush(0, v(b"l"), vec![v(b"a"), v(b"bb")]));
                t!(st.sadd(0, v(b"S"), vec![v(b"x"), v(b"yy")]));
                t!(st.hset(0, v(b"h"), vec![(v(b"f"), v(b"v")), (v(b"g"), v(b"w"))]));
                t!(st.zadd(0, v(b"z"), v(b"m1"), 1.5));
                t!(st.zadd(0, v(b"z"), v(b"m2"), -2.25));
                t!(st.xadd_with_id(0, v(b"x"), StreamId::new(1, 1), fields(&[(b"f", b"v")])));
                t!(st.xadd_with_id(0, v(b"x"), StreamId::new(2, 0), fields(&[(b"a", b"1"), (b"b", b"2")])));
            }
            "ttl-mixed" => {
                t!(st.set_string_ex(0, v(b"s"), v(b"val"), hour));
                t!(st.rpush(0, v(b"l"), vec![v(b"a"), v(b"b")]));
                t!(st.expire(0, b"l", hour));
                t!(st.sadd(0, v(b"S"), vec![v(b"x")]));
                t!(st.expire(0, b"S", hour));
                t!(st.hset(0, v(b"h"), vec![(v(b"f"), v(b"v"))]));
                t!(st.expire(0, b"h", hour));
                t!(st.zadd(0, v(b"z"), v(b"m"), 2.5));
                t!(st.expire(0, b"z", hour));
                t!(st.xadd_with_id(0, v(b"x"), StreamId::new(5, 0), fields(&[(b"f", b"v")])));
                t!(st.expire(0, b"x", hour));
                t!(st.set_string(0, v(b"plain"), v(b"p")));
                t!(st.set_string(0, v(b"v100"), vec![b'q'; 100]));
            }
            "zset-small" => {
                for (m, s) in [
                    (&b"a"[..], 1.5),
                    (b"b", -2.25),
                    (b"c", 0.0),
                    (b"d", f64::INFINITY),
                    (b"e", f64::NEG_INFINITY),
                    (b"f", 1e308),
                    (b"g", 5e-324),
                    (b"h", 1.5),
                    (b"", 3.0),
                ] {
                    t!(st.zadd(0, v(b"z"), v(m), s));
                }
                t!(st.zadd(0, v(b"y"), v(b"only"), -0.0));
            }
            "string-32bit" => {
                let mut big = Vec::with_capacity(70_000);
                for i in 0..70_000u32 {
                    big.push((i % 251) as u8);
                }
                t!(st.set_string(0, v(b"big"), big));
                t!(st.set_string(0, v(b"k"), v(b"small")));
            }
            "strings-small" => {
                t!(st.set_string(0, v(b"a"), v(b"1")));
                t!(st.set_string(0, v(b"key2"), v(b"value2")));
                t!(st.set_string(0, v(b"n"), v(b"12345")));
                t!(st.set_string(0, v(b"neg"), v(b"-7")));
            }
            "string-empty" => {
                t!(st.set_string(0, v(b""), v(b"")));
                t!(st.set_string(0, v(b"e"), v(b"")));
                t!(st.set_string(0, v(b"x"), v(b"y")));
            }
            "string-14bit" => {
                t!(st.set_string(0, v(b"v100"), vec![b'q'; 100]));
                t!(st.set_string(0, vec![b'K'; 80], v(b"short")));
                t!(st.set_string(0, v(b"b63"), vec![b'r'; 63]));
                t!(st.set_string(0, v(b"b64"), vec![b's'; 64]));
            }
            "list-small" => {
                t!(st.rpush(0, v(b"l"), vec![v(b"one"), v(b""), v(b"three"), v(b"one")]));
                t!(st.rpush(0, v(b"m"), vec![v(b"x")]));
            }
            "list-many" => {
                t!(st.rpush(0, v(b"l"), (0..70u8).map(|i| vec![b'a' + i % 26]).collect()));
            }
            "set-small" => {
                t!(st.sadd(0, v(b"S"), vec![v(b"a"), v(b"bb"), v(b""), v(b"dddd")]));
            }
            "set-many" => {
                t!(st.sadd(0, v(b"S"), (0..70u8).map(|i| vec![b'A' + i / 26, b'a' + i % 26]).collect()));
            }
            "hash-small" => {
                t!(st.hset(0, v(b"h"), vec![(v(b"f1"), v(b"v1")), (v(b""), v(b"")), (v(b"f3"), v(b"longer value"))]));
            }
            "hash-many" => {
                t!(st.hset(0, v(b"h"), (0..66u8).map(|i| (vec![b'A' + i / 26, b'a' + i % 26], vec![b'0' + i % 10])).collect()));
            }
            "zset-many" => {
                for i in 0..65u8 {
                    t!(st.zadd(0, v(b"z"), vec![b'a' + i % 26, b'0' + i / 26], (i as f64) * 0.75 - 10.0));
                }
            }
            "stream-small" => {
                t!(st.xadd_with_id(0, v(b"x"), StreamId::new(1000, 0), fields(&[(b"temp", b"21"), (b"hum", b"40")])));
                t!(st.xadd_with_id(0, v(b"x"), StreamId::new(1000, 1), fields(&[(b"temp", b"22")])));
                t!(st.xadd_with_id(0, v(b"x"), StreamId::new(2000, 0), fields(&[(b"", b"")])));
            }
            "stream-auto" => {
                t!(st.xadd(0, v(b"x"), fields(&[(b"f", b"v")])));
                t!(st.xadd(0, v(b"x"), fields(&[(b"g", b"w"), (b"h", b"u")])));
                t!(st.xadd(0, v(b"second"), fields(&[(b"k", b"v")])));
            }
            "ttl-string" => {
                t!(st.set_string_ex(0, v(b"a"), v(b"1"), hour));
                t!(st.set_string_ex(0, v(b"b"), v(b"2"), Duration::from_secs(86_400 * 365)));
                t!(st.set_string(0, v(b"c"), v(b"3")));
            }
            "multi-db" => {
                t!(st.set_string(0, v(b"a"), v(b"0")));
                t!(st.set_string(1, v(b"a"), v(b"1")));
                t!(st.rpush(5, v(b"l"), vec![v(b"five")]));
                t!(st.set_string_ex(15, v(b"z"), v(b"15"), hour));
                t!(st.zadd(15, v(b"zz"), v(b"m"), 0.5));
            }
            "binary-keys" => {
                t!(st.set_string(0, vec![0x00, 0xff, 0xfe], vec![0xff, 0xfe, 0xfd, 0xfc, 0xfb, 0xfa, 0x00]));
                t!(st.sadd(0, vec![0x80, 0x40], vec![vec![0xc0], vec![0x80, 0x00, 0x00, 0x00, 0x05]]));
                t!(st.hset(0, v(b"\r\n"), vec![(vec![0xff], vec![0x00])]));
            }
            "empty" => {}
            _ => return Err(format!("unknown dump kind {}", name)),
        }
        Ok(())
    }

    fn handmade_expire_seconds() -> Vec<u8> {
        let now = SystemTime::now().duration_since(UNIX_EPOCH).unwrap().as_secs() as u32;
        let mut b = b"REDIS0009".to_vec();
        b.extend_from_slice(&[0xFA, 3]);
        b.extend_from_slice(b"ver");
        b.extend_from_slice(&[1, b'1']);
        b.extend_from_slice(&[0xFE, 0, 0xFB, 3, 2]);
        b.push(0xFD);
        b.extend_from_slice(&(now + 3600).to_le_bytes());
        b.extend_from_slice(&[0x00, 1, b'k', 1, b'v']);
        b.push(0xFD);
        b.extend_from_slice(&(now + 7200).to_le_bytes());
        b.extend_from_slice(&[0x03, 1, b'z', 1, 1, b'm']);
        b.extend_from_slice(&2.5f64.to_le_bytes());
        b.extend_from_slice(&[0x00, 1, b'p', 1, b'q']);
        b.push(0xFF);
        b.extend_from_slice(&[0u8; 8]);
        b
    }

    /// Build dump `idx` into `<dir>/dump-<idx>.rdb`; returns its bytes.
    fn build_dump(dir: &Path, idx: usize) -> Result<Vec<u8>, String> {
        let name = DUMP_NAMES[idx];
        let path = dir.join(format!("dump-{}.rdb", idx));
        if name == "expire-seconds" {
            let b = handmade_expire_seconds();
            std::fs::write(&path, &b).map_err(|e| e.to_string())?;
            return Ok(b);
        }
        let st = StorageEngine::new();
        populate(name, &st)?;
        let rdb = RdbEngine::new(RdbConfig { dir: dir.to_string_lossy().to_string(), filename: format!("dump-{}.rdb", idx), ..Default::default() });
        rdb.save(&st).map_err(|e| format!("save {}: {}", name, e))?;
        std::fs::read(&path).map_err(|e| format!("read back {}: {}", name, e))
    }

    // -----------------------------------------------------------------------
    // Region annotation of a valid dump
    // -----------------------------------------------------------------------

    thread_local! {
        /// which of the three length encodings the annotator walked over
        static ENC_SEEN: std::cell::Cell<[bool; 3]> = const { std::cell::Cell::new([false; 3]) };
    }

    fn rd_len(b: &[u8], pos: usize) -> Option<(usize, usize)> {
        let f = *b.get(pos)?;
        let r = match f >> 6 {
            0 => Some((f as usize, 1)),
            1 => Some(((((f & 0x3f) as usize) << 8) | *b.get(pos + 1)? as usize, 2)),
            2 => {
                let s = b.get(pos + 1..pos + 5)?;
                Some((u32::from_be_bytes([s[0], s[1], s[2], s[3]]) as usize, 5))
            }
            _ => None,
        };
        if r.is_some() {
            ENC_SEEN.with(|c| {
                let mut v = c.get();
                v[(f >> 6) as usize] = true;
                c.set(v);
            });
        }
        r
    }

    fn mark(r: &mut [&'static str], from: usize, to: usize, what: &'static str) {
        let n = r.len();
        for x in r[from.min(n)..to.min(n)].iter_mut() {
            *x = what;
        }
    }

    /// len-prefixed string at pos: marks the length bytes `lw` and the body `bw`.
    fn mark_string(b: &[u8], r: &mut [&'static str], pos: usize, lw: &'static str, bw: &'static str) -> Option<usize> {
        let (l, k) = rd_len(b, pos)?;
        mark(r, pos, pos + k, lw);
        mark(r, pos + k, pos + k + l, bw);
        if pos + k + l > b.len() {
            return None;
        }
        Some(pos + k + l)
    }

    pub fn annotate(b: &[u8]) -> Vec<&'static str> {
        let mut r: Vec<&'static str> = vec!["unknown"; b.len()];
        mark(&mut r, 0, 9, "header");
        let mut pos = 9usize;
        let walk = |r: &mut Vec<&'static str>, pos: &mut usize| -> Option<()> {
            loop {
                let op = *b.get(*pos)?;
                match op {
                    0xFF => {
                        mark(r, *pos, b.len(), "eof");
                        return Some(());
                    }
                    0xFE => {
                        let (_, k) = rd_len(b, *pos + 1)?;
                        mark(r, *pos, *pos + 1 + k, "selectdb");
                        *pos += 1 + k;
                    }
                    0xFB => {
                        let (_, k1) = rd_len(b, *pos + 1)?;
                        let (_, k2) = rd_len(b, *pos + 1 + k1)?;
                        mark(r, *pos, *pos + 1 + k1 + k2, "resizedb");
                        *pos += 1 + k1 + k2;
                    }
                    0xFA => {
                        mark(r, *pos, *pos + 1, "aux");
                        let p = mark_string(b, r, *pos + 1, "aux", "aux")?;
                        *pos = mark_string(b, r, p, "aux", "aux")?;
                    }
                    0xFC => {
                        mark(r, *pos, *pos + 9, "expiry");
                        *pos += 9;
                    }
                    0xFD => {
                        mark(r, *pos, *pos + 5, "expiry");
                        *pos += 5;
                    }
                    t if t <= 5 => {
                        mark(r, *pos, *pos + 1, "type");
                        let mut p = mark_string(b, r, *pos + 1, "key", "key")?;
                        match t {
                            0 => p = mark_string(b, r, p, "value-len", "value-bytes")?,
                            1 | 2 => {
                                let (c, k) = rd_len(b, p)?;
                                mark(r, p, p + k, "value-len");
                                p += k;
                                for _ in 0..c {
                                    p = mark_string(b, r, p, "value-len", "value-bytes")?;
                                }
                            }
                            4 => {
                                let (c, k) = rd_len(b, p)?;
                                mark(r, p, p + k, "value-len");
                                p += k;
                                for _ in 0..2 * c {
                                    p = mark_string(b, r, p, "value-len", "value-bytes")?;
                                }
                            }
                            _ => {
                                let (c, k) = rd_len(b, p)?;
                                mark(r, p, p + k, "value-len");
                                p += k;
                                for _ in 0..c {
                                    p = mark_string(b, r, p, "value-len", "value-bytes")?;
                                    mark(r, p, p + 8, "value-bytes");
                                    p += 8;
                                }
                            }
                        }
                        *pos = p;
                    }
                    _ => return None,
                }
            }
        };
        let _ = walk(&mut r, &mut pos);
        r
    }

    // -----------------------------------------------------------------------
    // Case space
    // -----------------------------------------------------------------------

    pub const SUB_NAMES: [&str; 14] = ["00", "ff", "inc", "dec", "3f", "40", "7f", "80", "c0", "fa", "fb", "fc", "fd", "fe"];

    fn sub_value(orig: u8, vi: usize) -> u8 {
        match vi {
            0 => 0x00,
            1 => 0xFF,
            2 => orig.wrapping_add(1),
            3 => orig.wrapping_sub(1),
            4 => 0x3F,
            5 => 0x40,
            6 => 0x7F,
            7 => 0x80,
            8 => 0xC0,
            9 => 0xFA,
            10 => 0xFB,
            11 => 0xFC,
            12 => 0xFD,
            _ => 0xFE,
        }
    }

    pub struct Plan {
        /// byte offsets that are mutated (all of them for small files)
        pub positions: Vec<usize>,
        pub multi: usize,
    }

    #[derive(Clone, Debug)]
    pub enum Mutation {
        Trunc(usize),
        Intact,
        Sub(usize, u8, usize),
        Multi(u64),
    }

    impl Plan {
        pub fn new(bytes: &[u8], pos_seed: u64, multi: usize) -> Plan {
            let n = bytes.len();
            let positions: Vec<usize> = if n <= 1200 {
                (0..n).collect()
            } else {
                let mut set = std::collections::BTreeSet::new();
                for i in 0..160.min(n) {
                    set.insert(i);
                }
                for i in n.saturating_sub(40)..n {
                    set.insert(i);
                }
                let mut rng = Rng::new(pos_seed);
                while set.len() < 500 {
                    set.insert(rng.usize_below(n));
                }
                set.into_iter().collect()
            };
            Plan { positions, multi }
        }
        pub fn trunc_cases(&self) -> usize {
            self.positions.len() + 1
        }
        pub fn total(&self) -> usize {
            self.trunc_cases() + self.positions.len() * 14 + self.multi
        }
        /// None = no-op or duplicate substitution (skipped).
        pub fn case(&self, bytes: &[u8], c: usize, multi_seed: u64) -> Option<Mutation> {
            let t = self.trunc_cases();
            if c < t - 1 {
                return Some(Mutation::Trunc(self.positions[c]));
            }
            if c == t - 1 {
                return Some(Mutation::Intact);
            }
            let k = c - t;
            if k < self.positions.len() * 14 {
                let pos = self.positions[k / 14];
                let vi = k % 14;
                let orig = bytes[pos];
                let val = sub_value(orig, vi);
                if val == orig {
                    return None;
                }
                for earlier in 0..vi {
                    if sub_value(orig, earlier) == val {
                        return None;
                    }
                }
                return Some(Mutation::Sub(pos, val, vi));
            }
            Some(Mutation::Multi(mix(multi_seed, c as u64, 9)))
        }
    }

    pub fn apply(bytes: &[u8], m: &Mutation) -> Vec<u8> {
        match m {
            Mutation::Trunc(l) => bytes[..*l].to_vec(),
            Mutation::Intact => bytes.to_vec(),
            Mutation::Sub(p, v, _) => {
                let mut b = bytes.to_vec();
                b[*p] = *v;
                b
            }
            Mutation::Multi(seed) => {
                let mut rng = Rng::new(*seed);
                // work on a window of big files so that the damage stays dense
                let mut b = bytes.to_vec();
                let k = rng.range(2, 6);
                const INTERESTING: [u8; 16] = [0x00, 0xFF, 0x3F, 0x40, 0x7F, 0x80, 0xBF, 0xC0, 0xFA, 0xFB, 0xFC, 0xFD, 0xFE, 0x01, 0x05, 0x81];
                // structure-aware: swap a length-prefixed decimal string (stream
                // field counts, IDs, numeric values) for an edge-case number
                if rng.chance(1, 6) {
                    let mut spots: Vec<(usize, usize)> = Vec::new();
                    for i in 9..b.len() {
                        let l = b[i] as usize;
                        if l >= 1 && l <= 20 && i + 1 + l <= b.len() && b[i + 1..i + 1 + l].iter().all(|c| c.is_ascii_digit()) {
                            spots.push((i, l));
                        }
                    }
                    if !spots.is_empty() {
                        let (i, l) = *rng.pick(&spots);
                        const NUMS: [&str; 8] = [
                            "18446744073709551615", "9223372036854775808", "9223372036854775807", "4611686018427387904", "4294967296", "0", "00000000000000000001",
                            "99999999999999999999",
                        ];
                        let nv = rng.pick(&NUMS).as_bytes();
                        let mut piece = vec![nv.len() as u8];
                        piece.extend_from_slice(nv);
                        b.splice(i..i + 1 + l, piece);
                    }
                }
                for _ in 0..k {
                    if b.is_empty() {
                        break;
                    }
                    let hot = if rng.chance(3, 4) { b.len().min(400) } else { b.len() };
                    let p = rng.usize_below(hot);
                    match rng.below(8) {
                        0 | 1 => b[p] = *rng.pick(&INTERESTING),
                        2 => b[p] = rng.byte(),
                        3 => {
                            let fill = *rng.pick(&[0x00u8, 0xFF, 0x80]);
                            let e = (p + 4).min(b.len());
                            for x in b[p..e].iter_mut() {
                                *x = fill;
                            }
                        }
                        4 => {
                            b.remove(p);
                        }
                        5 => b.insert(p, *rng.pick(&INTERESTING)),
                        6 => {
                            let q = rng.usize_below(hot);
                            b.swap(p, q);
                        }
                        _ => {
                            let q = rng.usize_below(hot);
                            let l = rng.range(1, 12).min(b.len() - q);
                            let piece = b[q..q + l].to_vec();
                            b.splice(p..p, piece);
                        }
                    }
                }
                b
            }
        }
    }

    pub fn mutation_kind(m: &Mutation) -> String {
        match m {
            Mutation::Trunc(_) => "trunc".into(),
            Mutation::Intact => "intact".into(),
            Mutation::Sub(_, _, vi) => format!("sub-{}", SUB_NAMES[*vi]),
            Mutation::Multi(_) => "multi".into(),
        }
    }

    pub fn mutation_desc(m: &Mutation) -> String {
        match m {
            Mutation::Trunc(l) => format!("trunc:{}", l),
            Mutation::Intact => "intact".into(),
            Mutation::Sub(p, v, _) => format!("sub:{}:{:02x}", p, v),
            Mutation::Multi(s) => format!("multi:{}", s),
        }
    }

    fn region_of(regions: &[&'static str], m: &Mutation) -> &'static str {
        match m {
            Mutation::Trunc(l) => regions.get(*l).copied().unwrap_or("eof"),
            Mutation::Intact => "intact",
            Mutation::Sub(p, _, _) => regions.get(*p).copied().unwrap_or("unknown"),
            Mutation::Multi(_) => "multi",
        }
    }

    // -----------------------------------------------------------------------
    // One load under the oracles (child side)
    // -----------------------------------------------------------------------

    pub struct LoadEval {
        pub outcome: &'static str,
        /// (signature, detail)
        pub viols: Vec<(String, String)>,
        pub peak: usize,
    }

    pub fn eval_file(dir: &str, filename: &str, file_len: usize, region: &str) -> LoadEval {
        let storage = StorageEngine::new();
        let rdb = RdbEngine::new(RdbConfig { dir: dir.to_string(), filename: filename.to_string(), ..Default::default() });
        let mut viols = Vec::new();
        reset_peak();
        let r = catch(|| rdb.load(&storage));
        let pk = peak();
        let bound = (1usize << 20).max(64 * file_len);
        if pk > bound {
            viols.push((
                format!("load/alloc/{}", region),
                format!("largest single allocation during load was {} bytes for a {}-byte file (bound {})", pk, file_len, bound),
            ));
        }
        let outcome = match r {
            Ok(Ok(())) => "ok",
            Ok(Err(_)) => "err",
            Err(p) => {
                viols.push((format!("load/panic/{}", p.loc), format!("panic \"{}\" at {}", p.msg, p.loc)));
                "panic"
            }
        };
        if outcome != "panic" {
            match catch(|| storage.verif_check()) {
                Ok(problems) => {
                    // canonical choice among several reports: smallest normalised text
                    let first = problems.iter().min_by_key(|p| {
                        let cut = p.find(" db=").unwrap_or(p.len());
                        normalise_text(&p[..cut])
                    });
                    if let Some(first) = first {
                        let cut = first.find(" db=").unwrap_or(first.len());
                        viols.push((
                            format!("load/corrupt-state/{}", normalise_text(&first[..cut]).replace(' ', "-")),
                            format!("after load (result {}) verif_check reports {} problem(s), e.g.: {}", outcome, problems.len(), first),
                        ));
                    }
                }
                Err(p) => viols.push((format!("load/corrupt-state/walker-panic/{}", p.loc), format!("verif_check panicked: \"{}\" at {}", p.msg, p.loc))),
            }
            let probe = catch(|| {
                storage.set_string(0, b"__verif_probe".to_vec(), b"v".to_vec()).map_err(|e| e.to_string())?;
                let g = storage.get_string(0, b"__verif_probe").map_err(|e| e.to_string())?;
                if g.as_deref() != Some(&b"v"[..]) {
                    return Err(format!("probe read back {:?}", g));
                }
                storage.delete(0, b"__verif_probe").map_err(|e| e.to_string())?;
                Ok::<(), String>(())
            });
            match probe {
                Ok(Ok(())) => {}
                Ok(Err(e)) => viols.push(("load/corrupt-state/probe-failed".into(), format!("SET/GET/DEL probe on db 0 after load failed: {}", e))),
                Err(p) => viols.push((format!("load/corrupt-state/probe-panic/{}", p.loc), format!("probe after load panicked: \"{}\" at {}", p.msg, p.loc))),
            }
        }
        LoadEval { outcome, viols, peak: pk }
    }

    fn clean(s: &str) -> String {
        s.replace(['\t', '\n', '\r'], " ")
    }

    /// `--child-batch <dump idx> <from> <to> <dir> <pos seed> <multi count> <multi seed>`
    /// `--child-batch file <dir> <filename>`
    pub fn child_main(rest: Vec<String>) {
        if rest.first().map(|s| s.as_str()) == Some("file") {
            if rest.len() < 3 {
                harness_broken("--child-batch file <dir> <filename>");
            }
            let len = std::fs::metadata(Path::new(&rest[1]).join(&rest[2])).map(|m| m.len() as usize).unwrap_or(0);
            println!("@@S 0");
            let region = rest.get(3).map(|s| s.as_str()).unwrap_or("replay");
            let ev = eval_file(&rest[1], &rest[2], len, region);
            for (sig, d) in &ev.viols {
                println!("@@V 0\t{}\t{}", sig, clean(d));
            }
            println!("@@R 0\t{}\t{}", ev.outcome, ev.peak);
            println!("@@DONE");
            return;
        }
        if rest.len() < 7 {
            harness_broken("--child-batch <dump idx> <from> <to> <dir> <pos seed> <multi count> <multi seed>");
        }
        let p = |i: usize| -> u64 { rest[i].parse().unwrap_or_else(|_| harness_broken("bad number in --child-batch")) };
        let (idx, from, to) = (p(0) as usize, p(1) as usize, p(2) as usize);
        let dir = rest[3].clone();
        let (pos_seed, multi, multi_seed) = (p(4), p(5) as usize, p(6));
        let bytes = std::fs::read(Path::new(&dir).join(format!("dump-{}.rdb", idx))).unwrap_or_else(|e| harness_broken(&format!("child cannot read dump: {}", e)));
        let plan = Plan::new(&bytes, pos_seed, multi);
        let regions = annotate(&bytes);
        let work = format!("work-{}.rdb", std::process::id());
        let work_path = Path::new(&dir).join(&work);
        for c in from..to.min(plan.total()) {
            let m = match plan.case(&bytes, c, multi_seed) {
                Some(m) => m,
                None => continue,
            };
            println!("@@S {}", c);
            let data = apply(&bytes, &m);
            if let Err(e) = std::fs::write(&work_path, &data) {
                harness_broken(&format!("child cannot write work file: {}", e));
            }
            let ev = eval_file(&dir, &work, data.len(), region_of(&regions, &m));
            for (sig, d) in &ev.viols {
                println!("@@V {}\t{}\t{}", c, sig, clean(d));
            }
            println!("@@R {}\t{}\t{}", c, ev.outcome, ev.peak);
        }
        let _ = std::fs::remove_file(&work_path);
        println!("@@DONE");
    }

    // -----------------------------------------------------------------------
    // Parent side
    // -----------------------------------------------------------------------

    #[derive(Default)]
    struct BatchOut {
        dump: usize,
        from: usize,
        /// (case, outcome)
        results: Vec<(usize, String)>,
        /// (case, sig, detail)
        viols: Vec<(usize, String, String)>,
        inconclusive: Vec<String>,
        max_peak: usize,
    }

    struct DumpInfo {
        idx: usize,
        bytes: Vec<u8>,
        plan: Plan,
        regions: Vec<&'static str>,
    }

    struct Ctx {
        dir: PathBuf,
        pos_seed: u64,
        multi_seed: u64,
    }

    enum Stop {
        Done,
        /// child ended (signal / exit code / stalled) while `case` was in flight
        Died { case: Option<usize>, how: String, stalled: bool, stderr: String },
    }

    /// Run cases [from, to) of one dump in one child; stream progress.
    fn run_child_range(ctx: &Ctx, d: &DumpInfo, from: usize, to: usize, out: &mut BatchOut, per_case_timeout: Duration) -> Stop {
        use std::os::unix::process::ExitStatusExt;
        let args: Vec<String> = vec![
            "--child-batch".into(),
            d.idx.to_string(),
            from.to_string(),
            to.to_string(),
            ctx.dir.to_string_lossy().to_string(),
            ctx.pos_seed.to_string(),
            d.plan.multi.to_string(),
            ctx.multi_seed.to_string(),
        ];
        let mut cmd = self_command(&args);
        cmd.stdin(Stdio::null()).stdout(Stdio::piped()).stderr(Stdio::piped());
        let mut child = cmd.spawn().unwrap_or_else(|e| harness_broken(&format!("cannot spawn child: {}", e)));
        let so = child.stdout.take().unwrap();
        let mut se = child.stderr.take().unwrap();
        let (tx, rx) = mpsc::channel::<Option<String>>();
        let reader = std::thread::spawn(move || {
            let br = BufReader::new(so);
            for line in br.split(b'\n') {
                match line {
                    Ok(l) => {
                        if l.starts_with(b"@@") {
                            if tx.send(Some(String::from_utf8_lossy(&l).to_string())).is_err() {
                                return;
                            }
                        }
                    }
                    Err(_) => break,
                }
            }
            let _ = tx.send(None);
        });
        let errt = std::thread::spawn(move || {
            use std::io::Read;
            let mut v = Vec::new();
            let _ = se.read_to_end(&mut v);
            String::from_utf8_lossy(&v).to_string()
        });
        let mut in_flight: Option<usize> = None;
        let mut done = false;
        let mut stalled = false;
        loop {
            match rx.recv_timeout(per_case_timeout) {
                Ok(Some(line)) => {
                    let (tag, rest) = line.split_at(line.find(' ').unwrap_or(line.len()));
                    let rest = rest.trim_start();
                    match tag {
                        "@@S" => in_flight = rest.parse().ok(),
                        "@@V" => {
                            let p: Vec<&str> = rest.splitn(3, '\t').collect();
                            if p.len() == 3 {
                                out.viols.push((p[0].parse().unwrap_or(0), p[1].to_string(), p[2].to_string()));
                            }
                        }
                        "@@R" => {
                            let p: Vec<&str> = rest.splitn(3, '\t').collect();
                            if p.len() == 3 {
                                out.results.push((p[0].parse().unwrap_or(0), p[1].to_string()));
                                out.max_peak = out.max_peak.max(p[2].parse().unwrap_or(0));
                            }
                            in_flight = None;
                        }
                        "@@DONE" => done = true,
                        _ => {}
                    }
                }
                Ok(None) => break,
                Err(mpsc::RecvTimeoutError::Timeout) => {
                    stalled = true;
                    let _ = child.kill();
                    break;
                }
                Err(mpsc::RecvTimeoutError::Disconnected) => break,
            }
        }
        if stalled {
            let _ = child.kill();
        }
        let status = child.wait();
        let _ = reader.join();
        let stderr = errt.join().unwrap_or_default();
        if stalled {
            return Stop::Died { case: in_flight, how: "no progress within the per-case watchdog".into(), stalled: true, stderr };
        }
        match status {
            Ok(st) if done && st.code() == Some(0) => Stop::Done,
            Ok(st) => {
                let how = match (st.code(), st.signal()) {
                    (Some(c), _) => format!("exit status {}", c),
                    (None, Some(s)) => signal_name(s),
                    _ => "unknown end".into(),
                };
                if st.code() == Some(2) {
                    harness_broken(&format!("child reported a harness error: {}", stderr.lines().last().unwrap_or("")));
                }
                Stop::Died { case: in_flight, how, stalled: false, stderr }
            }
            Err(e) => harness_broken(&format!("wait failed: {}", e)),
        }
    }

    /// Run [from, to) to completion, restarting after crashes / hangs.
    fn run_batch(ctx: &Ctx, d: &DumpInfo, from: usize, to: usize) -> BatchOut {
        let mut out = BatchOut { dump: d.idx, from, ..Default::default() };
        let mut cur = from;
        let mut restarts = 0;
        while cur < to {
            match run_child_range(ctx, d, cur, to, &mut out, Duration::from_secs(20)) {
                Stop::Done => break,
                Stop::Died { case, how, stalled, stderr } => {
                    restarts += 1;
                    let errtail: String = stderr.lines().filter(|l| !l.trim().is_empty()).rev().take(3).collect::<Vec<_>>().join(" | ");
                    let c = match case {
                        Some(c) => c,
                        None => {
                            out.inconclusive.push(format!("dump {} cases {}..{}: child ended ({}) between cases: {}", DUMP_NAMES[d.idx], cur, to, how, errtail));
                            break;
                        }
                    };
                    let m = d.plan.case(&d.bytes, c, ctx.multi_seed);
                    let region = m.as_ref().map(|m| region_of(&d.regions, m)).unwrap_or("unknown");
                    if stalled {
                        // confirm on its own: a single case gets its own 20 s
                        let mut solo = BatchOut::default();
                        match run_child_range(ctx, d, c, c + 1, &mut solo, Duration::from_secs(20)) {
                            Stop::Died { stalled: true, .. } => {
                                out.viols.push((c, "load/hang".into(), "load did not return within 20 s, alone in a fresh process (confirmed twice)".into()));
                                out.results.push((c, "hang".into()));
                            }
                            _ => out.inconclusive.push(format!("dump {} case {}: stalled inside a batch but finished when re-run alone", DUMP_NAMES[d.idx], c)),
                        }
                    } else if stderr.contains("memory allocation of") {
                        out.viols.push((c, format!("load/alloc/{}", region), format!("process aborted on allocation failure ({}): {}", how, errtail)));
                        out.results.push((c, "crash".into()));
                    } else if stderr.contains("overflowed its stack") {
                        out.viols.push((c, "load/stack-overflow".into(), format!("process died with a stack overflow ({}): {}", how, errtail)));
                        out.results.push((c, "crash".into()));
                    } else {
                        out.viols.push((c, format!("load/abort/{}", how.replace(' ', "-")), format!("process ended with {} during load: {}", how, errtail)));
                        out.results.push((c, "crash".into()));
                    }
                    cur = c + 1;
                    if restarts > 50 {
                        out.inconclusive.push(format!("dump {}: more than 50 child restarts in one batch, rest of {}..{} skipped", DUMP_NAMES[d.idx], cur, to));
                        break;
                    }
                }
            }
        }
        out
    }

    fn temp_dir() -> PathBuf {
        let d = std::env::temp_dir().join(format!("verif-rdbload-{}", std::process::id()));
        let _ = std::fs::remove_dir_all(&d);
        std::fs::create_dir_all(&d).unwrap_or_else(|e| harness_broken(&format!("cannot create {}: {}", d.display(), e)));
        d
    }

    fn damaged_hex(d: &DumpInfo, m: &Mutation) -> String {
        let data = apply(&d.bytes, m);
        if data.len() <= 700 {
            format!("damaged file ({} bytes) hex {}", data.len(), to_hex(&data))
        } else {
            format!("damaged file is {} bytes (dump {} with {})", data.len(), DUMP_NAMES[d.idx], mutation_desc(m))
        }
    }

    fn replay_string(d: &DumpInfo, m: &Mutation) -> String {
        let data = apply(&d.bytes, m);
        if data.len() <= 700 {
            format!("file:{}", to_hex(&data))
        } else {
            format!("dump:{}:{}", DUMP_NAMES[d.idx], mutation_desc(m))
        }
    }

    pub fn full_main(args: &Args) -> Report {
        let mut rep = Report::new();
        let budget = Budget::new(args.budget_s);
        let dir = temp_dir();
        let which: Vec<usize> = if args.tier == Tier::Quick { vec![0, 1, 2, 3] } else { (0..DUMP_NAMES.len()).collect() };
        let multi = if args.tier == Tier::Thorough { 2500 } else { 0 };
        let ctx = Ctx { dir: dir.clone(), pos_seed: mix(args.seed, 100, 0), multi_seed: mix(args.seed, 200, 0) };
        let mut dumps: Vec<DumpInfo> = Vec::new();
        let mut seen = [false; 3];
        for &idx in &which {
            match build_dump(&dir, idx) {
                Ok(bytes) => {
                    // length-encoding coverage of the generated corpus
                    let regions = annotate(&bytes);
                    let e = ENC_SEEN.with(|c| c.get());
                    for i in 0..3 {
                        seen[i] |= e[i];
                    }
                    if regions.iter().any(|r| *r == "unknown") {
                        rep.inconclusive(format!("dump {}: region annotator could not walk the whole file", DUMP_NAMES[idx]));
                    }
                    let plan = Plan::new(&bytes, ctx.pos_seed, multi);
                    rep.sample(format!("dump {} = {} bytes, {} cases: {}", DUMP_NAMES[idx], bytes.len(), plan.total(), to_hex(&bytes[..bytes.len().min(120)])));
                    dumps.push(DumpInfo { idx, bytes, plan, regions });
                }
                Err(e) => {
                    let _ = std::fs::remove_dir_all(&dir);
                    harness_broken(&format!("cannot build dump {}: {}", DUMP_NAMES[idx], e));
                }
            }
        }
        rep.extra_str("length_encodings_seen", &format!("6bit={} 14bit={} 32bit={}", seen[0], seen[1], seen[2]));

        // work queue of batches
        let mut queue: VecDeque<(usize, usize, usize)> = VecDeque::new();
        let mut cap = args.max_cases.unwrap_or(u64::MAX) as usize;
        for (di, d) in dumps.iter().enumerate() {
            let bs = if d.bytes.len() > 5000 { 250 } else { 1000 };
            let total = d.plan.total().min(cap);
            cap -= total;
            let mut from = 0;
            while from < total {
                let to = (from + bs).min(total);
                queue.push_back((di, from, to));
                from = to;
            }
        }
        let nbatches = queue.len();
        let queue = Mutex::new(queue);
        let results: Mutex<Vec<BatchOut>> = Mutex::new(Vec::new());
        let workers = match args.other.get("workers").and_then(|w| w.parse::<usize>().ok()) {
            Some(w) => w.clamp(1, 64),
            None => std::thread::available_parallelism().map(|n| n.get()).unwrap_or(4).clamp(1, 8),
        };
        let skipped_batches = Mutex::new(0usize);
        std::thread::scope(|s| {
            for _ in 0..workers {
                s.spawn(|| loop {
                    let job = queue.lock().unwrap().pop_front();
                    let (di, from, to) = match job {
                        Some(j) => j,
                        None => break,
                    };
                    if budget.over() {
                        *skipped_batches.lock().unwrap() += 1;
                        continue;
                    }
                    let out = run_batch(&ctx, &dumps[di], from, to);
                    results.lock().unwrap().push(out);
                });
            }
        });
        let mut results = results.into_inner().unwrap();
        results.sort_by_key(|b| (b.dump, b.from));
        let skipped = skipped_batches.into_inner().unwrap();
        let mut max_peak = 0usize;
        for b in &results {
            let d = dumps.iter().find(|d| d.idx == b.dump).unwrap();
            max_peak = max_peak.max(b.max_peak);
            for (c, outcome) in &b.results {
                rep.evaluations += 1;
                if let Some(m) = d.plan.case(&d.bytes, *c, ctx.multi_seed) {
                    rep.cell(format!("{}/{}/{}", DUMP_NAMES[d.idx], mutation_kind(&m), outcome));
                    if matches!(m, Mutation::Intact) && outcome != "ok" {
                        rep.inconclusive(format!("dump {}: the undamaged file does not load ({}), mutation results on it are weak", DUMP_NAMES[d.idx], outcome));
                    }
                }
            }
            for (c, sig, detail) in &b.viols {
                if let Some(m) = d.plan.case(&d.bytes, *c, ctx.multi_seed) {
                    rep.violation_w(
                        sig.clone(),
                        format!(
                            "{}; dump {} with {} (region {}); {}",
                            detail,
                            DUMP_NAMES[d.idx],
                            mutation_desc(&m),
                            region_of(&d.regions, &m),
                            damaged_hex(d, &m)
                        ),
                        replay_string(d, &m),
                        apply(&d.bytes, &m).len(),
                    );
                }
            }
            for i in &b.inconclusive {
                rep.inconclusive(i.clone());
            }
        }
        if skipped > 0 {
            rep.extra_num("batches_skipped_budget", skipped);
        }
        rep.extra_bool("complete", skipped == 0 && args.max_cases.is_none());
        rep.extra_num("batches", nbatches);
        rep.extra_num("workers", workers);
        rep.extra_num("dumps", dumps.len());
        rep.extra_num("largest_single_allocation_seen", max_peak);
        rep.extra_num("elapsed_s", format!("{:.2}", budget.elapsed()));
        rep.extra_num("seed", args.seed);
        let _ = std::fs::remove_dir_all(&dir);
        rep
    }

    pub fn replay(r: &str, args: &Args) {
        let dir = temp_dir();
        let mut rep = Report::new();
        let mut region = "replay";
        let data: Vec<u8> = if let Some(h) = r.strip_prefix("file:") {
            from_hex(h).unwrap_or_else(|e| harness_broken(&e))
        } else if let Some(rest) = r.strip_prefix("dump:") {
            let parts: Vec<&str> = rest.split(':').collect();
            let idx = DUMP_NAMES.iter().position(|n| Some(n) == parts.first()).unwrap_or_else(|| harness_broken("unknown dump name"));
            let bytes = build_dump(&dir, idx).unwrap_or_else(|e| harness_broken(&e));
            let num = |i: usize| -> u64 { parts.get(i).and_then(|s| s.parse().ok()).unwrap_or_else(|| harness_broken("bad number in replay string")) };
            let m = match parts.get(1).copied() {
                Some("trunc") => Mutation::Trunc((num(2) as usize).min(bytes.len())),
                Some("intact") => Mutation::Intact,
                Some("sub") => {
                    let val = u8::from_str_radix(parts.get(3).copied().unwrap_or(""), 16).unwrap_or_else(|_| harness_broken("sub:<pos>:<hex byte>"));
                    if num(2) as usize >= bytes.len() {
                        harness_broken("substitution offset beyond the dump");
                    }
                    Mutation::Sub(num(2) as usize, val, 0)
                }
                Some("multi") => Mutation::Multi(num(2)),
                _ => harness_broken("dump:<name>:trunc:<len> | sub:<pos>:<hex> | multi:<seed> | intact"),
            };
            region = region_of(&annotate(&bytes), &m);
            apply(&bytes, &m)
        } else {
            harness_broken("replay string must start with file: or dump:");
        };
        let _ = args;
        std::fs::write(dir.join("replay.rdb"), &data).unwrap_or_else(|e| harness_broken(&e.to_string()));
        println!("replaying a {}-byte file in a child process", data.len());
        let start = Instant::now();
        let res = run_child(
            &["--child-batch".into(), "file".into(), dir.to_string_lossy().to_string(), "replay.rdb".into(), region.to_string()],
            Duration::from_secs(20),
        );
        rep.evaluations = 1;
        let mut done = false;
        for line in res.stdout.lines() {
            if let Some(rest) = line.strip_prefix("@@V 0\t") {
                let p: Vec<&str> = rest.splitn(2, '\t').collect();
                if p.len() == 2 {
                    rep.violation(p[0], p[1], r);
                }
            } else if let Some(rest) = line.strip_prefix("@@R 0\t") {
                println!("load result / largest single allocation: {}", rest.replace('\t', " / "));
            } else if line == "@@DONE" {
                done = true;
            }
        }
        if !done {
            match res.end {
                ChildEnd::Timeout => rep.violation("load/hang", format!("no result after {:.1} s", start.elapsed().as_secs_f64()), r),
                ChildEnd::Signal(s) => rep.violation(format!("load/abort/{}", signal_name(s)), res.stderr.lines().last().unwrap_or("").to_string(), r),
                ChildEnd::Exit(c) => rep.violation(format!("load/abort/exit-status-{}", c), res.stderr.lines().last().unwrap_or("").to_string(), r),
            }
        }
        if rep.violations.is_empty() {
            println!("replay: no violation");
        }
        for v in &rep.violations {
            println!("replay: VIOLATION {} -- {}", v.sig, v.detail);
        }
        let _ = std::fs::remove_dir_all(&dir);
        rep.emit();
    }
}

#[cfg(not(miri))]
fn main() {
    use verif_rs::*;
    install_panic_hook();
    let args = parse_args();
    if let Some(c) = args.child.clone() {
        real::child_main(c);
        return;
    }
    if let Some(r) = args.replay.clone() {
        real::replay(&r, &args);
        return;
    }
    if args.miri {
        harness_broken("rdbload works on files and child processes; it has no --miri mode");
    }
    let rep = real::full_main(&args);
    rep.emit();
}

#[cfg(miri)]
fn main() {
    eprintln!("rdbload is not meant to run under Miri (files, processes)");
    std::process::exit(2);
}

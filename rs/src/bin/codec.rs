//! C20 — RESP codec: round trip, chunking independence, totality.
//!
//! See /verif/rs/README.md for the oracles and the CLI.
#![cfg_attr(miri, allow(dead_code, unused_imports))]

use ferrous::protocol::parser::parse_resp_frame;
use ferrous::protocol::serializer::serialize_to_vec;
use ferrous::protocol::{RespFrame, RespParser};
use std::sync::Arc;
use std::time::Duration;
use verif_rs::*;

// ---------------------------------------------------------------------------
// Frame helpers
// ---------------------------------------------------------------------------

const VARIANTS: [&str; 12] = [
    "simple", "error", "integer", "bulk", "bulk-null", "array", "array-null", "null", "boolean", "double", "map", "set",
];

fn variant_idx(f: &RespFrame) -> usize {
    match f {
        RespFrame::SimpleString(_) => 0,
        RespFrame::Error(_) => 1,
        RespFrame::Integer(_) => 2,
        RespFrame::BulkString(Some(_)) => 3,
        RespFrame::BulkString(None) => 4,
        RespFrame::Array(Some(_)) => 5,
        RespFrame::Array(None) => 6,
        RespFrame::Null => 7,
        RespFrame::Boolean(_) => 8,
        RespFrame::Double(_) => 9,
        RespFrame::Map(_) => 10,
        RespFrame::Set(_) => 11,
        RespFrame::NoResponse => 12,
    }
}

fn variant(f: &RespFrame) -> &'static str {
    let i = variant_idx(f);
    if i < 12 {
        VARIANTS[i]
    } else {
        "no-response"
    }
}

fn f64_same(a: f64, b: f64) -> bool {
    if a.is_nan() || b.is_nan() {
        return a.is_nan() && b.is_nan();
    }
    a.to_bits() == b.to_bits()
}

/// A simple string / error line cannot carry CR or LF. When the original (first argument) holds some,
/// the framing still has to survive: what comes back is the original with every CR / LF byte replaced
/// by another byte that is neither, or with those bytes left out - and holds no CR / LF itself.
fn line_eq(orig: &[u8], back: &[u8]) -> bool {
    let dirty = |b: &u8| *b == b'\r' || *b == b'\n';
    if !orig.iter().any(dirty) {
        return orig == back;
    }
    if back.iter().any(dirty) {
        return false;
    }
    let removed: Vec<u8> = orig.iter().copied().filter(|b| !dirty(b)).collect();
    if removed == back {
        return true;
    }
    orig.len() == back.len() && orig.iter().zip(back.iter()).all(|(o, b)| dirty(o) || o == b)
}

/// Round-trip equality: strict, except that line payloads with CR / LF compare by line_eq.
fn frame_rt_eq(orig: &RespFrame, back: &RespFrame) -> bool {
    use RespFrame::*;
    match (orig, back) {
        (SimpleString(x), SimpleString(y)) => line_eq(x, y),
        (Error(x), Error(y)) => line_eq(x, y),
        (Array(Some(x)), Array(Some(y))) => x.len() == y.len() && x.iter().zip(y.iter()).all(|(p, q)| frame_rt_eq(p, q)),
        _ => {
            let kids_o = children(orig);
            if kids_o.is_empty() {
                frame_eq(orig, back)
            } else {
                let kids_b = children(back);
                variant_idx(orig) == variant_idx(back) && kids_o.len() == kids_b.len()
                    && kids_o.iter().zip(kids_b.iter()).all(|(p, q)| frame_rt_eq(p, q))
            }
        }
    }
}

/// Strict structural equality: doubles by bit pattern (NaN == NaN via is_nan),
/// so that -0.0 and 0.0 are told apart.
fn frame_eq(a: &RespFrame, b: &RespFrame) -> bool {
    use RespFrame::*;
    match (a, b) {
        (SimpleString(x), SimpleString(y)) => x == y,
        (Error(x), Error(y)) => x == y,
        (Integer(x), Integer(y)) => x == y,
        (BulkString(x), BulkString(y)) => x == y,
        (Array(None), Array(None)) => true,
        (Array(Some(x)), Array(Some(y))) => x.len() == y.len() && x.iter().zip(y).all(|(p, q)| frame_eq(p, q)),
        (NoResponse, NoResponse) => true,
        (Null, Null) => true,
        (Boolean(x), Boolean(y)) => x == y,
        (Double(x), Double(y)) => f64_same(*x, *y),
        (Map(x), Map(y)) => x.len() == y.len() && x.iter().zip(y).all(|(p, q)| frame_eq(&p.0, &q.0) && frame_eq(&p.1, &q.1)),
        (Set(x), Set(y)) => x.len() == y.len() && x.iter().zip(y).all(|(p, q)| frame_eq(p, q)),
        _ => false,
    }
}

fn show_frame(f: &RespFrame, out: &mut String, budget: &mut usize) {
    if *budget == 0 {
        out.push('…');
        return;
    }
    *budget -= 1;
    use RespFrame::*;
    match f {
        SimpleString(b) => out.push_str(&format!("Simple(\"{}\")", escape_bytes(b, 48))),
        Error(b) => out.push_str(&format!("Error(\"{}\")", escape_bytes(b, 48))),
        Integer(n) => out.push_str(&format!("Int({})", n)),
        BulkString(Some(b)) => out.push_str(&format!("Bulk(\"{}\")", escape_bytes(b, 48))),
        BulkString(None) => out.push_str("Bulk(nil)"),
        Array(None) => out.push_str("Array(nil)"),
        Array(Some(v)) => {
            out.push_str("Array[");
            for (i, x) in v.iter().enumerate() {
                if i > 0 {
                    out.push_str(", ");
                }
                show_frame(x, out, budget);
            }
            out.push(']');
        }
        NoResponse => out.push_str("NoResponse"),
        Null => out.push_str("Null"),
        Boolean(b) => out.push_str(&format!("Bool({})", b)),
        Double(d) => out.push_str(&format!("Double({:?}/0x{:016x})", d, d.to_bits())),
        Map(v) => {
            out.push_str("Map{");
            for (i, (k, x)) in v.iter().enumerate() {
                if i > 0 {
                    out.push_str(", ");
                }
                show_frame(k, out, budget);
                out.push_str(": ");
                show_frame(x, out, budget);
            }
            out.push('}');
        }
        Set(v) => {
            out.push_str("Set{");
            for (i, x) in v.iter().enumerate() {
                if i > 0 {
                    out.push_str(", ");
                }
                show_frame(x, out, budget);
            }
            out.push('}');
        }
    }
}

fn frame_str(f: &RespFrame) -> String {
    let mut s = String::new();
    let mut b = 24usize;
    show_frame(f, &mut s, &mut b);
    s
}

fn children(f: &RespFrame) -> Vec<&RespFrame> {
    match f {
        RespFrame::Array(Some(v)) | RespFrame::Set(v) => v.iter().collect(),
        RespFrame::Map(v) => v.iter().flat_map(|(k, x)| [k, x]).collect(),
        _ => Vec::new(),
    }
}

fn walk_variants(f: &RespFrame, mask: &mut u32, depth: u32, maxdepth: &mut u32, special: &mut Vec<&'static str>) {
    *mask |= 1 << variant_idx(f);
    if depth > *maxdepth {
        *maxdepth = depth;
    }
    match f {
        RespFrame::Double(d) => {
            if d.is_nan() {
                special.push("double-nan");
            } else if d.is_infinite() {
                special.push("double-inf");
            } else if *d == 0.0 && d.is_sign_negative() {
                special.push("double-negzero");
            } else if *d != 0.0 && d.abs() < f64::MIN_POSITIVE {
                special.push("double-subnormal");
            }
        }
        RespFrame::BulkString(Some(b)) => {
            if b.is_empty() {
                special.push("bulk-empty");
            } else if b.len() >= 1_000_000 {
                special.push("bulk-1MB");
            } else if b.len() >= 1000 {
                special.push("bulk-large");
            }
            if b.contains(&b'\r') || b.contains(&b'\n') {
                special.push("bulk-with-crlf");
            }
        }
        RespFrame::SimpleString(b) | RespFrame::Error(b) => {
            if b.is_empty() {
                special.push("line-empty");
            }
        }
        RespFrame::Integer(n) => {
            if *n == i64::MIN || *n == i64::MAX {
                special.push("integer-edge");
            }
        }
        RespFrame::Array(Some(v)) | RespFrame::Set(v) => {
            if v.is_empty() {
                special.push("aggregate-empty");
            }
            if v.len() >= 40 {
                special.push("width-40");
            }
        }
        RespFrame::Map(v) => {
            if v.is_empty() {
                special.push("aggregate-empty");
            }
            if v.len() >= 40 {
                special.push("width-40");
            }
        }
        _ => {}
    }
    for c in children(f) {
        walk_variants(c, mask, depth + 1, maxdepth, special);
    }
}

// ---------------------------------------------------------------------------
// Frame generation
// ---------------------------------------------------------------------------

struct Gen<'r> {
    rng: &'r mut Rng,
    nodes_left: usize,
    big_left: usize,
    max_payload: usize,
    max_width: usize,
}

const DOUBLES: [f64; 22] = [
    0.0,
    -0.0,
    1.0,
    -1.5,
    f64::INFINITY,
    f64::NEG_INFINITY,
    f64::NAN,
    5e-324,
    -5e-324,
    2.2250738585072014e-308,
    2.225073858507201e-308,
    f64::MAX,
    f64::MIN,
    1e308,
    0.1,
    1e-7,
    1e21,
    123456789.12345679,
    3.0,
    -1e-300,
    9007199254740993.0,
    0.30000000000000004,
];

const INTS: [i64; 10] = [0, 1, -1, 10, -10, i64::MAX, i64::MIN, i64::MAX - 1, i64::MIN + 1, 4294967296];

const TRICKY_PAYLOADS: [&[u8]; 10] = [
    b"PING", b"\r\n", b"$5\r\nhello\r\n", b"*1\r\n", b"+OK", b"-ERR", b" ", b"\r", b"\n", b"\x00\xff",
];

impl<'r> Gen<'r> {
    fn payload(&mut self, line_domain: bool) -> Vec<u8> {
        let r = self.rng.below(1000);
        let len = if r < 150 {
            0
        } else if r < 650 {
            self.rng.range(1, 16)
        } else if r < 900 {
            self.rng.range(17, 300)
        } else if r < 960 {
            if !line_domain {
                return TRICKY_PAYLOADS[self.rng.usize_below(TRICKY_PAYLOADS.len())].to_vec();
            }
            self.rng.range(1, 8)
        } else if self.big_left > 0 && self.max_payload >= 1000 {
            self.big_left -= 1;
            if self.rng.chance(1, 8) && self.max_payload >= 1_048_576 {
                1_048_576
            } else {
                self.rng.range(1000, self.max_payload.min(70_000))
            }
        } else {
            self.rng.range(1, 40)
        };
        let len = len.min(self.max_payload);
        let mut v = if self.rng.chance(1, 2) {
            self.rng.bytes(len)
        } else {
            // mostly printable
            let mut v = self.rng.bytes(len);
            for b in v.iter_mut() {
                *b = 0x20 + (*b % 0x5f);
            }
            v
        };
        if line_domain {
            for b in v.iter_mut() {
                if *b == b'\r' || *b == b'\n' {
                    *b = b'.';
                }
            }
            // ... but now and then a line that no RESP line can carry: a lone CR, a lone LF, a CRLF
            // (error texts quote client bytes, scripts return arbitrary status strings). The serialiser
            // has to keep the framing intact - see line_eq
            if !v.is_empty() && self.rng.chance(1, 7) {
                let i = self.rng.usize_below(v.len());
                match self.rng.below(3) {
                    0 => v[i] = b'\r',
                    1 => v[i] = b'\n',
                    _ => {
                        v[i] = b'\r';
                        if i + 1 < v.len() {
                            v[i + 1] = b'\n';
                        }
                    }
                }
            }
        } else if len > 2 && self.rng.chance(1, 6) {
            // make sure embedded CRLF shows up regularly in bulk payloads
            let i = self.rng.usize_below(len - 1);
            v[i] = b'\r';
            v[i + 1] = b'\n';
        }
        v
    }

    fn width(&mut self) -> usize {
        let r = self.rng.below(100);
        let w = if r < 15 {
            0
        } else if r < 70 {
            self.rng.range(1, 4)
        } else if r < 95 {
            self.rng.range(5, 12)
        } else {
            self.rng.range(13, 40)
        };
        w.min(self.max_width)
    }

    fn leaf(&mut self) -> RespFrame {
        match self.rng.below(10) {
            0 => RespFrame::SimpleString(Arc::new(self.payload(true))),
            1 => RespFrame::Error(Arc::new(self.payload(true))),
            2 => {
                if self.rng.chance(1, 2) {
                    RespFrame::Integer(*self.rng.pick(&INTS))
                } else {
                    RespFrame::Integer(self.rng.next_u64() as i64 >> self.rng.below(64))
                }
            }
            3 | 4 => RespFrame::BulkString(Some(Arc::new(self.payload(false)))),
            5 => RespFrame::BulkString(None),
            6 => RespFrame::Array(None),
            7 => RespFrame::Null,
            8 => RespFrame::Boolean(self.rng.chance(1, 2)),
            _ => {
                if self.rng.chance(2, 3) {
                    RespFrame::Double(*self.rng.pick(&DOUBLES))
                } else {
                    RespFrame::Double(f64::from_bits(self.rng.next_u64()))
                }
            }
        }
    }

    fn frame(&mut self, depth_left: u32) -> RespFrame {
        if self.nodes_left == 0 {
            return RespFrame::Null;
        }
        self.nodes_left -= 1;
        if depth_left == 0 || self.nodes_left == 0 || self.rng.chance(55, 100) {
            return self.leaf();
        }
        let w = self.width();
        match self.rng.below(3) {
            0 => RespFrame::Array(Some((0..w).map(|_| self.frame(depth_left - 1)).collect())),
            1 => RespFrame::Set((0..w).map(|_| self.frame(depth_left - 1)).collect()),
            _ => RespFrame::Map((0..w).map(|_| (self.frame(depth_left - 1), self.frame(depth_left - 1))).collect()),
        }
    }

    /// A tree whose root is an aggregate with a spine reaching `depth`.
    fn deep(&mut self, depth: u32) -> RespFrame {
        if depth == 0 {
            return self.leaf();
        }
        let inner = self.deep(depth - 1);
        let mut sibs: Vec<RespFrame> = (0..self.rng.range(0, 2)).map(|_| self.frame(1)).collect();
        sibs.insert(self.rng.usize_below(sibs.len() + 1), inner);
        match self.rng.below(3) {
            0 => RespFrame::Array(Some(sibs)),
            1 => RespFrame::Set(sibs),
            _ => {
                let mut pairs = Vec::new();
                let mut it = sibs.into_iter();
                while let Some(k) = it.next() {
                    let v = it.next().unwrap_or(RespFrame::Null);
                    pairs.push((k, v));
                }
                RespFrame::Map(pairs)
            }
        }
    }
}

fn gen_roundtrip_frame(case_seed: u64, miri: bool) -> RespFrame {
    let mut rng = Rng::new(case_seed);
    let shape = rng.below(100);
    let mut g = Gen {
        nodes_left: if miri { 12 } else { 40 + rng.usize_below(400) },
        big_left: if miri { 0 } else { 1 },
        max_payload: if miri { 24 } else { 1_048_576 },
        max_width: if miri { 4 } else { 40 },
        rng: &mut rng,
    };
    if shape < 10 {
        g.leaf()
    } else if shape < 20 {
        let d = if miri { 3 } else { 6 };
        g.deep(d)
    } else if shape < 25 && !miri {
        // wide root
        g.max_width = 40;
        let w = 40;
        RespFrame::Array(Some((0..w).map(|_| g.frame(1)).collect()))
    } else {
        // force an aggregate root most of the time
        let d = if miri { 3 } else { 6 };
        let f = g.frame(d);
        if children(&f).is_empty() && g.rng.chance(1, 2) {
            RespFrame::Array(Some(vec![f, g.frame(d - 1), g.frame(d - 1)]))
        } else {
            f
        }
    }
}

// ---------------------------------------------------------------------------
// Input specs (replayable byte strings)
// ---------------------------------------------------------------------------

/// `hex:<hex>` or `rep:<hex unit>:<count>:<hex tail>`
fn spec_bytes(spec: &str) -> Result<Vec<u8>, String> {
    if let Some(h) = spec.strip_prefix("hex:") {
        return from_hex(h);
    }
    if let Some(r) = spec.strip_prefix("rep:") {
        let parts: Vec<&str> = r.split(':').collect();
        if parts.len() != 3 {
            return Err("rep spec wants rep:<hex unit>:<count>:<hex tail>".into());
        }
        let unit = from_hex(parts[0])?;
        let count: usize = parts[1].parse().map_err(|_| "bad repeat count".to_string())?;
        let tail = from_hex(parts[2])?;
        let mut v = Vec::with_capacity(unit.len() * count + tail.len());
        for _ in 0..count {
            v.extend_from_slice(&unit);
        }
        v.extend_from_slice(&tail);
        return Ok(v);
    }
    Err(format!("unknown input spec {:?}", spec))
}

fn hex_spec(b: &[u8]) -> String {
    format!("hex:{}", to_hex(b))
}

// ---------------------------------------------------------------------------
// Observables
// ---------------------------------------------------------------------------

#[derive(Clone)]
enum Obs {
    Frame(RespFrame),
    Err(String),
}

fn obs_eq(a: &[Obs], b: &[Obs]) -> bool {
    a.len() == b.len()
        && a.iter().zip(b).all(|(x, y)| match (x, y) {
            (Obs::Frame(p), Obs::Frame(q)) => frame_eq(p, q),
            (Obs::Err(p), Obs::Err(q)) => p == q,
            _ => false,
        })
}

fn obs_str(o: &[Obs]) -> String {
    let mut s = String::from("[");
    for (i, x) in o.iter().enumerate() {
        if i > 0 {
            s.push_str(", ");
        }
        if i >= 6 {
            s.push_str(&format!("… {} more", o.len() - i));
            break;
        }
        match x {
            Obs::Frame(f) => s.push_str(&frame_str(f)),
            Obs::Err(e) => s.push_str(&format!("ERR<{}>", e)),
        }
    }
    s.push(']');
    s
}

#[inline(always)]
fn alloc_bound(fed: usize) -> usize {
    fed.saturating_mul(64).saturating_add(65536)
}

enum Chunking<'a> {
    Whole,
    Bytewise,
    Splits(&'a [usize]),
}

struct ParseRun {
    obs: Vec<Obs>,
    /// (largest single allocation, bytes fed so far) of the worst offender
    alloc: Option<(usize, usize)>,
    runaway: bool,
}

fn run_incremental(input: &[u8], ch: Chunking) -> ParseRun {
    let mut p = RespParser::new();
    let mut run = ParseRun { obs: Vec::new(), alloc: None, runaway: false };
    let mut fed = 0usize;
    let mut step = |p: &mut RespParser, chunk: &[u8], run: &mut ParseRun| -> bool {
        p.feed(chunk);
        fed += chunk.len();
        let mut frames_here = 0usize;
        loop {
            reset_peak();
            let r = p.parse();
            let pk = peak();
            if pk > alloc_bound(fed) && run.alloc.map_or(true, |(a, _)| pk > a) {
                run.alloc = Some((pk, fed));
            }
            match r {
                Ok(Some(f)) => {
                    run.obs.push(Obs::Frame(f));
                    frames_here += 1;
                    if frames_here > fed + 4 {
                        run.runaway = true;
                        return true;
                    }
                }
                Ok(None) => return false,
                Err(e) => {
                    run.obs.push(Obs::Err(e.to_string()));
                    return true;
                }
            }
        }
    };
    match ch {
        Chunking::Whole => {
            step(&mut p, input, &mut run);
        }
        Chunking::Bytewise => {
            for i in 0..input.len() {
                if step(&mut p, &input[i..i + 1], &mut run) {
                    break;
                }
            }
        }
        Chunking::Splits(s) => {
            let mut prev = 0usize;
            let mut stopped = false;
            for &cut in s {
                let cut = cut.min(input.len());
                if cut <= prev {
                    continue;
                }
                if step(&mut p, &input[prev..cut], &mut run) {
                    stopped = true;
                    break;
                }
                prev = cut;
            }
            if !stopped && prev < input.len() {
                step(&mut p, &input[prev..], &mut run);
            }
        }
    }
    run
}

// ---------------------------------------------------------------------------
// Construct classification
// ---------------------------------------------------------------------------

const LEAD_CLASSES: [&str; 14] = [
    "blank", "simple", "error", "integer", "bulk", "array", "null", "boolean", "double", "map", "set", "raw-ping", "bad-type-byte", "?",
];

fn lead_class_idx(input: &[u8]) -> usize {
    let mut i = 0;
    while i < input.len() && matches!(input[i], b' ' | b'\r' | b'\n' | b'\t') {
        i += 1;
    }
    if i >= input.len() {
        return 0;
    }
    match input[i] {
        b'+' => 1,
        b'-' => 2,
        b':' => 3,
        b'$' => 4,
        b'*' => 5,
        b'_' => 6,
        b'#' => 7,
        b',' => 8,
        b'%' => 9,
        b'~' => 10,
        b'P' => 11,
        _ => 12,
    }
}

/// Largest declared length per type byte: (type byte, value).
fn declared_lengths(input: &[u8]) -> Vec<(u8, u128)> {
    let mut out = Vec::new();
    let mut i = 0;
    while i < input.len() {
        let t = input[i];
        if matches!(t, b'*' | b'$' | b'%' | b'~') {
            let mut j = i + 1;
            if j < input.len() && input[j] == b'+' {
                j += 1;
            }
            let s = j;
            let mut v: u128 = 0;
            while j < input.len() && input[j].is_ascii_digit() {
                v = v.saturating_mul(10).saturating_add((input[j] - b'0') as u128);
                j += 1;
            }
            if j > s {
                out.push((t, v));
            }
            i = j.max(i + 1);
        } else {
            i += 1;
        }
    }
    out
}

fn construct_of(input: &[u8]) -> String {
    // Aggregate headers reserve memory up front, bulk headers do not: blame
    // the largest unsatisfiable aggregate length first, a bulk length last.
    let mut best: Option<(u8, u128)> = None;
    let lens = declared_lengths(input);
    for pass in 0..2 {
        for &(t, v) in &lens {
            if (pass == 0) == (t == b'$') {
                continue;
            }
            if v > input.len() as u128 && best.map_or(true, |(_, b)| v > b) {
                best = Some((t, v));
            }
        }
        if best.is_some() {
            break;
        }
    }
    if let Some((t, _)) = best {
        return match t {
            b'*' => "array-len-huge",
            b'$' => "bulk-len-huge",
            b'%' => "map-len-huge",
            _ => "set-len-huge",
        }
        .to_string();
    }
    LEAD_CLASSES[lead_class_idx(input)].to_string()
}

/// Inputs whose declared aggregate length could make the process abort on
/// allocation failure go to a child process.
fn needs_child(input: &[u8]) -> bool {
    declared_lengths(input).iter().any(|&(t, v)| t != b'$' && v > 20_000_000)
}

// ---------------------------------------------------------------------------
// Oracle (c): totality
// ---------------------------------------------------------------------------

struct TotOutcome {
    /// 0 frame, 1 need-more, 2 error
    class: u8,
    viols: Vec<(String, String)>,
}

const BYTEWISE_MAX: usize = 4096;

fn totality_eval(input: &[u8], hint: Option<&str>) -> TotOutcome {
    let mut viols: Vec<(String, String)> = Vec::new();
    let cons = |input: &[u8]| hint.map(|h| h.to_string()).unwrap_or_else(|| construct_of(input));
    let shown = |input: &[u8]| format!("input \"{}\" ({} bytes)", escape_bytes(input, 96), input.len());
    let res = catch(|| {
        let mut v: Vec<(String, String)> = Vec::new();
        // one-shot
        reset_peak();
        let r = parse_resp_frame(input);
        let pk = peak();
        let class = match &r {
            Ok(Some((_, n))) => {
                if *n == 0 || *n > input.len() {
                    v.push((
                        format!("totality/consumed-out-of-range/{}", cons(input)),
                        format!("one-shot parse reports {} bytes consumed of {}; {}", n, input.len(), shown(input)),
                    ));
                }
                0u8
            }
            Ok(None) => 1,
            Err(_) => 2,
        };
        drop(r);
        if pk > alloc_bound(input.len()) {
            v.push((
                format!("alloc/{}", cons(input)),
                format!(
                    "one-shot parse made a single allocation of {} bytes after receiving {} bytes (bound {}); {}",
                    pk,
                    input.len(),
                    alloc_bound(input.len()),
                    shown(input)
                ),
            ));
        }
        // incremental, whole
        let w = run_incremental(input, Chunking::Whole);
        if let Some((pk, fed)) = w.alloc {
            v.push((
                format!("alloc/{}", cons(input)),
                format!(
                    "RespParser::parse made a single allocation of {} bytes after {} bytes fed (bound {}); {}",
                    pk,
                    fed,
                    alloc_bound(fed),
                    shown(input)
                ),
            ));
        }
        if w.runaway {
            v.push((format!("totality/runaway/{}", cons(input)), format!("parser keeps producing frames without consuming; {}", shown(input))));
        }
        if input.len() <= BYTEWISE_MAX {
            let b = run_incremental(input, Chunking::Bytewise);
            if let Some((pk, fed)) = b.alloc {
                v.push((
                    format!("alloc/{}", cons(input)),
                    format!(
                        "RespParser::parse (byte-at-a-time) made a single allocation of {} bytes after {} bytes fed (bound {}); {}",
                        pk,
                        fed,
                        alloc_bound(fed),
                        shown(input)
                    ),
                ));
            }
            if !obs_eq(&w.obs, &b.obs) {
                v.push((
                    format!("chunking/{}", chunk_construct(&w.obs, &b.obs, input)),
                    format!("whole feed yields {} but byte-at-a-time yields {}; {}", obs_str(&w.obs), obs_str(&b.obs), shown(input)),
                ));
            }
        }
        (class, v)
    });
    match res {
        Ok((class, v)) => {
            viols.extend(v);
            TotOutcome { class, viols }
        }
        Err(p) => {
            viols.push((format!("panic/{}/{}", cons(input), p.loc), format!("panic \"{}\" at {}; {}", p.msg, p.loc, shown(input))));
            TotOutcome { class: 3, viols }
        }
    }
}

fn is_ping_frame(f: &RespFrame) -> bool {
    match f {
        RespFrame::Array(Some(v)) if v.len() == 1 => matches!(&v[0], RespFrame::BulkString(Some(b)) if b.as_slice() == b"PING"),
        _ => false,
    }
}

/// Name the construct behind a chunking difference.
fn chunk_construct(reference: &[Obs], other: &[Obs], input: &[u8]) -> String {
    let n = reference.len().min(other.len());
    let mut k = n;
    for i in 0..n {
        let same = match (&reference[i], &other[i]) {
            (Obs::Frame(a), Obs::Frame(b)) => frame_eq(a, b),
            (Obs::Err(a), Obs::Err(b)) => a == b,
            _ => false,
        };
        if !same {
            k = i;
            break;
        }
    }
    let ping_err = |o: Option<&Obs>| matches!(o, Some(Obs::Err(e)) if e.contains("type byte: P"));
    let ping_frame = |o: Option<&Obs>| matches!(o, Some(Obs::Frame(f)) if is_ping_frame(f));
    if (ping_frame(reference.get(k)) && ping_err(other.get(k))) || (ping_err(reference.get(k)) && ping_frame(other.get(k))) {
        return "raw-ping-split".to_string();
    }
    // otherwise: name the kind of divergence (bounded set of signatures)
    let _ = input;
    let kind = |o: Option<&Obs>| match o {
        Some(Obs::Frame(_)) => "frame",
        Some(Obs::Err(_)) => "error",
        None => "nothing",
    };
    format!("whole-{}-vs-split-{}", kind(reference.get(k)), kind(other.get(k)))
}

fn report_tot(rep: &mut Report, out: &TotOutcome, replay: &str) {
    for (sig, detail) in &out.viols {
        rep.violation(sig.clone(), detail.clone(), replay.to_string());
    }
}

const CLASS_NAMES: [&str; 4] = ["frame", "need-more", "error", "panic"];

/// Run one totality case in a child process (8 MB main stack, 20 s watchdog).
#[cfg(not(miri))]
fn totality_in_child(rep: &mut Report, hint: &str, spec: &str, what: &str) {
    let case = format!("tot:{}:{}", hint, spec);
    let r = run_child(&["--child".to_string(), case.clone()], Duration::from_secs(20));
    rep.evaluations += 1;
    rep.extra_add("child_runs", 1);
    let mut done = false;
    for line in r.stdout.lines() {
        let parts: Vec<&str> = line.splitn(3, '\t').collect();
        match parts.as_slice() {
            ["@@VIOL", sig, detail] => rep.violation(sig.to_string(), format!("{} [child process]", detail), case.clone()),
            ["@@CLASS", c] => rep.cell(format!("totality/{}/{}", hint, c)),
            ["@@DONE"] => done = true,
            _ => {}
        }
    }
    if done && r.end == ChildEnd::Exit(0) {
        return;
    }
    let errtail: String = r.stderr.lines().filter(|l| !l.trim().is_empty()).take(3).collect::<Vec<_>>().join(" | ");
    match r.end {
        ChildEnd::Timeout => rep.inconclusive(format!("child watchdog (20 s) fired for {} ({})", case_short(&case), what)),
        ChildEnd::Signal(s) => {
            let (sig, why) = if r.stderr.contains("overflowed its stack") {
                (format!("stack/{}", hint), "stack overflow".to_string())
            } else if r.stderr.contains("memory allocation of") {
                (format!("alloc/{}", hint), "allocation failure abort".to_string())
            } else {
                (format!("abort/{}/{}", hint, signal_name(s)), "killed by signal".to_string())
            };
            rep.cell(format!("totality/{}/crash", hint));
            rep.violation(sig, format!("child died with {} ({}): {}; {}", signal_name(s), why, errtail, what), case);
        }
        ChildEnd::Exit(c) => {
            let sig = if r.stderr.contains("memory allocation of") { format!("alloc/{}", hint) } else { format!("abort/{}/exit", hint) };
            rep.violation(sig, format!("child exited with status {} without finishing: {}; {}", c, errtail, what), case);
        }
    }
}

fn case_short(c: &str) -> String {
    if c.len() > 120 {
        format!("{}…", &c[..120])
    } else {
        c.to_string()
    }
}

fn child_main(rest: Vec<String>) {
    let case = match rest.first() {
        Some(c) => c.clone(),
        None => harness_broken("--child wants a case spec"),
    };
    let parts: Vec<&str> = case.splitn(3, ':').collect();
    if parts.len() != 3 || parts[0] != "tot" {
        harness_broken("child case spec must be tot:<hint>:<input spec>");
    }
    let hint = if parts[1] == "-" { None } else { Some(parts[1]) };
    let input = spec_bytes(parts[2]).unwrap_or_else(|e| harness_broken(&e));
    let out = totality_eval(&input, hint);
    println!("@@CLASS\t{}", CLASS_NAMES[out.class as usize]);
    for (sig, detail) in &out.viols {
        println!("@@VIOL\t{}\t{}", sig, detail);
    }
    println!("@@DONE");
}

// ---------------------------------------------------------------------------
// Oracle (a): round trip
// ---------------------------------------------------------------------------

/// None = round trip fine, else (what, detail).
fn roundtrip_check(f: &RespFrame) -> Option<(String, String)> {
    let bytes = match serialize_to_vec(f) {
        Ok(b) => b,
        Err(e) => return Some(("serialize-error".into(), format!("serializer refused: {}", e))),
    };
    reset_peak();
    let r = parse_resp_frame(&bytes);
    let pk = peak();
    if pk > alloc_bound(bytes.len()) {
        return Some(("alloc".into(), format!("parsing {} honest bytes made a single allocation of {} bytes", bytes.len(), pk)));
    }
    match r {
        Err(e) => return Some(("parse-error".into(), format!("one-shot parse of own serialization failed: {}", e))),
        Ok(None) => return Some(("incomplete".into(), "one-shot parse of own serialization asks for more data".into())),
        Ok(Some((g, n))) => {
            if !frame_rt_eq(f, &g) {
                return Some(("value-differs".into(), format!("parsed back {}", frame_str(&g))));
            }
            if n != bytes.len() {
                return Some(("consumed-mismatch".into(), format!("consumed {} of {} bytes", n, bytes.len())));
            }
        }
    }
    let mut p = RespParser::new();
    p.feed(&bytes);
    match p.parse() {
        Ok(Some(g)) => {
            if !frame_rt_eq(f, &g) {
                return Some(("incremental-value-differs".into(), format!("RespParser gave {}", frame_str(&g))));
            }
        }
        Ok(None) => return Some(("incremental-incomplete".into(), "RespParser asks for more data".into())),
        Err(e) => return Some(("incremental-parse-error".into(), format!("RespParser failed: {}", e))),
    }
    match p.parse() {
        Ok(None) => None,
        Ok(Some(g)) => Some(("incremental-leftover".into(), format!("RespParser produced a second frame {}", frame_str(&g)))),
        Err(e) => Some(("incremental-leftover".into(), format!("RespParser produced an error after the frame: {}", e))),
    }
}

/// Smallest failing sub-tree (children that fail on their own are preferred).
fn minimise<'a>(f: &'a RespFrame) -> &'a RespFrame {
    for c in children(f) {
        if matches!(catch(|| roundtrip_check(c)), Ok(Some(_)) | Err(_)) {
            return minimise(c);
        }
    }
    f
}

fn roundtrip_case(rep: &mut Report, case_seed: u64, miri: bool) {
    let f = gen_roundtrip_frame(case_seed, miri);
    rep.evaluations += 1;
    let mut mask = 0u32;
    let mut maxdepth = 0u32;
    let mut special = Vec::new();
    walk_variants(&f, &mut mask, 0, &mut maxdepth, &mut special);
    for i in 0..12 {
        if mask & (1 << i) != 0 {
            rep.cell(format!("roundtrip/{}", VARIANTS[i]));
        }
    }
    for s in special {
        rep.cell(format!("roundtrip/{}", s));
    }
    if maxdepth >= 6 {
        rep.cell("roundtrip/depth-6");
    }
    let replay = format!("rt:{}{}", case_seed, if miri { ":miri" } else { "" });
    match catch(|| roundtrip_check(&f)) {
        Ok(None) => {
            if rep.samples.len() < 3 {
                let b = serialize_to_vec(&f).unwrap_or_default();
                rep.sample(format!("roundtrip ok: \"{}\"", escape_bytes(&b, 80)));
            }
        }
        Ok(Some(_)) => {
            let m = minimise(&f);
            let (what, detail) = match catch(|| roundtrip_check(m)) {
                Ok(Some(x)) => x,
                Ok(None) => ("unstable".into(), "minimised frame passes on its own".into()),
                Err(p) => ("panic".into(), format!("panic \"{}\" at {}", p.msg, p.loc)),
            };
            let bytes = serialize_to_vec(m).unwrap_or_default();
            rep.violation(
                format!("roundtrip/{}/{}", variant(m), what),
                format!("frame {} serialises to \"{}\" (hex {}); {}", frame_str(m), escape_bytes(&bytes, 120), to_hex(&bytes[..bytes.len().min(64)]), detail),
                replay,
            );
        }
        Err(p) => {
            rep.violation(
                format!("panic/roundtrip-{}/{}", variant(&f), p.loc),
                format!("panic \"{}\" at {} while round-tripping {}", p.msg, p.loc, frame_str(&f)),
                replay,
            );
        }
    }
}

// ---------------------------------------------------------------------------
// Oracle (b): chunking independence
// ---------------------------------------------------------------------------

const TAIL_KINDS: [&str; 14] = [
    "none", "truncated", "bad-type-byte", "bad-bulk-len", "bulk-missing-crlf", "bad-integer", "bad-boolean", "bad-null", "neg-array-len",
    "neg-bulk-len", "neg-map-len", "bad-double", "raw-ping-tail", "bad-array-len",
];

struct Stream {
    bytes: Vec<u8>,
    expected: Vec<RespFrame>,
    tail: &'static str,
    has_raw_ping: bool,
    has_ws: bool,
}

fn ping_frame() -> RespFrame {
    RespFrame::Array(Some(vec![RespFrame::BulkString(Some(Arc::new(b"PING".to_vec())))]))
}

fn gen_stream(case_seed: u64, miri: bool) -> Stream {
    let mut rng = Rng::new(case_seed);
    let nframes = rng.range(0, if miri { 2 } else { 5 });
    let mut s = Stream { bytes: Vec::new(), expected: Vec::new(), tail: "none", has_raw_ping: false, has_ws: false };
    let raw_ping_mode = rng.chance(1, 5);
    let ws_mode = rng.chance(1, 5);
    for _ in 0..nframes {
        if raw_ping_mode && rng.chance(1, 3) {
            s.bytes.extend_from_slice(if rng.chance(1, 2) { b"PING\r\n" } else { b"PING" });
            s.expected.push(ping_frame());
            s.has_raw_ping = true;
            continue;
        }
        let f = {
            let mut g = Gen { nodes_left: rng.range(1, 8), big_left: 0, max_payload: if miri { 6 } else { 24 }, max_width: 4, rng: &mut rng };
            g.frame(3)
        };
        s.bytes.extend_from_slice(&serialize_to_vec(&f).expect("serialise"));
        s.expected.push(f);
        if ws_mode && rng.chance(1, 2) {
            s.bytes.extend_from_slice(*rng.pick(&[&b"\r\n"[..], b"\n", b"\r\n\r\n", b"\r"]));
            s.has_ws = true;
        }
    }
    let tk = rng.usize_below(TAIL_KINDS.len() + 4);
    let tail = if tk < TAIL_KINDS.len() { TAIL_KINDS[tk] } else { "none" };
    s.tail = tail;
    match tail {
        "truncated" => {
            let f = {
                let mut g = Gen { nodes_left: rng.range(2, 8), big_left: 0, max_payload: 24, max_width: 4, rng: &mut rng };
                RespFrame::Array(Some(vec![g.frame(2), g.frame(2)]))
            };
            let b = serialize_to_vec(&f).expect("serialise");
            let cut = rng.range(1, b.len() - 1);
            s.bytes.extend_from_slice(&b[..cut]);
        }
        "bad-type-byte" => {
            s.bytes.push(*rng.pick(&[b'X', b'!', 0u8, 0xff, b'p', b'1', b'@']));
            s.bytes.extend_from_slice(b"abc\r\n");
        }
        "bad-bulk-len" => s.bytes.extend_from_slice(*rng.pick(&[&b"$abc\r\nxyz\r\n"[..], b"$1x\r\na\r\n", b"$\r\n\r\n", b"$ 1\r\na\r\n"])),
        "bulk-missing-crlf" => s.bytes.extend_from_slice(*rng.pick(&[&b"$3\r\nabcde\r\n"[..], b"$0\r\nab", b"$2\r\nab\n\r"])),
        "bad-integer" => s.bytes.extend_from_slice(*rng.pick(&[&b":12a\r\n"[..], b":\r\n", b":9223372036854775808\r\n", b":1.5\r\n", b":--1\r\n"])),
        "bad-boolean" => s.bytes.extend_from_slice(*rng.pick(&[&b"#x\r\n"[..], b"#tt\r\n", b"#\r\n\r\n", b"#T\r\n"])),
        "bad-null" => s.bytes.extend_from_slice(*rng.pick(&[&b"_x\r\n"[..], b"__\r\n", b"_\n\r"])),
        "neg-array-len" => s.bytes.extend_from_slice(*rng.pick(&[&b"*-2\r\n"[..], b"*-9223372036854775808\r\n"])),
        "neg-bulk-len" => s.bytes.extend_from_slice(*rng.pick(&[&b"$-5\r\n"[..], b"$-2\r\nab\r\n"])),
        "neg-map-len" => s.bytes.extend_from_slice(*rng.pick(&[&b"%-1\r\n"[..], b"~-1\r\n"])),
        "bad-double" => s.bytes.extend_from_slice(*rng.pick(&[&b",abc\r\n"[..], b",\r\n", b",1.2.3\r\n", b",1e\r\n"])),
        "raw-ping-tail" => {
            s.bytes.extend_from_slice(*rng.pick(&[&b"PING\r\n"[..], b"PING", b" PING ", b"PINGPING\r\n", b"PIN", b"PINGX\r\n"]));
            s.has_raw_ping = true;
        }
        "bad-array-len" => s.bytes.extend_from_slice(*rng.pick(&[&b"*x\r\n"[..], b"*1.0\r\n:1\r\n", b"*\r\n", b"%x\r\n", b"~\r\n"])),
        _ => {}
    }
    s
}

/// Compare one chunking against the reference; record a violation on difference.
fn chunk_compare(rep: &mut Report, stream: &[u8], reference: &ParseRun, splits_desc: &str, run: ParseRun, cons_hint: &str) -> bool {
    let mut ok = true;
    if let Some((pk, fed)) = run.alloc {
        rep.violation(
            format!("alloc/{}", construct_of(stream)),
            format!("RespParser::parse made a single allocation of {} bytes after {} bytes fed; stream \"{}\"", pk, fed, escape_bytes(stream, 120)),
            format!("chunk:{}:{}", to_hex(stream), splits_desc),
        );
        ok = false;
    }
    if !obs_eq(&reference.obs, &run.obs) {
        let c = chunk_construct(&reference.obs, &run.obs, stream);
        let _ = cons_hint;
        rep.violation(
            format!("chunking/{}", c),
            format!(
                "whole feed yields {} but splitting at [{}] yields {}; stream \"{}\" (hex {})",
                obs_str(&reference.obs),
                splits_desc,
                obs_str(&run.obs),
                escape_bytes(stream, 160),
                to_hex(&stream[..stream.len().min(96)])
            ),
            format!("chunk:{}:{}", to_hex(stream), splits_desc),
        );
        ok = false;
    }
    ok
}

fn chunking_case(rep: &mut Report, case_seed: u64, miri: bool) {
    let s = gen_stream(case_seed, miri);
    let stream = &s.bytes;
    let n = stream.len();
    rep.evaluations += 1;
    rep.cell(format!("chunking/tail-{}", s.tail));
    if s.has_raw_ping {
        rep.cell("chunking/raw-ping");
    }
    if s.has_ws {
        rep.cell("chunking/inter-frame-whitespace");
    }
    for f in &s.expected {
        rep.cell(format!("chunking/{}", variant(f)));
    }
    let mut rng = Rng::new(mix(case_seed, 77, 0));
    let res = catch(|| {
        let mut local = Report::new();
        let reference = run_incremental(stream, Chunking::Whole);
        if let Some((pk, fed)) = reference.alloc {
            local.violation(
                format!("alloc/{}", construct_of(stream)),
                format!("RespParser::parse made a single allocation of {} bytes after {} bytes fed; stream \"{}\"", pk, fed, escape_bytes(stream, 120)),
                format!("chunk:{}:whole", to_hex(stream)),
            );
        }
        // the valid prefix must come back as generated
        let got_frames: Vec<&RespFrame> = reference.obs.iter().filter_map(|o| if let Obs::Frame(f) = o { Some(f) } else { None }).collect();
        for (i, e) in s.expected.iter().enumerate() {
            match got_frames.get(i) {
                Some(g) if frame_rt_eq(e, g) => {}
                other => {
                    local.violation(
                        format!("roundtrip/stream/{}", variant(e)),
                        format!(
                            "frame #{} of the stream was generated as {} but the whole feed yields {}; stream \"{}\"",
                            i,
                            frame_str(e),
                            other.map(|g| frame_str(g)).unwrap_or_else(|| "nothing".into()),
                            escape_bytes(stream, 160)
                        ),
                        format!("chunk:{}:whole", to_hex(stream)),
                    );
                    break;
                }
            }
        }
        let mut evals = 1u64;
        // every single split point
        if n <= 600 {
            for cut in 1..n {
                let sp = [cut];
                let run = run_incremental(stream, Chunking::Splits(&sp));
                evals += 1;
                if !chunk_compare(&mut local, stream, &reference, &cut.to_string(), run, s.tail) {
                    break;
                }
            }
            local.cell("chunking/split-every-offset");
        }
        // byte at a time
        if n <= BYTEWISE_MAX {
            let run = run_incremental(stream, Chunking::Bytewise);
            evals += 1;
            chunk_compare(&mut local, stream, &reference, "bytes", run, s.tail);
            local.cell("chunking/split-bytewise");
        }
        // all pairs for short streams
        if n >= 3 && n <= if miri { 12 } else { 40 } {
            'outer: for a in 1..n {
                for b in a + 1..n {
                    let sp = [a, b];
                    let run = run_incremental(stream, Chunking::Splits(&sp));
                    evals += 1;
                    if !chunk_compare(&mut local, stream, &reference, &format!("{},{}", a, b), run, s.tail) {
                        break 'outer;
                    }
                }
            }
            local.cell("chunking/split-all-pairs");
        }
        // random multi-splits
        if n >= 2 {
            for _ in 0..(if miri { 2 } else { 8 }) {
                let k = rng.range(2, 12.min(n.max(2)));
                let mut sp: Vec<usize> = (0..k).map(|_| rng.range(1, n - 1)).collect();
                sp.sort_unstable();
                sp.dedup();
                let desc = sp.iter().map(|x| x.to_string()).collect::<Vec<_>>().join(",");
                let run = run_incremental(stream, Chunking::Splits(&sp));
                evals += 1;
                if !chunk_compare(&mut local, stream, &reference, &desc, run, s.tail) {
                    break;
                }
            }
            local.cell("chunking/split-random-multi");
        }
        (local, evals, reference.obs.len())
    });
    match res {
        Ok((local, evals, nobs)) => {
            rep.extra_add("chunkings_compared", evals);
            for c in local.cells {
                rep.cell(c);
            }
            for v in local.violations {
                rep.violation(v.sig, v.detail, v.replay);
            }
            if rep.samples.len() < 6 && n > 0 && n < 80 {
                rep.sample(format!("chunking: stream \"{}\" -> {} results, tail {}", escape_bytes(stream, 80), nobs, s.tail));
            }
        }
        Err(p) => rep.violation(
            format!("panic/{}/{}", construct_of(stream), p.loc),
            format!("panic \"{}\" at {} while chunking stream \"{}\" (hex {})", p.msg, p.loc, escape_bytes(stream, 120), to_hex(&stream[..n.min(96)])),
            format!("chunk:{}:bytes", to_hex(stream)),
        ),
    }
}

// ---------------------------------------------------------------------------
// Totality generators
// ---------------------------------------------------------------------------

const ALPHA14: &[u8] = b"*$+-:_#%\r\n012t";
const ALPHA24: &[u8] = b"*$+-:_#%\r\n012t,~9fPINGa ";

struct TotStats {
    cells: [[bool; 4]; 14],
    count: u64,
}

fn tot_inproc(rep: &mut Report, stats: &mut TotStats, input: &[u8]) {
    if std::env::var_os("VERIF_TRACE").is_some() {
        eprintln!("TRACE {}", to_hex(input));
    }
    let out = totality_eval(input, None);
    stats.count += 1;
    stats.cells[lead_class_idx(input)][out.class as usize] = true;
    if !out.viols.is_empty() {
        let replay = format!("tot:-:{}", hex_spec(input));
        report_tot(rep, &out, &replay);
    }
}

/// All strings of exactly `len` symbols over `alpha`; returns false when cut short.
fn enumerate_len(rep: &mut Report, stats: &mut TotStats, alpha: &[u8], len: usize, budget: &Budget, frac: f64, cap: &mut u64) -> bool {
    let k = alpha.len();
    let mut idx = vec![0usize; len];
    let mut buf = vec![alpha[0]; len];
    let mut n = 0u64;
    loop {
        if *cap == 0 {
            return false;
        }
        *cap -= 1;
        tot_inproc(rep, stats, &buf);
        n += 1;
        if n % 8192 == 0 && budget.used(frac) {
            return false;
        }
        // increment
        let mut pos = len;
        loop {
            if pos == 0 {
                return true;
            }
            pos -= 1;
            idx[pos] += 1;
            if idx[pos] < k {
                buf[pos] = alpha[idx[pos]];
                break;
            }
            idx[pos] = 0;
            buf[pos] = alpha[0];
        }
        if len == 0 {
            return true;
        }
    }
}

const NUMBER_STRINGS: [&str; 30] = [
    "-1", "-2", "0", "00", "+1", "1", "2", "9", "10", "64", "100", "1000", "65536", "100000", "1000000", "2147483647", "2147483648",
    "4294967295", "4294967296", "9223372036854775807", "9223372036854775808", "18446744073709551615", "18446744073709551616",
    "-9223372036854775808", "1e3", "0x10", " 1", "1 ", "", "99999999999999999999999999",
];

fn digit_runs(b: &[u8]) -> Vec<(usize, usize)> {
    // spans of the number following a length-carrying type byte
    let mut out = Vec::new();
    let mut i = 0;
    while i < b.len() {
        if matches!(b[i], b'*' | b'$' | b'%' | b'~' | b':') {
            let s = i + 1;
            let mut j = s;
            while j < b.len() && (b[j].is_ascii_digit() || b[j] == b'-') {
                j += 1;
            }
            if j > s {
                out.push((s, j));
            }
            i = j.max(i + 1);
        } else {
            i += 1;
        }
    }
    out
}

const TYPE_BYTES: &[u8] = b"+-:$*_#,%~";

fn gen_mutated(case_seed: u64, miri: bool) -> Vec<u8> {
    let mut rng = Rng::new(case_seed);
    let base_kind = rng.below(10);
    let mut b: Vec<u8> = Vec::new();
    if base_kind < 7 {
        let mut g = Gen { nodes_left: rng.range(1, 10), big_left: 0, max_payload: 20, max_width: 4, rng: &mut rng };
        let f = if g.rng.chance(2, 3) { RespFrame::Array(Some(vec![g.frame(3), g.frame(2)])) } else { g.frame(3) };
        b = serialize_to_vec(&f).expect("serialise");
    } else if base_kind < 9 {
        for _ in 0..rng.range(2, 3) {
            let mut g = Gen { nodes_left: rng.range(1, 5), big_left: 0, max_payload: 12, max_width: 3, rng: &mut rng };
            let f = g.frame(2);
            b.extend_from_slice(&serialize_to_vec(&f).expect("serialise"));
        }
    } else {
        let n = rng.range(1, 40);
        for _ in 0..n {
            b.push(*rng.pick(ALPHA24));
        }
    }
    let nm = rng.range(1, 3);
    for _ in 0..nm {
        if b.is_empty() {
            b.push(*rng.pick(TYPE_BYTES));
            continue;
        }
        match rng.below(12) {
            0 | 1 | 2 => {
                // rewrite a declared length / integer
                let runs = digit_runs(&b);
                if runs.is_empty() {
                    continue;
                }
                let (s, e) = *rng.pick(&runs);
                let mut rep: Vec<u8> = rng.pick(&NUMBER_STRINGS).as_bytes().to_vec();
                if rng.chance(1, 4) {
                    // random digits, up to 20
                    rep = (0..rng.range(1, 20)).map(|_| b'0' + rng.below(10) as u8).collect();
                }
                if miri {
                    // keep Miri's interpreter away from multi-GB reservations
                    let v: u128 = std::str::from_utf8(&rep).ok().and_then(|s| s.trim().parse().ok()).unwrap_or(0);
                    if v > 2000 && v < (1u128 << 62) {
                        rep = b"1000".to_vec();
                    }
                }
                b.splice(s..e, rep);
            }
            3 => {
                // change a digit
                let runs = digit_runs(&b);
                if runs.is_empty() {
                    continue;
                }
                let (s, e) = *rng.pick(&runs);
                let i = rng.range(s, e - 1);
                b[i] = b'0' + rng.below(10) as u8;
            }
            4 => {
                let i = rng.usize_below(b.len());
                b[i] = if rng.chance(3, 4) { *rng.pick(TYPE_BYTES) } else { rng.byte() };
            }
            5 => {
                let cut = rng.usize_below(b.len());
                b.truncate(cut);
            }
            6 => {
                let s = rng.usize_below(b.len());
                let e = rng.range(s, b.len().min(s + 24));
                let piece = b[s..e].to_vec();
                let at = rng.usize_below(b.len() + 1);
                b.splice(at..at, piece);
            }
            7 => {
                let i = rng.usize_below(b.len());
                b.remove(i);
            }
            8 => {
                let i = rng.usize_below(b.len() + 1);
                b.insert(i, if rng.chance(1, 2) { *rng.pick(ALPHA24) } else { rng.byte() });
            }
            9 => {
                // damage a CR or LF
                let pos: Vec<usize> = b.iter().enumerate().filter(|(_, &x)| x == b'\r' || x == b'\n').map(|(i, _)| i).collect();
                if pos.is_empty() {
                    continue;
                }
                let i = *rng.pick(&pos);
                if rng.chance(1, 2) {
                    b.remove(i);
                } else {
                    b[i] = *rng.pick(&[b'\r', b'\n', b' ', b'x']);
                }
            }
            10 => {
                let at = rng.usize_below(b.len() + 1);
                let piece: &[u8] = *rng.pick(&[&b"PING"[..], b"PING\r\n", b"PI", b" ", b"\t", b"\r\n"]);
                b.splice(at..at, piece.iter().cloned());
            }
            _ => {
                // wrap in an aggregate header with a wrong count
                let hdr = format!("{}{}\r\n", *rng.pick(&['*', '%', '~']), rng.pick(&NUMBER_STRINGS));
                if miri && declared_lengths(hdr.as_bytes()).iter().any(|&(_, v)| v > 2000 && v < (1u128 << 62)) {
                    continue;
                }
                let mut nb = hdr.into_bytes();
                nb.extend_from_slice(&b);
                b = nb;
            }
        }
    }
    if miri && declared_lengths(&b).iter().any(|&(t, v)| t != b'$' && v > 2000 && v < (1u128 << 62)) {
        return b"*3\r\n:1\r\n".to_vec();
    }
    b
}

/// (hint, input spec, always-child)
fn directed_cases() -> Vec<(String, String, bool)> {
    let mut v: Vec<(String, String, bool)> = Vec::new();
    let h = |s: &str| hex_spec(s.as_bytes());
    for (hint, s) in [
        ("array-len-huge", "*9223372036854775807\r\n"),
        ("array-len-huge", "*9223372036854775808\r\n"),
        ("array-len-huge", "*1000000000\r\n"),
        ("array-len-huge", "*4611686018427387904\r\n"),
        ("array-len-huge", "*288230376151711744\r\n"),
        ("bulk-len-huge", "$9223372036854775807\r\n"),
        ("bulk-len-huge", "$9223372036854775806\r\nab\r\n"),
        ("bulk-len-huge", "$1000000000\r\n"),
        ("bulk-len-huge", "$18446744073709551615\r\n"),
        ("map-len-huge", "%18446744073709551615\r\n"),
        ("map-len-huge", "%9223372036854775807\r\n"),
        ("map-len-huge", "%1000000000\r\n"),
        ("map-len-huge", "%144115188075855872\r\n"),
        ("set-len-huge", "~18446744073709551615\r\n"),
        ("set-len-huge", "~9223372036854775807\r\n"),
        ("set-len-huge", "~1000000000\r\n"),
        ("array-len-huge", "*2\r\n:1\r\n*1000000000\r\n"),
        ("array-len-huge", "*100000000\r\n:1\r\n:2\r\n"),
        ("map-len-huge", "%100000000\r\n+a\r\n:1\r\n"),
    ] {
        v.push((hint.to_string(), h(s), true));
    }
    // ladder of declared lengths with nothing behind them
    for t in ['*', '%', '~', '$'] {
        let hint = match t {
            '*' => "array-len-huge",
            '%' => "map-len-huge",
            '~' => "set-len-huge",
            _ => "bulk-len-huge",
        };
        for e in 3..=7u32 {
            v.push((hint.to_string(), h(&format!("{}{}\r\n", t, 10u64.pow(e))), false));
        }
    }
    // deep nesting
    for (hint, unit) in [("nested-deep-array", "*1\r\n"), ("nested-deep-map", "%1\r\n"), ("nested-deep-set", "~1\r\n")] {
        for count in [1000usize, 10_000, 100_000] {
            v.push((hint.to_string(), format!("rep:{}:{}:{}", to_hex(unit.as_bytes()), count, to_hex(b":1\r\n")), true));
        }
    }
    v.push(("nested-deep-array".to_string(), format!("rep:{}:{}:", to_hex(b"*1\r\n"), 100_000), true));
    v.push(("nested-deep-array".to_string(), format!("rep:{}:{}:{}", to_hex(b"*2\r\n:1\r\n"), 100_000, to_hex(b":1\r\n")), true));
    v
}

// ---------------------------------------------------------------------------
// Drivers
// ---------------------------------------------------------------------------

fn flush_tot_stats(rep: &mut Report, stats: &TotStats, gen: &str) {
    for (ci, row) in stats.cells.iter().enumerate() {
        for (oi, &hit) in row.iter().enumerate() {
            if hit {
                rep.cell(format!("totality/{}/{}/{}", gen, LEAD_CLASSES[ci], CLASS_NAMES[oi]));
            }
        }
    }
    rep.evaluations += stats.count;
    rep.extra_add(&format!("totality_{}_inputs", gen.replace('-', "_")), stats.count);
}

fn new_stats() -> TotStats {
    TotStats { cells: [[false; 4]; 14], count: 0 }
}

fn check_noresponse(rep: &mut Report) {
    rep.evaluations += 1;
    match catch(|| serialize_to_vec(&RespFrame::NoResponse)) {
        Ok(Err(_)) => {
            rep.cell("roundtrip/no-response-refused");
            rep.extra_str(
                "excluded_variants",
                "NoResponse: internal marker, serialize_resp_frame refuses it by design (checked: returns Err), so it is outside the round-trip domain",
            );
        }
        Ok(Ok(b)) => rep.violation(
            "roundtrip/no-response/serialised",
            format!("NoResponse marker serialised to \"{}\"", escape_bytes(&b, 40)),
            "noresponse".to_string(),
        ),
        Err(p) => rep.violation(format!("panic/no-response/{}", p.loc), format!("panic \"{}\" serialising NoResponse", p.msg), "noresponse".to_string()),
    }
}

#[cfg(not(miri))]
fn full_main(args: &Args) -> Report {
    let mut rep = Report::new();
    let budget = Budget::new(args.budget_s);
    let cap = args.max_cases.unwrap_or(u64::MAX);
    check_noresponse(&mut rep);

    // 1. directed absurd lengths and nesting
    let mut st = new_stats();
    for (hint, spec, child) in directed_cases() {
        let input = spec_bytes(&spec).unwrap_or_else(|e| harness_broken(&e));
        let what = format!("input \"{}\" ({} bytes)", escape_bytes(&input, 48), input.len());
        if child || needs_child(&input) {
            totality_in_child(&mut rep, &hint, &spec, &what);
        } else {
            let out = totality_eval(&input, Some(&hint));
            st.count += 1;
            rep.cell(format!("totality/{}/{}", hint, CLASS_NAMES[out.class as usize]));
            report_tot(&mut rep, &out, &format!("tot:{}:{}", hint, spec));
        }
    }
    flush_tot_stats(&mut rep, &st, "directed");
    rep.extra_num("t_directed_s", format!("{:.2}", budget.elapsed()));

    // 2. exhaustive short alphabets
    let mut complete = true;
    let full14 = if args.tier == Tier::Thorough { 6 } else { 5 };
    let mut st = new_stats();
    let mut c = cap;
    for len in 0..=4 {
        if !enumerate_len(&mut rep, &mut st, ALPHA24, len, &budget, 0.5, &mut c) {
            complete = false;
            break;
        }
    }
    flush_tot_stats(&mut rep, &st, "alphabet24");
    let mut st = new_stats();
    let mut c = cap;
    for len in 0..=full14 {
        if !enumerate_len(&mut rep, &mut st, ALPHA14, len, &budget, 0.6, &mut c) {
            complete = false;
            break;
        }
    }
    flush_tot_stats(&mut rep, &st, "alphabet14");
    rep.extra_bool("exhaustive_complete", complete && cap == u64::MAX);
    rep.extra_num("exhaustive_alphabet14_maxlen", full14);
    rep.extra_num("t_exhaustive_s", format!("{:.2}", budget.elapsed()));

    // 3. random phases, round robin until the budget is gone
    let mut rt_i = 0u64;
    let mut ch_i = 0u64;
    let mut mu_i = 0u64;
    let mut s6_i = 0u64;
    let mut st_mut = new_stats();
    let mut st_s6 = new_stats();
    let mut child_mut = 0u64;
    let mut round = 0u64;
    'outer: loop {
        if budget.over() && round > 0 {
            break;
        }
        let (nrt, nch, nmu, ns6) = (100, 30, 400, if args.tier == Tier::Quick { 4000 } else { 0 });
        for _ in 0..nrt {
            if rt_i >= cap {
                break;
            }
            roundtrip_case(&mut rep, mix(args.seed, 1, rt_i), false);
            rt_i += 1;
            if rt_i % 16 == 0 && budget.over() {
                break;
            }
        }
        for _ in 0..nch {
            if ch_i >= cap || budget.over() {
                break;
            }
            chunking_case(&mut rep, mix(args.seed, 2, ch_i), false);
            ch_i += 1;
        }
        for _ in 0..nmu {
            if mu_i >= cap {
                break;
            }
            let input = gen_mutated(mix(args.seed, 3, mu_i), false);
            mu_i += 1;
            if needs_child(&input) {
                if child_mut < 400 {
                    child_mut += 1;
                    let what = format!("mutated input \"{}\" ({} bytes)", escape_bytes(&input, 64), input.len());
                    let hint = construct_of(&input);
                    totality_in_child(&mut rep, &hint, &hex_spec(&input), &what);
                }
                continue;
            }
            tot_inproc(&mut rep, &mut st_mut, &input);
            if st_mut.count < 4 {
                rep.sample(format!("totality mutated: \"{}\"", escape_bytes(&input, 80)));
            }
            if mu_i % 64 == 0 && budget.over() {
                break;
            }
        }
        if ns6 > 0 {
            let mut rng = Rng::new(mix(args.seed, 4, round));
            let mut buf = [0u8; 6];
            for _ in 0..ns6 {
                if s6_i >= cap {
                    break;
                }
                for b in buf.iter_mut() {
                    *b = ALPHA14[rng.usize_below(14)];
                }
                tot_inproc(&mut rep, &mut st_s6, &buf);
                s6_i += 1;
            }
        }
        round += 1;
        if rt_i >= cap && ch_i >= cap && mu_i >= cap {
            break 'outer;
        }
    }
    flush_tot_stats(&mut rep, &st_mut, "mutated");
    if st_s6.count > 0 {
        flush_tot_stats(&mut rep, &st_s6, "alphabet14-len6-sample");
    }
    rep.extra_num("roundtrip_cases", rt_i);
    rep.extra_num("chunking_streams", ch_i);
    rep.extra_num("mutated_cases", mu_i);
    rep.extra_num("mutated_cases_in_child", child_mut);
    rep.extra_num("rounds", round);
    rep.extra_num("elapsed_s", format!("{:.2}", budget.elapsed()));
    rep.extra_num("seed", args.seed);
    rep
}

/// Small deterministic workload without processes or files (for Miri).
fn miri_main(args: &Args) -> Report {
    let mut rep = Report::new();
    check_noresponse(&mut rep);
    let n = args.max_cases.unwrap_or(40);
    for i in 0..n {
        roundtrip_case(&mut rep, mix(args.seed, 1, i), true);
    }
    for i in 0..n / 3 {
        chunking_case(&mut rep, mix(args.seed, 2, i), true);
    }
    let mut st = new_stats();
    for i in 0..n {
        let input = gen_mutated(mix(args.seed, 3, i), true);
        tot_inproc(&mut rep, &mut st, &input);
    }
    let mut rng = Rng::new(mix(args.seed, 4, 0));
    for _ in 0..n * 2 {
        let len = rng.range(0, 6);
        let input: Vec<u8> = (0..len).map(|_| *rng.pick(ALPHA24)).collect();
        tot_inproc(&mut rep, &mut st, &input);
    }
    // declared lengths that panic rather than allocate are fine under Miri
    for s in ["*9223372036854775807\r\n", "%18446744073709551615\r\n", "~18446744073709551615\r\n", "$9223372036854775807\r\n", "PING", "*1000\r\n"] {
        tot_inproc(&mut rep, &mut st, s.as_bytes());
    }
    // moderate nesting in-process
    let mut nest = Vec::new();
    for _ in 0..64 {
        nest.extend_from_slice(b"*1\r\n");
    }
    nest.extend_from_slice(b":1\r\n");
    tot_inproc(&mut rep, &mut st, &nest);
    flush_tot_stats(&mut rep, &st, "miri");
    rep.extra_str("mode", "miri");
    rep.extra_num("seed", args.seed);
    rep
}

fn replay(r: &str, miri: bool) {
    let mut rep = Report::new();
    if let Some(rest) = r.strip_prefix("rt:") {
        let mut it = rest.split(':');
        let seed: u64 = it.next().unwrap_or("").parse().unwrap_or_else(|_| harness_broken("rt:<case seed>"));
        let m = it.next() == Some("miri") || miri;
        let f = gen_roundtrip_frame(seed, m);
        println!("frame: {}", frame_str(&f));
        roundtrip_case(&mut rep, seed, m);
    } else if let Some(rest) = r.strip_prefix("chunk:") {
        let mut it = rest.splitn(2, ':');
        let stream = from_hex(it.next().unwrap_or("")).unwrap_or_else(|e| harness_broken(&e));
        let desc = it.next().unwrap_or("bytes");
        println!("stream: \"{}\"", escape_bytes(&stream, 400));
        let res = catch(|| {
            let reference = run_incremental(&stream, Chunking::Whole);
            let run = if desc == "bytes" {
                run_incremental(&stream, Chunking::Bytewise)
            } else if desc == "whole" {
                run_incremental(&stream, Chunking::Whole)
            } else {
                let sp: Vec<usize> = desc.split(',').filter_map(|x| x.parse().ok()).collect();
                run_incremental(&stream, Chunking::Splits(&sp))
            };
            (reference, run)
        });
        match res {
            Ok((reference, run)) => {
                println!("whole feed      : {}", obs_str(&reference.obs));
                println!("split [{}] : {}", desc, obs_str(&run.obs));
                let mut local = Report::new();
                chunk_compare(&mut local, &stream, &reference, desc, run, "none");
                for v in local.violations {
                    rep.violation(v.sig, v.detail, v.replay);
                }
            }
            Err(p) => rep.violation(format!("panic/{}/{}", construct_of(&stream), p.loc), format!("panic \"{}\" at {}", p.msg, p.loc), r.to_string()),
        }
        rep.evaluations += 1;
    } else if r.starts_with("tot:") {
        let parts: Vec<&str> = r.splitn(3, ':').collect();
        if parts.len() != 3 {
            harness_broken("tot:<hint|->:<input spec>");
        }
        #[cfg(not(miri))]
        {
            let input = spec_bytes(parts[2]).unwrap_or_else(|e| harness_broken(&e));
            println!("input: \"{}\" ({} bytes), run in a child process", escape_bytes(&input, 200), input.len());
            let hint = if parts[1] == "-" { construct_of(&input) } else { parts[1].to_string() };
            totality_in_child(&mut rep, &hint, parts[2], "replay");
        }
        #[cfg(miri)]
        {
            let input = spec_bytes(parts[2]).unwrap_or_else(|e| harness_broken(&e));
            let mut st = new_stats();
            tot_inproc(&mut rep, &mut st, &input);
        }
    } else if r == "noresponse" {
        check_noresponse(&mut rep);
    } else {
        harness_broken("replay string must start with rt: | chunk: | tot:");
    }
    if rep.violations.is_empty() {
        println!("replay: no violation");
    }
    for v in &rep.violations {
        println!("replay: VIOLATION {} -- {}", v.sig, v.detail);
    }
    rep.emit();
}

fn main() {
    install_panic_hook();
    let args = parse_args();
    if let Some(c) = args.child.clone() {
        child_main(c);
        return;
    }
    if let Some(r) = args.replay.clone() {
        replay(&r, args.miri);
        return;
    }
    let rep = if args.miri {
        miri_main(&args)
    } else {
        #[cfg(not(miri))]
        {
            full_main(&args)
        }
        #[cfg(miri)]
        {
            miri_main(&args)
        }
    };
    rep.emit();
}

#!/bin/sh
# MANIFEST.setup_cmd: warm the hooks-on build (offline). Checks rebuild incrementally themselves.
cd "$(dirname "$0")" || exit 2
export CARGO_NET_OFFLINE=true
python3 - <<'PY'
from fv import server
b, t = server.build("dev")
print("built", b, "in %.1fs" % t)
from fv import rsbin
print("built in-process harness:", rsbin.build())
PY

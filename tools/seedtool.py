#!/usr/bin/env python3
"""Seeded-change bookkeeping.

  seedtool.py confirm <worktree> <srcdir>      build + repo test suite + demonstration with the change,
                                               demonstration without it (in the scratch worktree)
  seedtool.py eval <seeded/<name>> [Cxx ...]   git apply to /repo, run ./check <prop> quick (or the
                                               listed checks), restore /repo; writes result.json
  seedtool.py evalall [tier]                   eval every seeded/<name> against its own property
"""
import json
import os
import re
import subprocess
import sys
import time

VERIF = os.path.dirname(os.path.dirname(os.path.abspath(__file__)))
ENV = dict(os.environ, CARGO_NET_OFFLINE="true")


def sh(cmd, cwd=None, timeout=3600, env=None):
    p = subprocess.run(cmd, cwd=cwd, shell=isinstance(cmd, str), env=env or ENV, capture_output=True, text=True,
                       timeout=timeout)
    return p.returncode, p.stdout + p.stderr


def run_demo(src, wt, binary):
    if os.path.exists(os.path.join(src, "demo.py")):
        return sh(["python3", os.path.join(src, "demo.py"), binary], cwd=wt, timeout=900)
    if os.path.exists(os.path.join(src, "demo.sh")):
        return sh(["sh", os.path.join(src, "demo.sh"), binary], cwd=wt, timeout=900)
    if os.path.exists(os.path.join(src, "demo.rs")):
        dst = os.path.join(wt, "tests", "demo.rs")
        open(dst, "w").write(open(os.path.join(src, "demo.rs")).read())
        try:
            return sh("cargo test --offline --test demo", cwd=wt, timeout=1800,
                      env=dict(ENV, CARGO_TARGET_DIR=os.path.join(wt, "target")))
        finally:
            os.remove(dst)
    return 99, "no demonstration found"


def confirm(wt, src):
    env = dict(ENV, CARGO_TARGET_DIR=os.path.join(wt, "target"))
    out = {}
    rc, o = sh("git status --porcelain", cwd=wt)
    if o.strip():
        sh("git checkout -- . && git clean -fdq -e target", cwd=wt)
    patch = os.path.join(src, "patch.diff")
    rc, o = sh(["git", "apply", "--check", patch], cwd=wt)
    if rc != 0:
        print("patch does not apply:", o)
        return 2
    sh(["git", "apply", patch], cwd=wt)
    try:
        rc, o = sh("cargo build --offline --bin ferrous", cwd=wt, env=env)
        out["build"] = rc
        rc2, o2 = sh("cargo build --offline --features verif --bin ferrous", cwd=wt,
                     env=dict(env, CARGO_TARGET_DIR=os.path.join(wt, "target", "verif")))
        out["build_verif"] = rc2
        if rc or rc2:
            print("build failed", (o + o2)[-3000:])
            return 2
        rc, o = sh("cargo test --workspace --no-fail-fast --offline 2>&1", cwd=wt, env=env, timeout=3600)
        passed = sum(int(x) for x in re.findall(r"test result: \w+\. (\d+) passed", o))
        failed = sum(int(x) for x in re.findall(r"test result: \w+\. \d+ passed; (\d+) failed", o))
        out["tests"] = {"rc": rc, "passed": passed, "failed": failed}
        binary = os.path.join(wt, "target", "debug", "ferrous")
        rc, o = run_demo(src, wt, binary)
        out["demo_with_change"] = {"rc": rc, "tail": o[-1200:]}
    finally:
        sh(["git", "apply", "-R", patch], cwd=wt)
        sh("git checkout -- . ; git clean -fdq -e target", cwd=wt)
    rc, o = sh("cargo build --offline --bin ferrous", cwd=wt, env=env)
    rc, o = run_demo(src, wt, os.path.join(wt, "target", "debug", "ferrous"))
    out["demo_clean"] = {"rc": rc, "tail": o[-600:]}
    ok = (out["tests"]["rc"] == 0 and out["tests"]["failed"] == 0 and out["tests"]["passed"] >= 163
          and out["demo_with_change"]["rc"] != 0 and out["demo_clean"]["rc"] == 0)
    out["confirmed"] = ok
    print(json.dumps(out, indent=1))
    json.dump(out, open(os.path.join(src, "confirm.json"), "w"), indent=1)
    return 0 if ok else 1


def repo_clean():
    rc, o = sh("git status --porcelain", cwd="/repo")
    return [l for l in o.splitlines() if not l.endswith("test.rdb")] == []


def evaluate(sdir, checks, tier="quick"):
    sdir = os.path.abspath(sdir)
    meta = json.load(open(os.path.join(sdir, "meta.json")))
    if meta.get("obsolete"):
        print(os.path.basename(sdir), "obsolete:", meta["obsolete"][:100])
        return 0
    prop = meta["property"]
    checks = checks or [prop]
    patch = os.path.join(sdir, "patch.diff")
    if not repo_clean():
        print("/repo has local changes; refusing")
        return 2
    rc, o = sh(["git", "apply", patch], cwd="/repo")
    if rc != 0:
        print("apply failed", o)
        return 2
    results = {}
    saved_evidence = {}
    try:
        for c in checks:
            # evidence committed in /verif must come from runs against /repo itself: keep the
            # file of the unchanged tree aside while the changed tree is being checked
            ev = os.path.join(VERIF, "evidence", c + ".json")
            if os.path.exists(ev):
                saved_evidence[ev] = open(ev, "rb").read()
            t0 = time.time()
            rc, o = sh(["./check", c, tier], cwd=VERIF, timeout=7200)
            viol = [l for l in o.splitlines() if l.startswith("VIOLATION")]
            sigs = [l.strip() for l in o.splitlines() if l.strip().startswith("sig=")]
            results[c] = {"tier": tier, "exit": rc, "violation_lines": viol[:10], "sigs": sigs[:10],
                          "wall_s": round(time.time() - t0, 1),
                          "summary": [l for l in o.splitlines() if l.startswith(c + " " + tier)][-1:],
                          "inconclusive": [l[:300] for l in o.splitlines() if l.startswith("INCONCLUSIVE")][:3]}
            print(os.path.basename(sdir), c, tier, "exit", rc, viol[:2], sigs[:2])
    finally:
        for ev, data in saved_evidence.items():
            open(ev, "wb").write(data)
        sh(["git", "apply", "-R", patch], cwd="/repo")
        sh("git checkout -- .", cwd="/repo")
        if not repo_clean():
            print("WARNING: /repo not clean after restore")
    path = os.path.join(sdir, "result.json")
    old = json.load(open(path)) if os.path.exists(path) else {}
    for c, r in results.items():
        old["%s:%s" % (c, tier)] = r
    json.dump(old, open(path, "w"), indent=1)
    return 0


def main(a):
    if a[0] == "confirm":
        return confirm(a[1], a[2])
    if a[0] == "eval":
        tier = "quick"
        rest = a[2:]
        if rest and rest[-1] in ("quick", "thorough"):
            tier = rest.pop()
        return evaluate(a[1], rest, tier)
    if a[0] == "evalall":
        tier = a[1] if len(a) > 1 else "quick"
        only = a[2] if len(a) > 2 else ""
        root = os.path.join(VERIF, "seeded")
        for d in sorted(os.listdir(root)):
            if only and only not in d:
                continue
            if os.path.exists(os.path.join(root, d, "patch.diff")):
                evaluate(os.path.join(root, d), [], tier)
        return 0
    print(__doc__)
    return 2


if __name__ == "__main__":
    sys.exit(main(sys.argv[1:]))

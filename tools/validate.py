#!/usr/bin/env python3-vt
import json, jsonschema, glob, sys
m=json.load(open('/verif/MANIFEST.json')); s=json.load(open('/root/.vp/MANIFEST.schema.json'))
jsonschema.validate(m,s); print("manifest valid")
es=json.load(open('/root/.vp/EVIDENCE.schema.json'))
for f in sorted(glob.glob('/verif/evidence/*.json')):
    jsonschema.validate(json.load(open(f)),es); print("valid", f)

#!/usr/bin/env python3
"""Regenerate the list of repairs in DESIGN.md section 9 from KNOWN_FINDINGS.txt."""
import os
import re
V = os.path.dirname(os.path.dirname(os.path.abspath(__file__)))
kf = open(os.path.join(V, "KNOWN_FINDINGS.txt")).read().splitlines()
fixed = {}
for l in kf:
    m = re.match(r"fixed: property=(C\d\d) (\w+) (.*)", l)
    if m:
        fixed.setdefault(m.group(1), []).append((m.group(2), m.group(3)))
out = []
n = 0
for pid in sorted(fixed):
    out.append("**%s** (%d repairs)\n\n" % (pid, len(fixed[pid])))
    for h, t in fixed[pid]:
        n += 1
        out.append("* `%s` %s\n" % (h, t))
    out.append("\n")
p = os.path.join(V, "DESIGN.md")
s = open(p).read()
b = s.index("<!-- FIXLIST-BEGIN")
b = s.index("\n", b) + 1
e = s.index("<!-- FIXLIST-END -->")
s = s[:b] + "".join(out) + s[e:]
s = re.sub(r"\d+ `fix:` commits repair", "%d `fix:` commits repair" % n, s)
open(p, "w").write(s)
print(n, "repairs listed")

#!/usr/bin/env python3
"""Regenerate MANIFEST.json from the table below (kept next to the checks)."""
import json, os, subprocess
HERE = os.path.dirname(os.path.dirname(os.path.abspath(__file__)))

CHECKS = {}  # id -> dict(level, text, note, technique, design_ref, engine, thorough=True)
NOT_YET = {}

def add(pid, category, text, note, technique, engine, design_ref):
    CHECKS[pid] = dict(category=category, text=text, note=note, technique=technique, engine=engine, design_ref=design_ref)

exec(open(os.path.join(HERE, "tools", "manifest_table.py")).read())

hook_commits = subprocess.run(["git", "-C", "/repo", "log", "--format=%h %s", "--grep=^verif hooks"],
                              capture_output=True, text=True).stdout.strip().splitlines()
m = {
    "version": 1,
    "setup_cmd": "./setup.sh",
    "hooks": {
        "guard": "cargo feature `verif` (Cargo.toml: [features] verif = [])",
        "enable": "cargo build --offline --features verif --bin ferrous (CARGO_TARGET_DIR=/verif/.build/<profile>; dev profile with opt-level=1 via --config)",
        "baseline_off_cmd": "./baseline_off.sh",
        "source_commits": [c.split()[0] for c in hook_commits],
        "add_only": True,
    },
    "engines": ENGINES,
    "checks": [],
    "notes": NOTES,
    "not_applicable": [{"property_id": k, "reason": v} for k, v in sorted(NOT_YET.items())],
}
for pid in sorted(CHECKS):
    c = CHECKS[pid]
    m["checks"].append({
        "property_id": pid,
        "quick_cmd": "./check %s quick" % pid,
        "thorough_cmd": "./check %s thorough" % pid,
        "evidence_file": "evidence/%s.json" % pid,
        "replay_cmd_template": "./check replay {path}",
        "engine": c["engine"],
        "level_claimed": {"category": c["category"], "text": c["text"], "design_ref": c["design_ref"]},
        "level_note": c["note"],
        "technique": c["technique"],
    })
json.dump(m, open(os.path.join(HERE, "MANIFEST.json"), "w"), indent=1)
print("MANIFEST.json: %d checks, %d not claimed" % (len(m["checks"]), len(m["not_applicable"])))

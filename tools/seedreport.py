#!/usr/bin/env python3
"""Print the markdown table of DESIGN.md section 10 from seeded/*/{meta,confirm,result}.json."""
import json
import os
import re
import sys

VERIF = os.path.dirname(os.path.dirname(os.path.abspath(__file__)))
root = os.path.join(VERIF, "seeded")


def short(t, n):
    t = re.sub(r"\s+", " ", str(t)).strip()
    return t if len(t) <= n else t[:n - 1].rstrip() + "…"


rows = []
caught = missed = 0
for d in sorted(os.listdir(root)):
    p = os.path.join(root, d)
    if not os.path.exists(os.path.join(p, "meta.json")):
        continue
    meta = json.load(open(os.path.join(p, "meta.json")))
    res = json.load(open(os.path.join(p, "result.json"))) if os.path.exists(os.path.join(p, "result.json")) else {}
    conf = json.load(open(os.path.join(p, "confirm.json"))) if os.path.exists(os.path.join(p, "confirm.json")) else {}
    if meta.get("obsolete"):
        rows.append("| %s | %s | %s | %s | %s |" % (d, short(meta.get("summary", ""), 230).replace("|", "\\|"), short(meta.get("needs_to_manifest", ""), 170).replace("|", "\\|"),
                                                 "yes" if conf.get("confirmed") else "?", "obsolete: " + short(meta["obsolete"], 200)))
        continue
    by = []
    for k, v in sorted(res.items()):
        if v["exit"] == 1 and v["violation_lines"]:
            sigs = [x.split(" occurrences")[0].replace("sig=", "") for x in v["sigs"]] or ["?"]
            # quick: the first signature; thorough: up to three (the sanitizer stages add their own)
            shown = sigs[:1] if k.endswith("quick") else sigs[:3]
            by.append("%s (%.0f s): %s" % (k.replace(":", " "), v["wall_s"], ", ".join("`%s`" % short(x, 70) for x in shown)))
    if by:
        caught += 1
    else:
        missed += 1
        by = ["**MISSED** (" + ", ".join("%s exit %s" % (k, v["exit"]) for k, v in sorted(res.items())) + ")"] if res else ["not evaluated"]
    rows.append("| %s | %s | %s | %s | %s |" % (
        d, short(meta.get("summary", ""), 230).replace("|", "\\|"), short(meta.get("needs_to_manifest", ""), 170).replace("|", "\\|"),
        "yes" if conf.get("confirmed") else "?", "<br>".join(by).replace("|", "\\|")))
print("| change | what it does (the sub-agent's own summary) | needs to manifest | confirmed | caught by |")
print("|--------|---------------------------------------------|-------------------|-----------|-----------|")
print("\n".join(rows))
print()
print("%d seeded changes, %d caught by the quick tier of their property's check, %d missed." % (caught + missed, caught, missed), file=sys.stderr)

ENGINES = [
    {"name": "E1 history + reference model", "path": "fv/", "serves_properties": ["C01"],
     "kind_free_text": "Python stdlib driver: seeded command histories sent over TCP to a private hooks-on ferrous child; every reply and canonical dumps compared with a small sequential Redis model"},
    {"name": "E2 hooked-state invariants", "path": "fv/diff.py (VERIF CHECK)", "serves_properties": ["C01"],
     "kind_free_text": "cfg-guarded VERIF admin command walking skip lists, streams, pending lists, expiry index, blocking registry under their own locks"},
]
NOTES = ("Runtime monitoring only: every verdict is 'held on the executions described in evidence/<id>.json'. "
         "KNOWN_FINDINGS.txt lists repaired (fixed:) and tolerated (known:) genuine defects. See DESIGN.md.")

add("C01", "exploration",
    "10^6-scale lock-step differential run of generated string/key-space histories against a sequential Redis model, with per-key probes after refused commands and full dumps; right level because the quantifier is over unbounded command sequences and argument values: a total oracle over stratified random histories plus boundary pools is what runtime monitoring can offer",
    "trusted: the reference model (fv/model.py), the RESP client, error replies compared as a class only; don't-care forms (fv/DONTCARE.md) not generated",
    "reference-model differential monitor over recorded client histories", "E1", "DESIGN.md 7/C01")

for pid in ["C02","C03","C04","C05","C06","C07","C08","C09","C10","C11","C12","C13","C14","C15","C16","C17","C18","C19","C20"]:
    if pid not in CHECKS:
        NOT_YET[pid] = "check not built yet in this session (runtime monitoring applies; see DESIGN.md section 7) - work in progress"

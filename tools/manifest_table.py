ENGINES = [
    {"name": "E1 history + reference model", "path": "fv/", "serves_properties": ["C01","C02","C03","C04","C05","C06","C07","C08","C09","C10","C11","C12","C13","C14","C15","C16","C17","C18","C19"],
     "kind_free_text": "Python stdlib driver: seeded command histories sent over TCP to private hooks-on ferrous children; every reply and canonical dumps compared with a small sequential Redis model, or with a twin server / a restarted server / a replayed log"},
    {"name": "E2 hooked-state invariants", "path": "fv/diff.py (VERIF CHECK|EXPIRY|BLOCKED)", "serves_properties": ["C02","C03","C04","C13","C15","C16"],
     "kind_free_text": "feature-guarded VERIF admin command walking skip lists, streams, pending lists, expiry index, blocking registry under their own locks at quiescent points"},
    {"name": "E3 sync points and fail points", "path": "/repo/src/verif.rs (VERIF SWEEPER|RDB), fv/checks/c10.py (os_faults)", "serves_properties": ["C02","C10"],
     "kind_free_text": "one-shot holds that park the sweeper / save thread between two of its steps, injected I/O errors and process aborts at the n-th step of a save; OS-level write faults through RLIMIT_FSIZE (EFBIG or SIGXFSZ kill at a chosen file offset)"},
    {"name": "E4 in-process Rust harness", "path": "rs/", "serves_properties": ["C04","C10","C20"],
     "kind_free_text": "binaries linked against the repo's library (codec, RDB loader, skip list) with a counting global allocator, catch_unwind, child processes for abort-class failures"},
    {"name": "E5 sanitizers / alternate builds", "path": "fv/sanitize.py, fv/checks/tsan_soup.py, fv/rsbin.py", "serves_properties": ["C01","C02","C03","C04","C06","C10","C12","C15","C16","C20"],
     "kind_free_text": "thorough tier: AddressSanitizer build of the server under the model-differential workloads (with a second connection sending BGSAVE every 15 ms) and the C06 enumeration, ThreadSanitizer build (-Zbuild-std) under expire / save workloads, Miri on the in-process harness (sequential histories and a bounded writer-vs-readers stage), valgrind memcheck under the hostile Lua corpus, release-profile server; report blocks are counted from the child's log"},
]
NOTES = ("Runtime monitoring only: every verdict is 'held on the executions described in evidence/<id>.json'. "
         "KNOWN_FINDINGS.txt lists repaired (fixed:) and tolerated (known:) genuine defects. See DESIGN.md.")

add("C01", "exploration",
    "10^6-scale lock-step differential run of generated string/key-space histories against a sequential Redis model, with per-key probes after refused commands and full dumps, a share of the commands sent through redis.pcall (effect judged), save/kill/restart in the middle of histories, the sweeper sync-point scenario with string commands; right level because the quantifier is over unbounded command sequences and argument values: a total oracle over stratified random histories plus boundary pools is what runtime monitoring can offer",
    "trusted: the reference model (fv/model.py), the RESP client, error replies compared as a class only; don't-care forms (fv/DONTCARE.md) not generated",
    "reference-model differential monitor over recorded client histories (+ AddressSanitizer pass in thorough)", "E1+E5", "DESIGN.md 7/C01")

add("C03", "exploration",
    "10^6-scale differential run of generated list/set/hash histories against the sequential model (all index forms, duplicates, multi-key algebra with missing/wrong-type operands, admissibility of random picks), probes after refusals, invariant walk (no empty collection kept) and dump per history, a share of the commands through redis.pcall, mid-history restarts, emptied-and-recreated collections polled across their old deadline",
    "trusted: reference model, RESP client; SINTER with a missing operand before a wrong-type one and non-canonical integers are don't-cares",
    "reference-model differential monitor over recorded client histories (+ AddressSanitizer pass in thorough)", "E1+E5", "DESIGN.md 7/C03")
add("C04", "exploration",
    "differential run of sorted-set histories with colliding scores against a (score, member) ordered model plus the skip-list structural walker (all levels, index agreement, no NaN) every 8 commands; in-process skip-list harness (sequential histories + a concurrent stage: re-scoring writer vs snapshot readers) with Miri in thorough; a share of the commands through redis.pcall, mid-history restarts",
    "trusted: reference model, float comparison of scores; walker reads the structure under its own lock at quiescent points",
    "reference-model differential monitor + hooked structural invariant walker (+ Miri/ASan on the in-process harness)", "E1+E2", "DESIGN.md 7/C04")
add("C08", "exploration",
    "complete enumeration of the write catalogue x watched-key state x arrival path, with the no-false-abort side (other keys same/other shard/other DB, reads), bookkeeping, served blocking pops, expiry, 10^4 cycles; finite space enumerated completely each run",
    "trusted: the model's verdict on whether a command changed the key; no-op writes on the watched key are don't-care",
    "exhaustive scenario enumeration with a model-derived abort oracle at the client boundary", "E1", "DESIGN.md 7/C08")
add("C14", "exploration",
    "stepwise multi-client pub/sub histories with a PING-token fence instead of sleeps; exact oracle on pushes per client, PUBLISH counts and acknowledgement counts",
    "trusted: own byte-wise glob matcher; pushes are buffered synchronously at publish time",
    "trace monitor over recorded per-connection event logs against a subscription-table model", "E1", "DESIGN.md 7/C14")
add("C15", "exploration",
    "differential run of stream histories (auto/explicit IDs at all edges, XDEL/XTRIM, range reads with bounds placed around stored IDs) against a sorted-map model with max-ever last-id; stream walker every 10 commands; save/kill/restart in the middle of 1 of 12 histories; a share of the commands through redis.pcall",
    "trusted: reference model; only complete ms-seq IDs are sent; field order inside an entry is not compared",
    "reference-model differential monitor + hooked stream invariant walker (+ AddressSanitizer pass in thorough)", "E1+E2+E5", "DESIGN.md 7/C15")

add("C07", "exploration",
    "sequential transaction histories compared slot by slot with the model (DISCARD, nested MULTI, disconnects before/after EXEC, interleaved observer) plus 20 s of free-running contention with uniquely valued writes and linear-time visibility oracles",
    "trusted: reference model; atomicity violations are only observable when a reader or a foreign write actually lands inside the window - the contention run reports how many observations were made",
    "reference-model differential monitor + concurrent history monitor with unique-value attribution", "E1", "DESIGN.md 7/C07")
add("C17", "exploration",
    "complete enumeration of the dispatch table x pipeline position / connection state on a password-protected server, with side-effect observation from an authenticated control connection and a password mutation set",
    "trusted: the catalogue (gaps against the dispatch match arms are enumerated with bare invocations and reported); inline commands are skipped when the server has no inline protocol",
    "exhaustive command-table enumeration with reply-class and side-effect oracles at the client boundary", "E1", "DESIGN.md 7/C17")
add("C18", "exploration",
    "multi-connection histories over equal key names through direct / MULTI (with queued SELECT) / EVAL / EVALSHA / blocking-pop paths with a 16-way model; every history ends with a canonical dump of all 16 databases; the connection's effective database is probed at the client boundary",
    "trusted: reference model; script reply conversion is not judged here",
    "reference-model differential monitor over multi-connection histories", "E1", "DESIGN.md 7/C18")
add("C19", "exploration",
    "full cursor iterations of SCAN/HSCAN/SSCAN/ZSCAN under an adversary that adds/deletes non-stable elements between calls (by byte order around the last page, at random, and aimed at the element visited next / returned last in a learned visiting order), all COUNT/MATCH/TYPE forms; containment, no-phantom, filter and bounded-termination oracles",
    "trusted: own glob matcher; the adversary's positional heuristics (byte order, learned visiting order) are only heuristics - random deletions are always included",
    "history monitor with stable-subset containment oracle under adversarial interleaving", "E1", "DESIGN.md 7/C19")

add("C02", "exploration",
    "timed histories judged by an interval model built from client-side monotonic brackets (decisive-before / decisive-after / don't-care), every data type and every command family probing a dead or live key; the sweeper parked between its collect and delete phase while the key is re-created / renamed / persisted (sync point); expiry index vs stored deadline agreement at quiescent points followed to the client boundary; deadlines across save/kill/restart; a mass expiry that keeps the sweeper inside each shard's write lock for 10-20 ms while thousands of just-expired keys are probed",
    "trusted: CLOCK_MONOTONIC on one host for client and server, the bracket arithmetic, the reference model; probes that fall inside the ambiguity bracket are not judged (counted as don't-care in evidence)",
    "timed history monitor with interval oracle + sync-point injected sweeper interleavings + hooked index invariant (+ ThreadSanitizer workload in thorough)", "E1+E2+E3+E5", "DESIGN.md 7/C02")
add("C05", "exploration",
    "pipelines of valid and invalid commands with unique ECHO sentinels under hundreds of segmentations (every split point for short pipelines, byte-at-a-time, random cuts, coalesced), independent RESP reader aligning replies to requests by index, model comparison of pure pipelines, malformed frames answered within a progress bound counted in event-loop iterations",
    "trusted: the independent RESP reader and the sentinel alignment; commands that legitimately produce 0 or many replies (SUBSCRIBE family, QUIT) are handled by their own rules",
    "reply-stream monitor with sentinel alignment over segmented pipelines", "E1", "DESIGN.md 7/C05")
add("C06", "exploration",
    "boundary enumeration (every catalogue command x argument position x numeric/byte boundary pool against keys of every type and size), frame fuzz (mutated pipelines, absurd lengths, nesting, floods, half frames), script resource probes; after every batch: child alive, PING on a new connection inside a generous watchdog, sentinel dataset intact; thorough repeats on a release-profile build (debug assertions off, overflow wraps)",
    "trusted: liveness is 'PING on a fresh connection answers within the watchdog' (watchdog expiry with a live idle process is re-checked, then reported); memory growth is bounded by RSS sampling only",
    "crash/hang watchdog monitor over boundary enumeration, frame fuzzing, split delivery, blocked-key and connection-flood scenarios (dev, release and AddressSanitizer builds)", "E1+E5", "DESIGN.md 7/C06")
add("C09", "exploration",
    "datasets over all six types in several databases with sizes around every length-encoding boundary, binary keys/values, special scores, TTLs; SAVE or BGSAVE, SIGKILL, restart on the same directory; canonical dumps compared, TTL deadlines within the measured brackets, keys dying during the downtime absent",
    "trusted: the canonical dump (type-specific full reads) as observation of the dataset; CLOCK_REALTIME/steady clock of one host",
    "round-trip differential monitor over save / kill / restart cycles", "E1", "DESIGN.md 7/C09")
add("C10", "fault_enumeration",
    "every step of a save (open, each write, flush, rename) enumerated with an injected I/O error (SAVE and BGSAVE) and a process abort; the previous dump must stay byte-identical / be what a restarted server loads, later saves must work, no temporary file may remain; the save thread is parked at sync points between per-key steps while clients replace/grow/empty/delete/expire/rename the key; free-running stress with uniquely versioned keys and a 4000-member sorted set that is only ever re-scored (every dump: each member exactly once, with a score it had); SHUTDOWN and a released parked BGSAVE finishing side by side; SAVE loop beside the auto-save rule; loader on truncated/corrupt files in-process",
    "trusted: the hooked fault points wrap every I/O call of the save path (open, write_all calls, flush, rename); power-loss semantics below the file-system API (fsync ordering) are out of reach",
    "fail-point / abort-point / OS-level write-fault enumeration + sync-point interleavings + versioned-value snapshot consistency oracle (+ ThreadSanitizer workload in thorough)", "E1+E3+E4+E5", "DESIGN.md 7/C10")
add("C11", "exploration",
    "appendonly child driven over the full write catalogue through direct, MULTI/EXEC, EVAL/EVALSHA, served blocking pop and fast-path blocking pop in several databases; at quiescent points the file is parsed as complete RESP arrays of bulk strings and replayed over TCP into a fresh child whose canonical dump must equal the live one (values, TTL presence)",
    "trusted: canonical dump; scripts with random outcomes are known findings (logged as scripts, not effects)",
    "log-replay differential monitor (redo log re-executed on a fresh server)", "E1", "DESIGN.md 7/C11")
add("C12", "exploration",
    "twin servers in lock-step: each generated command is sent directly to A and through redis.call / redis.pcall / KEYS / EVALSHA to B; reply_B must be the standard Lua round trip of reply_A and touched keys equal after every step; script semantics table (return shapes, error behaviour, all 256 byte values, 64 KB arguments); sandbox probes with a canary file; busy-loop scripts vs single-command readers for atomicity",
    "trusted: the conversion table of the harness (Redis EVAL documentation); conversions pinned by the existing suite are known findings",
    "twin-server differential monitor + semantics table + atomicity observation with unique values (+ valgrind memcheck under a hostile script corpus in thorough)", "E1+E5", "DESIGN.md 7/C12")
add("C13", "exploration",
    "stepwise scheduler: one action at a time (push, pop, single/multi-key BLPOP/BRPOP, finite timeouts, disconnect, DEL, transactions, scripts), wait for event-loop progress via VERIF LOOPCOUNT, compare VERIF BLOCKED and every socket with a model of who must hold which reply (FIFO per key, first non-empty key, no stranded client); free-running stress with schedule-independent oracles (conservation, exactly-once, timeout lower bound, final quiescence)",
    "trusted: the blocked-registry dump reflects the registry under its lock; finite-timeout expiries near an action are resolved by what the server did (either order accepted)",
    "stepwise history monitor with registry hook + conservation/exactly-once oracles under stress", "E1+E2", "DESIGN.md 7/C13")
add("C16", "exploration",
    "differential run of consumer-group histories (XGROUP CREATE/SETID/DESTROY/DELCONSUMER, XREADGROUP > / explicit IDs / NOACK / COUNT, XACK, XCLAIM with all options, XPENDING summary and extended forms, XDEL/XTRIM under pending entries) against a sequential model, with the PEL walker (group PEL == union of consumer PELs, delivery counts, last-delivered monotonic) every few commands; history reads, duplicate IDs, a share of the commands through redis.pcall, a timed idle-clock scenario",
    "trusted: reference model; idle times are compared as ranges from client-side brackets; forms Redis leaves unspecified are don't-cares (fv/DONTCARE.md)",
    "reference-model differential monitor + hooked pending-list invariant walker (+ AddressSanitizer pass in thorough)", "E1+E2+E5", "DESIGN.md 7/C16")
add("C20", "exploration",
    "in-process harness linked against the repo's own codec: round trip of random frame trees, chunking independence at every single split point / byte-at-a-time / random multi-splits, totality over all short strings of the protocol alphabet and mutated frames with a counting allocator (largest allocation <= 64 x received + 64 KB), absurd lengths and nesting in child processes; Miri on a subset in thorough",
    "trusted: the harness' own frame equality; the parser is exercised through the same entry points the connection uses",
    "in-process round-trip / chunking differential with counting-allocator monitor (+ Miri)", "E4+E5", "DESIGN.md 7/C20")

for pid in ["C02","C03","C04","C05","C06","C07","C08","C09","C10","C11","C12","C13","C14","C15","C16","C17","C18","C19","C20"]:
    if pid not in CHECKS:
        NOT_YET[pid] = "check not built yet in this session (runtime monitoring applies; see DESIGN.md section 7) - work in progress"

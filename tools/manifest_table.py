ENGINES = [
    {"name": "E1 history + reference model", "path": "fv/", "serves_properties": ["C01", "C03", "C04", "C07", "C08", "C14", "C15", "C17", "C18", "C19"],
     "kind_free_text": "Python stdlib driver: seeded command histories sent over TCP to a private hooks-on ferrous child; every reply and canonical dumps compared with a small sequential Redis model"},
    {"name": "E2 hooked-state invariants", "path": "fv/diff.py (VERIF CHECK)", "serves_properties": ["C03", "C04", "C15"],
     "kind_free_text": "cfg-guarded VERIF admin command walking skip lists, streams, pending lists, expiry index, blocking registry under their own locks"},
]
NOTES = ("Runtime monitoring only: every verdict is 'held on the executions described in evidence/<id>.json'. "
         "KNOWN_FINDINGS.txt lists repaired (fixed:) and tolerated (known:) genuine defects. See DESIGN.md.")

add("C01", "exploration",
    "10^6-scale lock-step differential run of generated string/key-space histories against a sequential Redis model, with per-key probes after refused commands and full dumps; right level because the quantifier is over unbounded command sequences and argument values: a total oracle over stratified random histories plus boundary pools is what runtime monitoring can offer",
    "trusted: the reference model (fv/model.py), the RESP client, error replies compared as a class only; don't-care forms (fv/DONTCARE.md) not generated",
    "reference-model differential monitor over recorded client histories", "E1", "DESIGN.md 7/C01")

add("C03", "exploration",
    "10^6-scale differential run of generated list/set/hash histories against the sequential model (all index forms, duplicates, multi-key algebra with missing/wrong-type operands, admissibility of random picks), probes after refusals, invariant walk (no empty collection kept) and dump per history",
    "trusted: reference model, RESP client; SINTER with a missing operand before a wrong-type one and non-canonical integers are don't-cares",
    "reference-model differential monitor over recorded client histories", "E1", "DESIGN.md 7/C03")
add("C04", "exploration",
    "differential run of sorted-set histories with colliding scores against a (score, member) ordered model plus the skip-list structural walker (all levels, index agreement, no NaN) every 8 commands; in-process skip-list harness under Miri/ASan in thorough",
    "trusted: reference model, float comparison of scores; walker reads the structure under its own lock at quiescent points",
    "reference-model differential monitor + hooked structural invariant walker (+ Miri/ASan on the in-process harness)", "E1+E2", "DESIGN.md 7/C04")
add("C08", "exploration",
    "complete enumeration of the write catalogue x watched-key state x arrival path, with the no-false-abort side (other keys same/other shard/other DB, reads), bookkeeping, served blocking pops, expiry, 10^4 cycles; finite space enumerated completely each run",
    "trusted: the model's verdict on whether a command changed the key; no-op writes on the watched key are don't-care",
    "exhaustive scenario enumeration with a model-derived abort oracle at the client boundary", "E1", "DESIGN.md 7/C08")
add("C14", "exploration",
    "stepwise multi-client pub/sub histories with a PING-token fence instead of sleeps; exact oracle on pushes per client, PUBLISH counts and acknowledgement counts",
    "trusted: own byte-wise glob matcher; pushes are buffered synchronously at publish time",
    "trace monitor over recorded per-connection event logs against a subscription-table model", "E1", "DESIGN.md 7/C14")
add("C15", "exploration",
    "differential run of stream histories (auto/explicit IDs at all edges, XDEL/XTRIM, range reads with bounds placed around stored IDs) against a sorted-map model with max-ever last-id; stream walker every 10 commands",
    "trusted: reference model; only complete ms-seq IDs are sent; field order inside an entry is not compared",
    "reference-model differential monitor + hooked stream invariant walker", "E1+E2", "DESIGN.md 7/C15")

add("C07", "exploration",
    "sequential transaction histories compared slot by slot with the model (DISCARD, nested MULTI, disconnects before/after EXEC, interleaved observer) plus 20 s of free-running contention with uniquely valued writes and linear-time visibility oracles",
    "trusted: reference model; atomicity violations are only observable when a reader or a foreign write actually lands inside the window - the contention run reports how many observations were made",
    "reference-model differential monitor + concurrent history monitor with unique-value attribution", "E1", "DESIGN.md 7/C07")
add("C17", "exploration",
    "complete enumeration of the dispatch table x pipeline position / connection state on a password-protected server, with side-effect observation from an authenticated control connection and a password mutation set",
    "trusted: the catalogue (gaps against the dispatch match arms are enumerated with bare invocations and reported); inline commands are skipped when the server has no inline protocol",
    "exhaustive command-table enumeration with reply-class and side-effect oracles at the client boundary", "E1", "DESIGN.md 7/C17")
add("C18", "exploration",
    "multi-connection histories over equal key names through direct / MULTI (with queued SELECT) / EVAL / EVALSHA / blocking-pop paths with a 16-way model; every history ends with a canonical dump of all 16 databases; the connection's effective database is probed at the client boundary",
    "trusted: reference model; script reply conversion is not judged here",
    "reference-model differential monitor over multi-connection histories", "E1", "DESIGN.md 7/C18")
add("C19", "exploration",
    "full cursor iterations of SCAN/HSCAN/SSCAN/ZSCAN under an adversary that adds/deletes non-stable elements between calls, all COUNT/MATCH/TYPE forms; containment, no-phantom, filter and bounded-termination oracles",
    "trusted: own glob matcher; the adversary's positional heuristics (byte order) are only heuristics - random deletions are always included",
    "history monitor with stable-subset containment oracle under adversarial interleaving", "E1", "DESIGN.md 7/C19")

for pid in ["C02","C03","C04","C05","C06","C07","C08","C09","C10","C11","C12","C13","C14","C15","C16","C17","C18","C19","C20"]:
    if pid not in CHECKS:
        NOT_YET[pid] = "check not built yet in this session (runtime monitoring applies; see DESIGN.md section 7) - work in progress"
